"""Equivalence check for refactoring 4 (group -> xarray conversion in ceos_alos2/xarray.py).

Run as::

    cd /tmp/wt7/e52 && PYTHONPATH=/tmp/wt7/e52 /venv/bin/python _eq/4/equiv.py

Exercises ``extract_encoding``, ``decode_coords``, ``to_dataset``,
``to_datatree`` and ``open_alos2`` and compares results (structure, order,
values, attrs, encodings), exceptions (type and message) and the order in
which variables are converted / files are read with values recorded from the
UNCHANGED code (``EXPECTED`` below; to keep the file small the recorded values
are stored as sha1 digests of their ``repr``). ``--record`` prints the digests
instead of comparing them, ``--dump`` prints the full observed values.

dask is not available in the sandbox, so ``xr.Dataset.chunk`` is replaced by a
recorder (logging the dataset's variables and the chunks it was called with,
and tagging the returned dataset), which makes the script independent of dask.
"""

import hashlib
import io
import pprint
import sys
import warnings
from types import SimpleNamespace

import numpy as np
import xarray as xr

from ceos_alos2 import xarray as cx
from ceos_alos2.array import Array
from ceos_alos2.hierarchy import Group, Variable

LOG = []


class RecordingFile:
    def __init__(self, content):
        self._f = io.BytesIO(content)

    def __enter__(self):
        LOG.append(("enter",))
        return self

    def __exit__(self, exc_type, exc, tb):
        LOG.append(("exit", None if exc_type is None else exc_type.__name__))
        return False

    def seek(self, offset, whence=0):
        LOG.append(("seek", int(offset), whence))
        return self._f.seek(offset, whence)

    def read(self, size=-1):
        LOG.append(("read", int(size)))
        return self._f.read(size)


class RecordingFS:
    def __init__(self, files):
        self.files = files

    def open(self, url, mode="rb", **kwargs):
        LOG.append(("open", url, mode, tuple(sorted(kwargs))))
        return RecordingFile(self.files[url])


class LoggingVariable(Variable):
    """``hierarchy.Variable`` which logs when its chunks are inspected (once per conversion)"""

    @property
    def chunks(self):
        LOG.append(("convert", self.attrs.get("id")))
        return super().chunks


def make_array(records_per_chunk=2, url="image"):
    data = (np.arange(24, dtype="uint16") * 5 + 2).reshape(4, 6)
    encoded = data.astype(">u2").tobytes()
    rowsize = 12
    gap = b"\xee" * 8
    content = b"".join(gap + encoded[i * rowsize : (i + 1) * rowsize] for i in range(4))
    byte_ranges = [(8 * (i + 1) + rowsize * i, (8 + rowsize) * (i + 1)) for i in range(4)]
    fs = RecordingFS({url: content})
    return Array(
        fs=fs, url=url, byte_ranges=byte_ranges, shape=data.shape, dtype=data.dtype,
        type_code="IU2", records_per_chunk=records_per_chunk,
    )


def fake_chunk(self, chunks={}, *args, **kwargs):
    LOG.append(("chunk", list(self.variables), describe_value(chunks), args, sorted(kwargs)))
    return self.assign_attrs(_chunked=repr(chunks))


xr.Dataset.chunk = fake_chunk


def describe_value(value):
    if isinstance(value, np.ndarray):
        return ("ndarray", str(value.dtype), value.shape, [str(v) for v in value.ravel().tolist()])
    if isinstance(value, np.generic):
        return (type(value).__name__, value.item())
    if isinstance(value, dict):
        return ("dict", [(describe_value(k), describe_value(v)) for k, v in value.items()])
    if isinstance(value, (list, tuple)):
        return (type(value).__name__, [describe_value(v) for v in value])
    if isinstance(value, (int, float, str, type(None))):
        return (type(value).__name__, value)
    return (type(value).__name__, repr(value))


def describe_variable(var):
    in_memory = var._in_memory
    data_type = type(var._data).__name__
    return {
        "dims": var.dims,
        "in-memory": in_memory,
        "data-type": data_type,
        "dtype": str(var.dtype),
        "shape": var.shape,
        "attrs": describe_value(dict(var.attrs)),
        "encoding": describe_value(dict(var.encoding)),
    }


def describe_dataset(ds, load=True):
    description = {
        "type": type(ds).__name__,
        "data_vars": list(ds.data_vars),
        "coords": list(ds.coords),
        "dims": describe_value(dict(ds.sizes)),
        "attrs": describe_value(dict(ds.attrs)),
        "variables": [(name, describe_variable(var)) for name, var in ds.variables.items()],
    }
    if load:
        description["values"] = [(name, describe_value(var.values)) for name, var in ds.variables.items()]
    return description


def describe_tree(tree):
    return {
        "type": type(tree).__name__,
        "groups": list(tree.groups),
        "nodes": [(node.path, node.name, describe_dataset(node.to_dataset(inherit=False))) for node in tree.subtree],
    }


def attempt(f, *args, **kwargs):
    del LOG[:]
    try:
        with warnings.catch_warnings():
            warnings.simplefilter("ignore")
            result = ("ok", f(*args, **kwargs))
    except Exception as e:  # noqa: BLE001
        result = ("error", type(e).__name__, str(e))
    return result, list(LOG)


def V(dims, data, attrs=None, id=None):
    attrs = dict(attrs or {})
    if id is not None:
        attrs["id"] = id
    return LoggingVariable(dims, data, attrs)


def groups():
    """factories of groups (fresh objects for every case)"""

    def leaf(prefix, url=None, attrs=None):
        return Group(
            path=None,
            url=url,
            data={
                "x": V("x", np.array([1, 2, 3], dtype="int8"), {"a": 1}, id=f"{prefix}.x"),
                "m": V(["x", "y"], np.arange(12).reshape(3, 4), {"b": "abc"}, id=f"{prefix}.m"),
            },
            attrs={} if attrs is None else attrs,
        )

    def lazy(prefix, rpc=2, attrs=None):
        return Group(
            path=None,
            url=None,
            data={
                "image": V(["rows", "cols"], make_array(rpc, url=f"{prefix}-file"), {"units": "1"}, id=f"{prefix}.image"),
                "rows": V("rows", np.arange(4) * 2.5, {}, id=f"{prefix}.rows"),
            },
            attrs={"coordinates": ["rows"]} if attrs is None else attrs,
        )

    return {
        "empty": lambda: Group(path=None, url=None, data={}, attrs={}),
        "attrs-only": lambda: Group(path=None, url=None, data={}, attrs={"a": 1, "b": [1, 2], "c": "d"}),
        "variables": lambda: leaf("root"),
        "coords": lambda: leaf("root", attrs={"coordinates": ["m"], "title": "t"}),
        "coords-all": lambda: leaf("root", attrs={"coordinates": ["x", "m"]}),
        "coords-empty": lambda: leaf("root", attrs={"coordinates": []}),
        "coords-missing": lambda: leaf("root", attrs={"coordinates": ["nope"]}),
        "coords-string": lambda: leaf("root", attrs={"coordinates": "x"}),
        "lazy": lambda: lazy("root"),
        "lazy-rpc1": lambda: lazy("root", rpc=1),
        "lazy-rpc-none": lambda: lazy("root", rpc=None),
        "lazy-rpc-all": lambda: lazy("root", rpc=-1),
        "nested": lambda: Group(
            path=None,
            url="memory://root",
            data={
                "c": V("x", np.array([1, 2, 3], dtype="int8"), {"a": 1}, id="root.c"),
                "d": leaf("d"),
                "e": Group(
                    path=None,
                    url="memory://other",
                    data={"f": lazy("e.f"), "g": leaf("e.g", attrs={"coordinates": ["x"]}), "s": V([], np.array(1.5), {}, id="e.s")},
                    attrs={"level": 1},
                ),
                "z": V("z", np.array(["a", "b"]), {}, id="root.z"),
            },
            attrs={"root": True},
        ),
        "named-root": lambda: Group(
            path="/imagery",
            url=None,
            data={"HH": lazy("HH"), "v": V("x", np.array([1.0]), {}, id="imagery.v")},
            attrs={"k": 1},
        ),
        "relative-root": lambda: Group(path="top", url=None, data={"sub": leaf("sub"), "w": V("w", np.array([0]), {}, id="top.w")}, attrs={}),
        "subgroup-only": lambda: Group(path=None, url=None, data={"only": Group(path=None, url=None, data={}, attrs={"q": 1})}, attrs={}),
        "bad-root": lambda: Group(
            path=None,
            url=None,
            data={"ok": V("x", np.array([1]), {}, id="root.ok"), "bad": V(["x", "y"], np.array([1, 2]), {}, id="root.bad"), "sub": leaf("sub")},
            attrs={},
        ),
        "bad-child": lambda: Group(
            path=None,
            url=None,
            data={
                "ok": V("x", np.array([1]), {}, id="root.ok"),
                "first": leaf("first"),
                "broken": Group(path=None, url=None, data={"bad": V(["x", "y"], np.array([1, 2]), {}, id="broken.bad")}, attrs={}),
                "last": leaf("last"),
            },
            attrs={},
        ),
        "conflicting-sizes": lambda: Group(
            path=None,
            url=None,
            data={"a": V("x", np.array([1, 2]), {}, id="a"), "b": V("x", np.array([1, 2, 3]), {}, id="b")},
            attrs={},
        ),
        "misaligned-child": lambda: Group(
            path=None,
            url=None,
            data={
                "x": V("x", np.array([1, 2]), {}, id="root.x"),
                "child": Group(path=None, url=None, data={"x": V("x", np.array([1, 2, 3]), {}, id="child.x")}, attrs={}),
            },
            attrs={"coordinates": ["x"]},
        ),
    }


chunk_settings = {
    "none": None,
    "empty": {},
    "xy": {"x": 1, "y": 2},
    "rows": {"rows": 2, "unrelated": 7},
    "minus-one": {"x": -1, "rows": -1, "cols": "auto"},
    "auto": "auto",
    "int": -1,
    "zero": 0,
    "false": False,
    "list": [("x", 1)],
    "tuple-keys": {("x",): 1},
}


def collect():
    results = {}

    # --- extract_encoding
    variables = {
        "numpy": lambda: Variable("x", np.array([1], dtype="int8"), {}),
        "lazy-1d": lambda: Variable("x", make_array(2), {}),
        "lazy-2d": lambda: Variable(["a", "b"], make_array(1), {}),
        "lazy-rpc-none": lambda: Variable(["a", "b"], make_array(None), {}),
        "lazy-rpc-all": lambda: Variable(["a", "b"], make_array(-1), {}),
        "lazy-rpc-auto": lambda: Variable(["a", "b"], make_array("auto"), {}),
        "lazy-too-many-dims": lambda: Variable(["a", "b", "c"], make_array(3), {}),
        "duck-no-chunks": lambda: SimpleNamespace(chunks={}),
        "duck-all-none": lambda: SimpleNamespace(chunks={"x": None, "y": None}),
        "duck-chunks-without-sizes": lambda: SimpleNamespace(chunks={"x": 2, "y": np.int64(3)}),
        "duck-none-without-sizes": lambda: SimpleNamespace(chunks={"x": 2, "y": None}),
        "duck-minus-one": lambda: SimpleNamespace(chunks={"x": -1, "y": 4, "z": None}, sizes={"x": 10, "y": 20, "z": 30}),
        "duck-missing-size": lambda: SimpleNamespace(chunks={"x": -1, "y": None}, sizes={"x": 10}),
        "duck-odd-values": lambda: SimpleNamespace(chunks={"x": "auto", "y": 2.5, "z": (1, 2), "w": 0, "v": -1.0}, sizes={"v": 9}),
        "duck-array-chunksize": lambda: SimpleNamespace(chunks={"x": np.array([1, 2])}, sizes={"x": 3}),
        "duck-chunks-list": lambda: SimpleNamespace(chunks=[1, 2]),
        "no-chunks-attribute": lambda: SimpleNamespace(),
    }
    for name, create in variables.items():
        results[f"extract_encoding|{name}"] = attempt(lambda: describe_value(cx.extract_encoding(create())))

    def fresh_result():
        var = Variable(["a", "b"], make_array(1), {})
        first, second = cx.extract_encoding(var), cx.extract_encoding(var)
        return first == second, first is not second, first["preferred_chunksizes"] is not second["preferred_chunksizes"]

    results["extract_encoding|fresh-dicts"] = attempt(fresh_result)

    # --- decode_coords
    datasets = {
        "no-attr": lambda: xr.Dataset({"a": 1, "b": 2}, attrs={}),
        "one": lambda: xr.Dataset({"a": 1, "b": 2}, attrs={"coordinates": ["a"], "other": 1}),
        "both": lambda: xr.Dataset({"a": 1, "b": 2}, attrs={"coordinates": ["b", "a"]}),
        "string": lambda: xr.Dataset({"a": 1, "b": 2}, attrs={"coordinates": "b"}),
        "tuple": lambda: xr.Dataset({"a": 1, "b": 2}, attrs={"coordinates": ("a",)}),
        "empty-list": lambda: xr.Dataset({"a": 1}, attrs={"coordinates": []}),
        "missing": lambda: xr.Dataset({"a": 1}, attrs={"coordinates": ["zz"]}),
        "none": lambda: xr.Dataset({"a": 1}, attrs={"coordinates": None}),
        "already-coord": lambda: xr.Dataset({"a": ("x", [1, 2])}, coords={"x": [5, 6]}, attrs={"coordinates": ["x"]}),
    }
    for name, create in datasets.items():

        def decode():
            ds = create()
            decoded = cx.decode_coords(ds)
            return describe_dataset(decoded), describe_value(dict(ds.attrs)), decoded is ds

        results[f"decode_coords|{name}"] = attempt(decode)
    results["decode_coords|not-a-dataset"] = attempt(cx.decode_coords, SimpleNamespace(attrs={}))

    # --- to_dataset / to_datatree
    for group_id, create in groups().items():
        for chunks_id, chunks in chunk_settings.items():

            def dataset():
                group = create()
                attrs_before = repr(group.attrs)
                ds = cx.to_dataset(group, chunks=chunks)
                events = list(LOG)
                return describe_dataset(ds), events, repr(group.attrs) == attrs_before

            def datatree():
                group = create()
                attrs_before = repr(group.attrs)
                tree = cx.to_datatree(group, chunks=chunks)
                events = list(LOG)
                return describe_tree(tree), events, repr(group.attrs) == attrs_before

            results[f"to_dataset|{group_id}|{chunks_id}"] = attempt(dataset)
            results[f"to_datatree|{group_id}|{chunks_id}"] = attempt(datatree)

    # calling conventions
    create = groups()["nested"]
    results["to_dataset|default-chunks"] = attempt(lambda: describe_dataset(cx.to_dataset(create())))
    results["to_dataset|positional-chunks"] = attempt(lambda: describe_dataset(cx.to_dataset(create(), {"x": 2})))
    results["to_datatree|default-chunks"] = attempt(lambda: describe_tree(cx.to_datatree(create())))
    results["to_datatree|positional-chunks"] = attempt(lambda: describe_tree(cx.to_datatree(create(), {"x": 2})))
    results["to_dataset|keyword-group"] = attempt(lambda: describe_dataset(cx.to_dataset(group=create(), chunks=None)))
    results["to_datatree|keyword-group"] = attempt(lambda: describe_tree(cx.to_datatree(group=create(), chunks=None)))
    results["to_dataset|unknown-keyword"] = attempt(lambda: cx.to_dataset(create(), chunk=None))
    results["to_datatree|unknown-keyword"] = attempt(lambda: cx.to_datatree(create(), chunk=None))
    results["to_dataset|not-a-group"] = attempt(lambda: cx.to_dataset({"a": 1}))
    results["to_datatree|not-a-group"] = attempt(lambda: cx.to_datatree({"a": 1}))
    results["to_dataset|none"] = attempt(lambda: cx.to_dataset(None, chunks={}))
    results["to_datatree|variable"] = attempt(lambda: cx.to_datatree(Variable("x", np.array([1]), {})))

    # sub groups converted on their own (their paths are not "/")
    def subgroup():
        group = create()["e"]
        return describe_tree(cx.to_datatree(group, chunks={"x": 3})), list(LOG)

    results["to_datatree|subgroup"] = attempt(subgroup)

    # --- open_alos2: forwards the options to io.open and the chunks to the conversion
    calls = []

    def fake_open(path, **kwargs):
        calls.append((path, sorted(kwargs.items())))
        return groups()["nested"]()

    original_open = cx.io.open
    cx.io.open = fake_open
    try:
        results["open_alos2|defaults"] = attempt(lambda: describe_tree(cx.open_alos2("memory://product")))
        results["open_alos2|chunks"] = attempt(lambda: describe_tree(cx.open_alos2("p", chunks={"x": 1})))
        results["open_alos2|options"] = attempt(
            lambda: describe_tree(cx.open_alos2("p", {}, {"records_per_chunk": 3, "use_cache": False}))
        )
        results["open_alos2|keywords"] = attempt(
            lambda: describe_tree(cx.open_alos2(path="p", chunks=None, backend_options={"storage_options": {"a": 1}}))
        )
        results["open_alos2|bad-chunks"] = attempt(lambda: cx.open_alos2("p", chunks="auto"))
        results["open_alos2|bad-options"] = attempt(lambda: cx.open_alos2("p", backend_options=[1]))
    finally:
        cx.io.open = original_open
    results["open_alos2|calls"] = describe_value(calls)

    return results


# recorded from the unchanged code (HEAD 343c5cf)
EXPECTED = {'decode_coords|already-coord': 'bbf951a3aa358b84',
 'decode_coords|both': 'ade942ecbee20b59',
 'decode_coords|empty-list': '0864f2d90a35f57e',
 'decode_coords|missing': '61af218fdb094c8e',
 'decode_coords|no-attr': '394ac22c12c3e3a7',
 'decode_coords|none': 'b6725d5d9900c142',
 'decode_coords|not-a-dataset': 'bddde11f8b75307d',
 'decode_coords|one': '39c28a4f9325e142',
 'decode_coords|string': '4443600422f383a4',
 'decode_coords|tuple': 'ea0d152c4605930a',
 'extract_encoding|duck-all-none': '3136d82ccda8c774',
 'extract_encoding|duck-array-chunksize': '10349f8326569c23',
 'extract_encoding|duck-chunks-list': '313da515ad98d21e',
 'extract_encoding|duck-chunks-without-sizes': 'c1d30f4c9d1e1401',
 'extract_encoding|duck-minus-one': '196a99339e34ec34',
 'extract_encoding|duck-missing-size': '2a09f4a900f9b2dc',
 'extract_encoding|duck-no-chunks': '3136d82ccda8c774',
 'extract_encoding|duck-none-without-sizes': 'a290e9b2c6243de0',
 'extract_encoding|duck-odd-values': '56f6381d2fbdf651',
 'extract_encoding|fresh-dicts': '9b274c8dd78dbf16',
 'extract_encoding|lazy-1d': '99bbfc2e5f27eb2c',
 'extract_encoding|lazy-2d': '5b8ea5648a6f3174',
 'extract_encoding|lazy-rpc-all': 'd800d35e8bf6afa0',
 'extract_encoding|lazy-rpc-auto': '84a9e6a18344667e',
 'extract_encoding|lazy-rpc-none': '5c07eb061b88effc',
 'extract_encoding|lazy-too-many-dims': '5ebe2d9534925de8',
 'extract_encoding|no-chunks-attribute': 'febecbfe8124f56f',
 'extract_encoding|numpy': '3136d82ccda8c774',
 'open_alos2|bad-chunks': '2cf93bb50fd0dac4',
 'open_alos2|bad-options': 'adc3a6262beba8aa',
 'open_alos2|calls': '3fa995f1c692ecdf',
 'open_alos2|chunks': 'eb10045d197b0f6f',
 'open_alos2|defaults': '6dedcf3e22a2042b',
 'open_alos2|keywords': '6dedcf3e22a2042b',
 'open_alos2|options': 'e465487733076946',
 'to_dataset|attrs-only|auto': '3fce8e64e14e7a86',
 'to_dataset|attrs-only|empty': 'b01fec07decc160b',
 'to_dataset|attrs-only|false': '38363a83d60a561b',
 'to_dataset|attrs-only|int': 'cefa652f7feca850',
 'to_dataset|attrs-only|list': 'a3c3ddc16ff1ada1',
 'to_dataset|attrs-only|minus-one': 'b01fec07decc160b',
 'to_dataset|attrs-only|none': '73ad2ccae892401a',
 'to_dataset|attrs-only|rows': 'b01fec07decc160b',
 'to_dataset|attrs-only|tuple-keys': 'b01fec07decc160b',
 'to_dataset|attrs-only|xy': 'b01fec07decc160b',
 'to_dataset|attrs-only|zero': 'cefa652f7feca850',
 'to_dataset|bad-child|auto': '65527ccbf63f1043',
 'to_dataset|bad-child|empty': '295845b2332d218d',
 'to_dataset|bad-child|false': '7f00b1a5734a29f8',
 'to_dataset|bad-child|int': 'f3ee86a7213c1acf',
 'to_dataset|bad-child|list': 'ce058d050ff6c030',
 'to_dataset|bad-child|minus-one': 'e8971fb68aa8f5d2',
 'to_dataset|bad-child|none': '67c7da3a58a04453',
 'to_dataset|bad-child|rows': '295845b2332d218d',
 'to_dataset|bad-child|tuple-keys': '295845b2332d218d',
 'to_dataset|bad-child|xy': 'e8a90484bd5c3320',
 'to_dataset|bad-child|zero': 'f3ee86a7213c1acf',
 'to_dataset|bad-root|auto': '883f8b7e314c6b8a',
 'to_dataset|bad-root|empty': '883f8b7e314c6b8a',
 'to_dataset|bad-root|false': '883f8b7e314c6b8a',
 'to_dataset|bad-root|int': '883f8b7e314c6b8a',
 'to_dataset|bad-root|list': '883f8b7e314c6b8a',
 'to_dataset|bad-root|minus-one': '883f8b7e314c6b8a',
 'to_dataset|bad-root|none': '883f8b7e314c6b8a',
 'to_dataset|bad-root|rows': '883f8b7e314c6b8a',
 'to_dataset|bad-root|tuple-keys': '883f8b7e314c6b8a',
 'to_dataset|bad-root|xy': '883f8b7e314c6b8a',
 'to_dataset|bad-root|zero': '883f8b7e314c6b8a',
 'to_dataset|conflicting-sizes|auto': 'e26688df5d9c83cb',
 'to_dataset|conflicting-sizes|empty': 'e26688df5d9c83cb',
 'to_dataset|conflicting-sizes|false': 'e26688df5d9c83cb',
 'to_dataset|conflicting-sizes|int': 'e26688df5d9c83cb',
 'to_dataset|conflicting-sizes|list': 'e26688df5d9c83cb',
 'to_dataset|conflicting-sizes|minus-one': 'e26688df5d9c83cb',
 'to_dataset|conflicting-sizes|none': 'e26688df5d9c83cb',
 'to_dataset|conflicting-sizes|rows': 'e26688df5d9c83cb',
 'to_dataset|conflicting-sizes|tuple-keys': 'e26688df5d9c83cb',
 'to_dataset|conflicting-sizes|xy': 'e26688df5d9c83cb',
 'to_dataset|conflicting-sizes|zero': 'e26688df5d9c83cb',
 'to_dataset|coords-all|auto': '2b47fe271bc7acad',
 'to_dataset|coords-all|empty': '792c0aa648ef32b7',
 'to_dataset|coords-all|false': '32c60203d2665b4c',
 'to_dataset|coords-all|int': '971ecc3cda59d613',
 'to_dataset|coords-all|list': 'b9b84163aa99124f',
 'to_dataset|coords-all|minus-one': '6fc35e498c5e62f2',
 'to_dataset|coords-all|none': '41004f75f15ccf68',
 'to_dataset|coords-all|rows': '792c0aa648ef32b7',
 'to_dataset|coords-all|tuple-keys': '792c0aa648ef32b7',
 'to_dataset|coords-all|xy': '1a6b23bddcd17ccc',
 'to_dataset|coords-all|zero': '971ecc3cda59d613',
 'to_dataset|coords-empty|auto': '2b47fe271bc7acad',
 'to_dataset|coords-empty|empty': '23640412d904d421',
 'to_dataset|coords-empty|false': '32c60203d2665b4c',
 'to_dataset|coords-empty|int': '971ecc3cda59d613',
 'to_dataset|coords-empty|list': 'b9b84163aa99124f',
 'to_dataset|coords-empty|minus-one': 'de3afe28768e5e92',
 'to_dataset|coords-empty|none': '61a00f9ec25b1906',
 'to_dataset|coords-empty|rows': '23640412d904d421',
 'to_dataset|coords-empty|tuple-keys': '23640412d904d421',
 'to_dataset|coords-empty|xy': '467207ff7cdf08e4',
 'to_dataset|coords-empty|zero': '971ecc3cda59d613',
 'to_dataset|coords-missing|auto': 'dcfdf4f0aec876c1',
 'to_dataset|coords-missing|empty': 'dcfdf4f0aec876c1',
 'to_dataset|coords-missing|false': 'dcfdf4f0aec876c1',
 'to_dataset|coords-missing|int': 'dcfdf4f0aec876c1',
 'to_dataset|coords-missing|list': 'dcfdf4f0aec876c1',
 'to_dataset|coords-missing|minus-one': 'dcfdf4f0aec876c1',
 'to_dataset|coords-missing|none': 'dcfdf4f0aec876c1',
 'to_dataset|coords-missing|rows': 'dcfdf4f0aec876c1',
 'to_dataset|coords-missing|tuple-keys': 'dcfdf4f0aec876c1',
 'to_dataset|coords-missing|xy': 'dcfdf4f0aec876c1',
 'to_dataset|coords-missing|zero': 'dcfdf4f0aec876c1',
 'to_dataset|coords-string|auto': '2b47fe271bc7acad',
 'to_dataset|coords-string|empty': '23640412d904d421',
 'to_dataset|coords-string|false': '32c60203d2665b4c',
 'to_dataset|coords-string|int': '971ecc3cda59d613',
 'to_dataset|coords-string|list': 'b9b84163aa99124f',
 'to_dataset|coords-string|minus-one': 'de3afe28768e5e92',
 'to_dataset|coords-string|none': '61a00f9ec25b1906',
 'to_dataset|coords-string|rows': '23640412d904d421',
 'to_dataset|coords-string|tuple-keys': '23640412d904d421',
 'to_dataset|coords-string|xy': '467207ff7cdf08e4',
 'to_dataset|coords-string|zero': '971ecc3cda59d613',
 'to_dataset|coords|auto': '2b47fe271bc7acad',
 'to_dataset|coords|empty': 'e6628a3b5fae7f40',
 'to_dataset|coords|false': '32c60203d2665b4c',
 'to_dataset|coords|int': '971ecc3cda59d613',
 'to_dataset|coords|list': 'b9b84163aa99124f',
 'to_dataset|coords|minus-one': 'a7c13d23b67de945',
 'to_dataset|coords|none': '271f7f804d6ea120',
 'to_dataset|coords|rows': 'e6628a3b5fae7f40',
 'to_dataset|coords|tuple-keys': 'e6628a3b5fae7f40',
 'to_dataset|coords|xy': '78580c5cafb45fed',
 'to_dataset|coords|zero': '971ecc3cda59d613',
 'to_dataset|default-chunks': '4561fc9e30db311c',
 'to_dataset|empty|auto': '3fce8e64e14e7a86',
 'to_dataset|empty|empty': '2f21e793665fcc94',
 'to_dataset|empty|false': '38363a83d60a561b',
 'to_dataset|empty|int': 'cefa652f7feca850',
 'to_dataset|empty|list': 'a3c3ddc16ff1ada1',
 'to_dataset|empty|minus-one': '2f21e793665fcc94',
 'to_dataset|empty|none': 'ad75d4c6be141316',
 'to_dataset|empty|rows': '2f21e793665fcc94',
 'to_dataset|empty|tuple-keys': '2f21e793665fcc94',
 'to_dataset|empty|xy': '2f21e793665fcc94',
 'to_dataset|empty|zero': 'cefa652f7feca850',
 'to_dataset|keyword-group': '4561fc9e30db311c',
 'to_dataset|lazy-rpc-all|auto': '98f15c99d68e1175',
 'to_dataset|lazy-rpc-all|empty': '2944e95cbfb2761c',
 'to_dataset|lazy-rpc-all|false': '4dfdfd3324372bb3',
 'to_dataset|lazy-rpc-all|int': '952aff6346dee388',
 'to_dataset|lazy-rpc-all|list': '8d33f48906273869',
 'to_dataset|lazy-rpc-all|minus-one': '3b40cd9f5329cffe',
 'to_dataset|lazy-rpc-all|none': '801a67dd97332c11',
 'to_dataset|lazy-rpc-all|rows': '50272e53f08aac2e',
 'to_dataset|lazy-rpc-all|tuple-keys': '2944e95cbfb2761c',
 'to_dataset|lazy-rpc-all|xy': '2944e95cbfb2761c',
 'to_dataset|lazy-rpc-all|zero': '952aff6346dee388',
 'to_dataset|lazy-rpc-none|auto': '98f15c99d68e1175',
 'to_dataset|lazy-rpc-none|empty': 'bd2fe20c5d4d5909',
 'to_dataset|lazy-rpc-none|false': '4dfdfd3324372bb3',
 'to_dataset|lazy-rpc-none|int': '952aff6346dee388',
 'to_dataset|lazy-rpc-none|list': '8d33f48906273869',
 'to_dataset|lazy-rpc-none|minus-one': 'c07eae4701c744e4',
 'to_dataset|lazy-rpc-none|none': '8d142b5f1bb266b1',
 'to_dataset|lazy-rpc-none|rows': '74710df11c6c794f',
 'to_dataset|lazy-rpc-none|tuple-keys': 'bd2fe20c5d4d5909',
 'to_dataset|lazy-rpc-none|xy': 'bd2fe20c5d4d5909',
 'to_dataset|lazy-rpc-none|zero': '952aff6346dee388',
 'to_dataset|lazy-rpc1|auto': '98f15c99d68e1175',
 'to_dataset|lazy-rpc1|empty': '7d7dc706e0026fdf',
 'to_dataset|lazy-rpc1|false': '4dfdfd3324372bb3',
 'to_dataset|lazy-rpc1|int': '952aff6346dee388',
 'to_dataset|lazy-rpc1|list': '8d33f48906273869',
 'to_dataset|lazy-rpc1|minus-one': 'da0eba15b03d2252',
 'to_dataset|lazy-rpc1|none': '6b29da19366cf171',
 'to_dataset|lazy-rpc1|rows': '30e6ce01e9468fc4',
 'to_dataset|lazy-rpc1|tuple-keys': '7d7dc706e0026fdf',
 'to_dataset|lazy-rpc1|xy': '7d7dc706e0026fdf',
 'to_dataset|lazy-rpc1|zero': '952aff6346dee388',
 'to_dataset|lazy|auto': '98f15c99d68e1175',
 'to_dataset|lazy|empty': '57757021c9235c36',
 'to_dataset|lazy|false': '4dfdfd3324372bb3',
 'to_dataset|lazy|int': '952aff6346dee388',
 'to_dataset|lazy|list': '8d33f48906273869',
 'to_dataset|lazy|minus-one': 'f9eae1ae58d0c7df',
 'to_dataset|lazy|none': 'd896bc1168e0afcb',
 'to_dataset|lazy|rows': 'bb9d46ef1e318850',
 'to_dataset|lazy|tuple-keys': '57757021c9235c36',
 'to_dataset|lazy|xy': '57757021c9235c36',
 'to_dataset|lazy|zero': '952aff6346dee388',
 'to_dataset|misaligned-child|auto': '4944c74fecd44eac',
 'to_dataset|misaligned-child|empty': '850f75db26b3cd22',
 'to_dataset|misaligned-child|false': 'cf0f81a3c5562501',
 'to_dataset|misaligned-child|int': '64fd34ca05ecb343',
 'to_dataset|misaligned-child|list': '13aefff4bd14ae04',
 'to_dataset|misaligned-child|minus-one': 'c763f6e999ad08b9',
 'to_dataset|misaligned-child|none': '2c4f5ac44bf94bdd',
 'to_dataset|misaligned-child|rows': '850f75db26b3cd22',
 'to_dataset|misaligned-child|tuple-keys': '850f75db26b3cd22',
 'to_dataset|misaligned-child|xy': '8af832fe4bfc15db',
 'to_dataset|misaligned-child|zero': '64fd34ca05ecb343',
 'to_dataset|named-root|auto': 'b9a03ff037b266fd',
 'to_dataset|named-root|empty': '9bc43c16f62039c1',
 'to_dataset|named-root|false': '791f04a10a6b0e88',
 'to_dataset|named-root|int': '66c6febbb19fb417',
 'to_dataset|named-root|list': '542be87a35fc3dad',
 'to_dataset|named-root|minus-one': 'c52c7432331b8bc0',
 'to_dataset|named-root|none': 'c9b07ed8a3a85772',
 'to_dataset|named-root|rows': '9bc43c16f62039c1',
 'to_dataset|named-root|tuple-keys': '9bc43c16f62039c1',
 'to_dataset|named-root|xy': 'f329a087186dfc20',
 'to_dataset|named-root|zero': '66c6febbb19fb417',
 'to_dataset|nested|auto': '2cf93bb50fd0dac4',
 'to_dataset|nested|empty': 'd9eeea51524475b7',
 'to_dataset|nested|false': '750442f875561b91',
 'to_dataset|nested|int': 'e7dbf8b738eeb3af',
 'to_dataset|nested|list': '59b1b704ad56f8b4',
 'to_dataset|nested|minus-one': '9c91c34e7afafb5f',
 'to_dataset|nested|none': 'b9abac75f5d5900f',
 'to_dataset|nested|rows': 'd9eeea51524475b7',
 'to_dataset|nested|tuple-keys': 'd9eeea51524475b7',
 'to_dataset|nested|xy': '115d3e98f0e33a96',
 'to_dataset|nested|zero': 'e7dbf8b738eeb3af',
 'to_dataset|none': '0f80dfb387985285',
 'to_dataset|not-a-group': '1d4387eb97a78510',
 'to_dataset|positional-chunks': 'd84dbc712a90803c',
 'to_dataset|relative-root|auto': 'f3b711a2e35a74a7',
 'to_dataset|relative-root|empty': 'aa16f5ec4092cf2b',
 'to_dataset|relative-root|false': 'f77b0fbee8440c81',
 'to_dataset|relative-root|int': '3f91a3d47f8d7444',
 'to_dataset|relative-root|list': '8c10f5f58ef2842d',
 'to_dataset|relative-root|minus-one': 'aa16f5ec4092cf2b',
 'to_dataset|relative-root|none': '22c9bd4e31e59d42',
 'to_dataset|relative-root|rows': 'aa16f5ec4092cf2b',
 'to_dataset|relative-root|tuple-keys': 'aa16f5ec4092cf2b',
 'to_dataset|relative-root|xy': 'aa16f5ec4092cf2b',
 'to_dataset|relative-root|zero': '3f91a3d47f8d7444',
 'to_dataset|subgroup-only|auto': '3fce8e64e14e7a86',
 'to_dataset|subgroup-only|empty': '2f21e793665fcc94',
 'to_dataset|subgroup-only|false': '38363a83d60a561b',
 'to_dataset|subgroup-only|int': 'cefa652f7feca850',
 'to_dataset|subgroup-only|list': 'a3c3ddc16ff1ada1',
 'to_dataset|subgroup-only|minus-one': '2f21e793665fcc94',
 'to_dataset|subgroup-only|none': 'ad75d4c6be141316',
 'to_dataset|subgroup-only|rows': '2f21e793665fcc94',
 'to_dataset|subgroup-only|tuple-keys': '2f21e793665fcc94',
 'to_dataset|subgroup-only|xy': '2f21e793665fcc94',
 'to_dataset|subgroup-only|zero': 'cefa652f7feca850',
 'to_dataset|unknown-keyword': '3b95b56d921c4c94',
 'to_dataset|variables|auto': '2b47fe271bc7acad',
 'to_dataset|variables|empty': '23640412d904d421',
 'to_dataset|variables|false': '32c60203d2665b4c',
 'to_dataset|variables|int': '971ecc3cda59d613',
 'to_dataset|variables|list': 'b9b84163aa99124f',
 'to_dataset|variables|minus-one': 'de3afe28768e5e92',
 'to_dataset|variables|none': '61a00f9ec25b1906',
 'to_dataset|variables|rows': '23640412d904d421',
 'to_dataset|variables|tuple-keys': '23640412d904d421',
 'to_dataset|variables|xy': '467207ff7cdf08e4',
 'to_dataset|variables|zero': '971ecc3cda59d613',
 'to_datatree|attrs-only|auto': '3fce8e64e14e7a86',
 'to_datatree|attrs-only|empty': 'e8d07ce357f6559e',
 'to_datatree|attrs-only|false': '38363a83d60a561b',
 'to_datatree|attrs-only|int': 'cefa652f7feca850',
 'to_datatree|attrs-only|list': 'a3c3ddc16ff1ada1',
 'to_datatree|attrs-only|minus-one': 'e8d07ce357f6559e',
 'to_datatree|attrs-only|none': 'c0f6adbc2af8740b',
 'to_datatree|attrs-only|rows': 'e8d07ce357f6559e',
 'to_datatree|attrs-only|tuple-keys': 'e8d07ce357f6559e',
 'to_datatree|attrs-only|xy': 'e8d07ce357f6559e',
 'to_datatree|attrs-only|zero': 'cefa652f7feca850',
 'to_datatree|bad-child|auto': '65527ccbf63f1043',
 'to_datatree|bad-child|empty': '96d4f88b0be29074',
 'to_datatree|bad-child|false': '7f00b1a5734a29f8',
 'to_datatree|bad-child|int': 'f3ee86a7213c1acf',
 'to_datatree|bad-child|list': 'ce058d050ff6c030',
 'to_datatree|bad-child|minus-one': '145e91eeea4c158d',
 'to_datatree|bad-child|none': '743973d91fd49f25',
 'to_datatree|bad-child|rows': '96d4f88b0be29074',
 'to_datatree|bad-child|tuple-keys': '96d4f88b0be29074',
 'to_datatree|bad-child|xy': '9b0b91f50d7be88b',
 'to_datatree|bad-child|zero': 'f3ee86a7213c1acf',
 'to_datatree|bad-root|auto': '883f8b7e314c6b8a',
 'to_datatree|bad-root|empty': '883f8b7e314c6b8a',
 'to_datatree|bad-root|false': '883f8b7e314c6b8a',
 'to_datatree|bad-root|int': '883f8b7e314c6b8a',
 'to_datatree|bad-root|list': '883f8b7e314c6b8a',
 'to_datatree|bad-root|minus-one': '883f8b7e314c6b8a',
 'to_datatree|bad-root|none': '883f8b7e314c6b8a',
 'to_datatree|bad-root|rows': '883f8b7e314c6b8a',
 'to_datatree|bad-root|tuple-keys': '883f8b7e314c6b8a',
 'to_datatree|bad-root|xy': '883f8b7e314c6b8a',
 'to_datatree|bad-root|zero': '883f8b7e314c6b8a',
 'to_datatree|conflicting-sizes|auto': 'e26688df5d9c83cb',
 'to_datatree|conflicting-sizes|empty': 'e26688df5d9c83cb',
 'to_datatree|conflicting-sizes|false': 'e26688df5d9c83cb',
 'to_datatree|conflicting-sizes|int': 'e26688df5d9c83cb',
 'to_datatree|conflicting-sizes|list': 'e26688df5d9c83cb',
 'to_datatree|conflicting-sizes|minus-one': 'e26688df5d9c83cb',
 'to_datatree|conflicting-sizes|none': 'e26688df5d9c83cb',
 'to_datatree|conflicting-sizes|rows': 'e26688df5d9c83cb',
 'to_datatree|conflicting-sizes|tuple-keys': 'e26688df5d9c83cb',
 'to_datatree|conflicting-sizes|xy': 'e26688df5d9c83cb',
 'to_datatree|conflicting-sizes|zero': 'e26688df5d9c83cb',
 'to_datatree|coords-all|auto': '2b47fe271bc7acad',
 'to_datatree|coords-all|empty': 'c6e3cb0134c47579',
 'to_datatree|coords-all|false': '32c60203d2665b4c',
 'to_datatree|coords-all|int': '971ecc3cda59d613',
 'to_datatree|coords-all|list': 'b9b84163aa99124f',
 'to_datatree|coords-all|minus-one': '42d2d80779e0bee7',
 'to_datatree|coords-all|none': '7bfa48887f3d6e43',
 'to_datatree|coords-all|rows': 'c6e3cb0134c47579',
 'to_datatree|coords-all|tuple-keys': 'c6e3cb0134c47579',
 'to_datatree|coords-all|xy': '5192bef374ca1394',
 'to_datatree|coords-all|zero': '971ecc3cda59d613',
 'to_datatree|coords-empty|auto': '2b47fe271bc7acad',
 'to_datatree|coords-empty|empty': '0a71a660d9957b1a',
 'to_datatree|coords-empty|false': '32c60203d2665b4c',
 'to_datatree|coords-empty|int': '971ecc3cda59d613',
 'to_datatree|coords-empty|list': 'b9b84163aa99124f',
 'to_datatree|coords-empty|minus-one': 'e363b8390f808cc0',
 'to_datatree|coords-empty|none': '1e39a0b5d9b6c02e',
 'to_datatree|coords-empty|rows': '0a71a660d9957b1a',
 'to_datatree|coords-empty|tuple-keys': '0a71a660d9957b1a',
 'to_datatree|coords-empty|xy': '8455f7044033d958',
 'to_datatree|coords-empty|zero': '971ecc3cda59d613',
 'to_datatree|coords-missing|auto': 'dcfdf4f0aec876c1',
 'to_datatree|coords-missing|empty': 'dcfdf4f0aec876c1',
 'to_datatree|coords-missing|false': 'dcfdf4f0aec876c1',
 'to_datatree|coords-missing|int': 'dcfdf4f0aec876c1',
 'to_datatree|coords-missing|list': 'dcfdf4f0aec876c1',
 'to_datatree|coords-missing|minus-one': 'dcfdf4f0aec876c1',
 'to_datatree|coords-missing|none': 'dcfdf4f0aec876c1',
 'to_datatree|coords-missing|rows': 'dcfdf4f0aec876c1',
 'to_datatree|coords-missing|tuple-keys': 'dcfdf4f0aec876c1',
 'to_datatree|coords-missing|xy': 'dcfdf4f0aec876c1',
 'to_datatree|coords-missing|zero': 'dcfdf4f0aec876c1',
 'to_datatree|coords-string|auto': '2b47fe271bc7acad',
 'to_datatree|coords-string|empty': '0a71a660d9957b1a',
 'to_datatree|coords-string|false': '32c60203d2665b4c',
 'to_datatree|coords-string|int': '971ecc3cda59d613',
 'to_datatree|coords-string|list': 'b9b84163aa99124f',
 'to_datatree|coords-string|minus-one': 'e363b8390f808cc0',
 'to_datatree|coords-string|none': '1e39a0b5d9b6c02e',
 'to_datatree|coords-string|rows': '0a71a660d9957b1a',
 'to_datatree|coords-string|tuple-keys': '0a71a660d9957b1a',
 'to_datatree|coords-string|xy': '8455f7044033d958',
 'to_datatree|coords-string|zero': '971ecc3cda59d613',
 'to_datatree|coords|auto': '2b47fe271bc7acad',
 'to_datatree|coords|empty': '104f2f223d89565e',
 'to_datatree|coords|false': '32c60203d2665b4c',
 'to_datatree|coords|int': '971ecc3cda59d613',
 'to_datatree|coords|list': 'b9b84163aa99124f',
 'to_datatree|coords|minus-one': 'eb6f6ed52bbb774c',
 'to_datatree|coords|none': '1f1cfb28c534b78e',
 'to_datatree|coords|rows': '104f2f223d89565e',
 'to_datatree|coords|tuple-keys': '104f2f223d89565e',
 'to_datatree|coords|xy': 'ebbc8e460363b199',
 'to_datatree|coords|zero': '971ecc3cda59d613',
 'to_datatree|default-chunks': '6dedcf3e22a2042b',
 'to_datatree|empty|auto': '3fce8e64e14e7a86',
 'to_datatree|empty|empty': 'e0eee541f3ae556c',
 'to_datatree|empty|false': '38363a83d60a561b',
 'to_datatree|empty|int': 'cefa652f7feca850',
 'to_datatree|empty|list': 'a3c3ddc16ff1ada1',
 'to_datatree|empty|minus-one': 'e0eee541f3ae556c',
 'to_datatree|empty|none': 'f06120f4744d38e7',
 'to_datatree|empty|rows': 'e0eee541f3ae556c',
 'to_datatree|empty|tuple-keys': 'e0eee541f3ae556c',
 'to_datatree|empty|xy': 'e0eee541f3ae556c',
 'to_datatree|empty|zero': 'cefa652f7feca850',
 'to_datatree|keyword-group': '6dedcf3e22a2042b',
 'to_datatree|lazy-rpc-all|auto': '98f15c99d68e1175',
 'to_datatree|lazy-rpc-all|empty': 'd9abab9b29a8fdf5',
 'to_datatree|lazy-rpc-all|false': '4dfdfd3324372bb3',
 'to_datatree|lazy-rpc-all|int': '952aff6346dee388',
 'to_datatree|lazy-rpc-all|list': '8d33f48906273869',
 'to_datatree|lazy-rpc-all|minus-one': '6ad134b3cc6c4c52',
 'to_datatree|lazy-rpc-all|none': '6fd62c11231fcdff',
 'to_datatree|lazy-rpc-all|rows': 'aa2b124291169131',
 'to_datatree|lazy-rpc-all|tuple-keys': 'd9abab9b29a8fdf5',
 'to_datatree|lazy-rpc-all|xy': 'd9abab9b29a8fdf5',
 'to_datatree|lazy-rpc-all|zero': '952aff6346dee388',
 'to_datatree|lazy-rpc-none|auto': '98f15c99d68e1175',
 'to_datatree|lazy-rpc-none|empty': '8a6b2f7609f147f3',
 'to_datatree|lazy-rpc-none|false': '4dfdfd3324372bb3',
 'to_datatree|lazy-rpc-none|int': '952aff6346dee388',
 'to_datatree|lazy-rpc-none|list': '8d33f48906273869',
 'to_datatree|lazy-rpc-none|minus-one': '65b68b448b682aac',
 'to_datatree|lazy-rpc-none|none': 'b11c83b58e1566f7',
 'to_datatree|lazy-rpc-none|rows': 'd42a9da9fa5b24c8',
 'to_datatree|lazy-rpc-none|tuple-keys': '8a6b2f7609f147f3',
 'to_datatree|lazy-rpc-none|xy': '8a6b2f7609f147f3',
 'to_datatree|lazy-rpc-none|zero': '952aff6346dee388',
 'to_datatree|lazy-rpc1|auto': '98f15c99d68e1175',
 'to_datatree|lazy-rpc1|empty': 'a8cc84b284848f58',
 'to_datatree|lazy-rpc1|false': '4dfdfd3324372bb3',
 'to_datatree|lazy-rpc1|int': '952aff6346dee388',
 'to_datatree|lazy-rpc1|list': '8d33f48906273869',
 'to_datatree|lazy-rpc1|minus-one': 'b3b631802b9094d6',
 'to_datatree|lazy-rpc1|none': '13f9427a1264f554',
 'to_datatree|lazy-rpc1|rows': '8a1328918b38e758',
 'to_datatree|lazy-rpc1|tuple-keys': 'a8cc84b284848f58',
 'to_datatree|lazy-rpc1|xy': 'a8cc84b284848f58',
 'to_datatree|lazy-rpc1|zero': '952aff6346dee388',
 'to_datatree|lazy|auto': '98f15c99d68e1175',
 'to_datatree|lazy|empty': '9dee49a33417329b',
 'to_datatree|lazy|false': '4dfdfd3324372bb3',
 'to_datatree|lazy|int': '952aff6346dee388',
 'to_datatree|lazy|list': '8d33f48906273869',
 'to_datatree|lazy|minus-one': '38e78fab10055f0f',
 'to_datatree|lazy|none': '8f4dc1ec662f4435',
 'to_datatree|lazy|rows': 'e1bcd6c806b15374',
 'to_datatree|lazy|tuple-keys': '9dee49a33417329b',
 'to_datatree|lazy|xy': '9dee49a33417329b',
 'to_datatree|lazy|zero': '952aff6346dee388',
 'to_datatree|misaligned-child|auto': '4944c74fecd44eac',
 'to_datatree|misaligned-child|empty': '690200bf4c5246c5',
 'to_datatree|misaligned-child|false': 'cf0f81a3c5562501',
 'to_datatree|misaligned-child|int': '64fd34ca05ecb343',
 'to_datatree|misaligned-child|list': '13aefff4bd14ae04',
 'to_datatree|misaligned-child|minus-one': '8b1625e6d5bcb216',
 'to_datatree|misaligned-child|none': 'b154f00020378e61',
 'to_datatree|misaligned-child|rows': '690200bf4c5246c5',
 'to_datatree|misaligned-child|tuple-keys': '690200bf4c5246c5',
 'to_datatree|misaligned-child|xy': '858e4b6eeb7e892f',
 'to_datatree|misaligned-child|zero': '64fd34ca05ecb343',
 'to_datatree|named-root|auto': 'b9a03ff037b266fd',
 'to_datatree|named-root|empty': 'fd0999901cc6ab12',
 'to_datatree|named-root|false': '791f04a10a6b0e88',
 'to_datatree|named-root|int': '66c6febbb19fb417',
 'to_datatree|named-root|list': '542be87a35fc3dad',
 'to_datatree|named-root|minus-one': '9315c1a5a3c632f9',
 'to_datatree|named-root|none': 'd0ec56dcdb673f2c',
 'to_datatree|named-root|rows': '1b641b15870f7a79',
 'to_datatree|named-root|tuple-keys': 'fd0999901cc6ab12',
 'to_datatree|named-root|xy': 'ee223c70466d3ef1',
 'to_datatree|named-root|zero': '66c6febbb19fb417',
 'to_datatree|nested|auto': '2cf93bb50fd0dac4',
 'to_datatree|nested|empty': 'd5e53ff33453bf29',
 'to_datatree|nested|false': '750442f875561b91',
 'to_datatree|nested|int': 'e7dbf8b738eeb3af',
 'to_datatree|nested|list': '59b1b704ad56f8b4',
 'to_datatree|nested|minus-one': '0e09d8b3e07cfebd',
 'to_datatree|nested|none': '546eecad34aa2f99',
 'to_datatree|nested|rows': 'd8dcef9eb85937ed',
 'to_datatree|nested|tuple-keys': 'd5e53ff33453bf29',
 'to_datatree|nested|xy': '44cf5d46294c8b49',
 'to_datatree|nested|zero': 'e7dbf8b738eeb3af',
 'to_datatree|not-a-group': '1d4387eb97a78510',
 'to_datatree|positional-chunks': '39b75a7b20908eb4',
 'to_datatree|relative-root|auto': 'f3b711a2e35a74a7',
 'to_datatree|relative-root|empty': '1db35bbd51bae5b9',
 'to_datatree|relative-root|false': 'f77b0fbee8440c81',
 'to_datatree|relative-root|int': '3f91a3d47f8d7444',
 'to_datatree|relative-root|list': '8c10f5f58ef2842d',
 'to_datatree|relative-root|minus-one': '60ee3a73f620493f',
 'to_datatree|relative-root|none': '24eae72532e7e12b',
 'to_datatree|relative-root|rows': '1db35bbd51bae5b9',
 'to_datatree|relative-root|tuple-keys': '1db35bbd51bae5b9',
 'to_datatree|relative-root|xy': 'b9bfe6611fb067dc',
 'to_datatree|relative-root|zero': '3f91a3d47f8d7444',
 'to_datatree|subgroup': '9a042cd96581851e',
 'to_datatree|subgroup-only|auto': '3fce8e64e14e7a86',
 'to_datatree|subgroup-only|empty': '760d74106f1a77c5',
 'to_datatree|subgroup-only|false': '38363a83d60a561b',
 'to_datatree|subgroup-only|int': 'cefa652f7feca850',
 'to_datatree|subgroup-only|list': 'a3c3ddc16ff1ada1',
 'to_datatree|subgroup-only|minus-one': '760d74106f1a77c5',
 'to_datatree|subgroup-only|none': '22aadcac040eaa16',
 'to_datatree|subgroup-only|rows': '760d74106f1a77c5',
 'to_datatree|subgroup-only|tuple-keys': '760d74106f1a77c5',
 'to_datatree|subgroup-only|xy': '760d74106f1a77c5',
 'to_datatree|subgroup-only|zero': 'cefa652f7feca850',
 'to_datatree|unknown-keyword': '53f685d0d885ad21',
 'to_datatree|variable': 'f910a1fbe5e25d8f',
 'to_datatree|variables|auto': '2b47fe271bc7acad',
 'to_datatree|variables|empty': '0a71a660d9957b1a',
 'to_datatree|variables|false': '32c60203d2665b4c',
 'to_datatree|variables|int': '971ecc3cda59d613',
 'to_datatree|variables|list': 'b9b84163aa99124f',
 'to_datatree|variables|minus-one': 'e363b8390f808cc0',
 'to_datatree|variables|none': '1e39a0b5d9b6c02e',
 'to_datatree|variables|rows': '0a71a660d9957b1a',
 'to_datatree|variables|tuple-keys': '0a71a660d9957b1a',
 'to_datatree|variables|xy': '8455f7044033d958',
 'to_datatree|variables|zero': '971ecc3cda59d613'}


def digest(value):
    return hashlib.sha1(repr(value).encode()).hexdigest()[:16]


def main():
    observed = collect()
    if "--dump" in sys.argv:
        pprint.pprint(observed, width=150, compact=True, sort_dicts=False)
        return 0
    digests = {key: digest(value) for key, value in observed.items()}
    if "--record" in sys.argv:
        pprint.pprint(digests, width=150, compact=True)
        return 0

    failures = []
    for key in sorted(set(digests) | set(EXPECTED)):
        if digests.get(key) != EXPECTED.get(key):
            failures.append(key)
            print(f"MISMATCH {key}:\n  expected {EXPECTED.get(key)!r}\n  observed {observed.get(key)!r}")

    print(f"{len(observed)} cases, {len(failures)} mismatches")
    return 1 if failures else 0


if __name__ == "__main__":
    sys.exit(main())
