"""Equivalence check for refactoring 4 (``ceos_alos2.testing``).

Touched: ``dict_overlap``, ``diff_tree``, ``assert_identical``.
Run as ``PYTHONPATH=<worktree> python _eq/4/equiv.py`` (or through pytest).
``EXPECTED`` was recorded from the unchanged code with ``--record``.
"""

import collections
import copy
import itertools
import pprint
import sys
import types
from unittest import mock

import fsspec
import numpy as np

from ceos_alos2 import testing
from ceos_alos2.array import Array
from ceos_alos2.hierarchy import Group, Variable


def outcome(func, *args, **kwargs):
    try:
        result = func(*args, **kwargs)
    except BaseException as e:  # noqa: B036
        return ("raise", type(e).__name__, str(e), type(e.__cause__).__name__)
    return ("ok", type(result).__name__, repr(result))


def dummy_array(
    *, protocol="memory", byte_ranges=None, path="/path/to", url="file", shape=(4, 3),
    dtype="int16", records_per_chunk=2, type_code="IU2",
):
    if byte_ranges is None:
        byte_ranges = [(x * 10 + 5, (x + 1) * 10) for x in range(shape[0])]

    fs = fsspec.filesystem(protocol)
    dirfs = fsspec.filesystem("dir", path=path, fs=fs)

    return Array(
        fs=dirfs, url=url, byte_ranges=byte_ranges, shape=shape, dtype=dtype, type_code=type_code,
        records_per_chunk=records_per_chunk,
    )


# --- dict_overlap ------------------------------------------------------------
DICTS = [
    {},
    {"a": 1},
    {"b": 1},
    {"a": 2, "b": 1},
    {"b": 1, "a": 2},
    {"c": None, "a": 0, "d": []},
    {"d": 1, "c": 2, "b": 3, "a": 4, "e": 5},
    {1: "x", "1": "y", 1.5: "z", None: 0, (1, 2): 3},
    {True: 1, 0: 2},
    {1: "int", 0.0: "float"},
    {"missing_left": 1, "common": 2, "missing_right": 3},
    {float("inf"): 1, frozenset(): 2, "": 3},
    collections.OrderedDict([("z", 1), ("a", 2)]),
    collections.defaultdict(list, {"a": [], "q": []}),
    collections.Counter("abca"),
]
NON_DICTS = [
    None, [("a", 1)], "ab", 5, {"a"}, frozenset({"a"}), types.MappingProxyType({"a": 1, "p": 2}),
    collections.ChainMap({"a": 1}, {"c": 2}), Group(path=None, url=None, data={}, attrs={}),
]


def observe_dict_overlap():
    results = []
    for a, b in itertools.product(DICTS, repeat=2):
        a_before, b_before = copy.deepcopy(a), copy.deepcopy(b)
        result = testing.dict_overlap(a, b)
        assert type(result) is tuple and len(result) == 3
        assert all(type(part) is list for part in result)
        assert len({id(part) for part in result}) == 3
        assert a == a_before and b == b_before and list(a) == list(a_before)
        results.append((repr(a), repr(b), outcome(testing.dict_overlap, a, b)))
    for a, b in itertools.chain(
        itertools.product(NON_DICTS, DICTS[:4]),
        itertools.product(DICTS[:4], NON_DICTS),
        itertools.product(NON_DICTS, repeat=2),
    ):
        results.append((repr(a), repr(b), outcome(testing.dict_overlap, a, b)))
    # defaultdict must not grow
    d = collections.defaultdict(list, {"a": []})
    testing.dict_overlap(d, {"b": 1})
    testing.dict_overlap({"b": 1}, d)
    results.append(("defaultdict", repr(d)))
    # the results are independent lists
    first = testing.dict_overlap({}, {})
    first[0].append("x")
    results.append(("fresh", repr(testing.dict_overlap({}, {}))))

    # users of dict_overlap
    for a, b in itertools.product(DICTS[:8], repeat=2):
        for name in ("Attributes", "variables", "x y"):
            results.append(("diff_mapping", repr(a), repr(b), name, outcome(testing.diff_mapping, a, b, name)))
    return results


# --- trees ---------------------------------------------------------------------
def var(value=1, dims="x", attrs=None, dtype="int8"):
    return Variable(dims, np.array([value], dtype=dtype), attrs or {})


def group(data=None, attrs=None, url=None, path=None):
    return Group(path=path, url=url, data=data or {}, attrs=attrs or {})


class SubGroup(Group):
    pass


class SubVariable(Variable):
    pass


class SubArray(Array):
    pass


# the same reprs no matter whether this file runs as a script or is imported by pytest
for _cls in (SubGroup, SubVariable, SubArray):
    _cls.__module__ = "equiv"


def trees():
    return {
        "empty": group(),
        "empty-url": group(url="memory://a"),
        "empty-url-b": group(url="memory://b"),
        "empty-path": group(path="/root"),
        "empty-attrs": group(attrs={"a": 1}),
        "empty-attrs-b": group(attrs={"a": 2, "b": 3}),
        "vars": group({"v": var(1), "w": var(2)}),
        "vars-b": group({"v": var(1), "w": var(3)}),
        "vars-c": group({"w": var(2), "v": var(1)}),
        "vars-d": group({"v": var(1, dims="y"), "u": var(2, attrs={"units": "m"})}),
        "one-a": group({"a": group()}),
        "one-b": group({"b": group()}),
        "one-ab": group({"a": group(), "b": group()}),
        "one-ba": group({"b": group(), "a": group()}),
        "one-a-attrs": group({"a": group(attrs={"a": 1})}),
        "one-a-attrs-b": group({"a": group(attrs={"a": 2})}),
        "one-a-url": group({"a": group(url="memory://x")}, url="memory://y"),
        "two": group({"a": group({"b": group({"c": group()}), "v": var(5)}), "d": group()}),
        "two-b": group({"a": group({"b": group({"e": group()}), "v": var(6)}), "f": group()}),
        "two-c": group(
            {"a": group({"b": group({"c": group(attrs={"n": 1})}, attrs={"m": 2}), "v": var(5)}),
             "d": group({"x": var(0)})},
            attrs={"top": True},
        ),
        "mixed": group({"v": var(1), "g": group({"v": var(2)}), "h": group({"g": group()})}),
        "mixed-b": group({"v": var(1), "h": group({"g": group(), "k": group()}), "g": group({"v": var(2.5, dtype="float32")})}),
        "arrays": group({"data": Variable(["rows", "columns"], dummy_array(), {})}),
        "arrays-b": group({"data": Variable(["rows", "columns"], dummy_array(url="other"), {})}),
        "sub": SubGroup(path=None, url=None, data={"a": group()}, attrs={}),
        "sub-b": SubGroup(path=None, url=None, data={"a": SubGroup(path=None, url=None, data={}, attrs={"q": 1})}, attrs={}),
        "nested-path": group({"a": group()}, path="/prefix"),
    }


def observe_diff_tree():
    results = []
    names = list(trees())
    for left, right in itertools.product(names, repeat=2):
        a, b = trees()[left], trees()[right]
        a_before, b_before = copy.deepcopy(a), copy.deepcopy(b)
        results.append((left, right, outcome(testing.diff_tree, a, b)))
        assert a == a_before and b == b_before

    # order and number of decouple calls
    original = Group.decouple
    for left, right in [("two", "two-b"), ("mixed", "mixed-b"), ("one-ab", "one-ba"), ("empty", "two-c")]:
        log = []

        def decouple(self, log=log):
            log.append((type(self).__name__, self.path, sorted(self.data)))
            return original(self)

        a, b = trees()[left], trees()[right]
        with mock.patch.object(Group, "decouple", decouple):
            result = outcome(testing.diff_tree, a, b)
        results.append(("decouple-order", left, right, result, log))

    # decouple failing half-way
    for fail_at in (1, 3, 6, 9, 12):
        log = []

        def decouple(self, log=log, fail_at=fail_at):
            log.append(self.path)
            if len(log) == fail_at:
                raise RuntimeError(f"decouple failed for {self.path}")
            return original(self)

        a, b = trees()["two"], trees()["two-b"]
        with mock.patch.object(Group, "decouple", decouple):
            result = outcome(testing.diff_tree, a, b)
        results.append(("decouple-fails", fail_at, result, log))

    # diff_group being called only for differing groups, in order
    log = []
    original_diff_group = testing.diff_group

    def diff_group(a, b):
        log.append((a.path, b.path))
        return original_diff_group(a, b)

    with mock.patch.object(testing, "diff_group", diff_group):
        result = outcome(testing.diff_tree, trees()["two-c"], trees()["two"])
    results.append(("diff_group-calls", result, log))

    # non-groups
    for a, b in [(None, None), (group(), None), (None, group()), (var(), var()), ({}, {}), (1, 2),
                 (group(), var()), (dummy_array(), dummy_array())]:
        results.append(("non-group", repr(a), repr(b), outcome(testing.diff_tree, a, b)))
    return results


def observe_assert_identical():
    results = []
    objects = {
        **{
            f"tree:{name}": tree
            for name, tree in trees().items()
            if name in ("empty", "empty-url", "vars", "vars-b", "one-a", "two", "two-b", "two-c", "arrays",
                        "arrays-b", "sub", "sub-b")
        },
        "var": var(1),
        "var-b": var(2),
        "var-dims": var(1, dims="y"),
        "var-attrs": var(1, attrs={"a": 1}),
        "var-dtype": var(1, dtype="int16"),
        "var-array": Variable(["rows", "columns"], dummy_array(), {}),
        "var-array-b": Variable(["rows", "columns"], dummy_array(shape=(4, 2)), {"a": 1}),
        "subvar": SubVariable("x", np.array([1], dtype="int8"), {}),
        "subvar-b": SubVariable("x", np.array([2], dtype="int8"), {}),
        "array": dummy_array(),
        "array-dtype": dummy_array(dtype="int8"),
        "array-url": dummy_array(url="file2"),
        "array-path": dummy_array(path="/other"),
        "array-file": dummy_array(protocol="file"),
        "array-ranges": dummy_array(byte_ranges=[(0, 1), (2, 3), (3, 4)]),
        "array-rpc": dummy_array(records_per_chunk=3),
        "array-type-code": dummy_array(type_code="C*8"),
        "subarray": SubArray(**{k: getattr(dummy_array(), k) for k in
                                ("fs", "url", "byte_ranges", "shape", "dtype", "type_code", "records_per_chunk")}),
        "int": 1,
        "int-b": 2,
        "float": 1.0,
        "str": "a",
        "none": None,
        "dict": {"a": 1},
        "list": [1],
        "ndarray": np.array([1, 2]),
        "ndarray-b": np.array([1, 3]),
        "np-int": np.int8(1),
        "type": Group,
        "bool": True,
    }
    names = list(objects)
    for left, right in itertools.product(names, repeat=2):
        results.append((left, right, outcome(testing.assert_identical, objects[left], objects[right])))

    # which diff function is consulted
    for left, right in [("tree:sub", "tree:sub-b"), ("subvar", "subvar-b"), ("subarray", "subarray"),
                        ("array", "array-url"), ("var", "var-b"), ("tree:empty", "tree:empty-url"),
                        ("tree:vars", "tree:vars"), ("int", "int-b")]:
        log = []

        def make(name, log=log):
            def recorder(a, b):
                log.append(name)
                return f"<{name}>"

            return recorder

        with (
            mock.patch.object(testing, "diff_tree", make("diff_tree")),
            mock.patch.object(testing, "diff_variable", make("diff_variable")),
            mock.patch.object(testing, "diff_array", make("diff_array")),
        ):
            result = outcome(testing.assert_identical, objects[left], objects[right])
        results.append(("dispatch", left, right, result, log))
    return results


def observe_module():
    names = ["textwrap", "zip_longest", "np", "merge_with", "valfilter", "valmap", "curry", "pipe", "cons",
             "groupby", "Array", "valsplit", "zip_default", "Group", "Variable", "newline", "dict_overlap",
             "format_item", "format_array", "format_variable", "format_inline", "diff_mapping_missing",
             "diff_mapping_not_equal", "diff_mapping", "diff_scalar", "compare_data", "diff_array",
             "diff_data", "format_sizes", "diff_variable", "diff_group", "diff_tree", "assert_identical"]
    import inspect

    return [(name, hasattr(testing, name)) for name in names] + [
        (name, str(inspect.signature(getattr(testing, name))))
        for name in ("dict_overlap", "diff_tree", "assert_identical")
    ]


def observe_all():
    return {
        "dict_overlap": observe_dict_overlap(),
        "diff_tree": observe_diff_tree(),
        "assert_identical": observe_assert_identical(),
        "module": observe_module(),
    }


# -- recorded from the unchanged code ------------------------------------
EXPECTED = {'assert_identical': [('tree:empty', 'tree:empty', ('ok', 'NoneType', 'None')),
                      ('tree:empty', 'tree:empty-url',
                       ('raise', 'AssertionError',
                        'Left and right Group objects are not equal\n'
                        '  Differing groups:\n'
                        '    Group /:\n'
                        '      Differing Url:\n'
                        '      L  None\n'
                        '      R  memory://a',
                        'NoneType')),
                      ('tree:empty', 'tree:vars',
                       ('raise', 'AssertionError',
                        'Left and right Group objects are not equal\n'
                        '  Differing groups:\n'
                        '    Group /:\n'
                        '      Variables:\n'
                        '        Missing left:\n'
                        '         - v\n'
                        '         - w',
                        'NoneType')),
                      ('tree:empty', 'tree:vars-b',
                       ('raise', 'AssertionError',
                        'Left and right Group objects are not equal\n'
                        '  Differing groups:\n'
                        '    Group /:\n'
                        '      Variables:\n'
                        '        Missing left:\n'
                        '         - v\n'
                        '         - w',
                        'NoneType')),
                      ('tree:empty', 'tree:one-a',
                       ('raise', 'AssertionError', 'Left and right Group objects are not equal\n  Differing tree structure:\n    Missing left:\n    - /a',
                        'NoneType')),
                      ('tree:empty', 'tree:two',
                       ('raise', 'AssertionError',
                        'Left and right Group objects are not equal\n'
                        '  Differing tree structure:\n'
                        '    Missing left:\n'
                        '    - /a\n'
                        '    - /a/b\n'
                        '    - /a/b/c\n'
                        '    - /d',
                        'NoneType')),
                      ('tree:empty', 'tree:two-b',
                       ('raise', 'AssertionError',
                        'Left and right Group objects are not equal\n'
                        '  Differing tree structure:\n'
                        '    Missing left:\n'
                        '    - /a\n'
                        '    - /a/b\n'
                        '    - /a/b/e\n'
                        '    - /f',
                        'NoneType')),
                      ('tree:empty', 'tree:two-c',
                       ('raise', 'AssertionError',
                        'Left and right Group objects are not equal\n'
                        '  Differing tree structure:\n'
                        '    Missing left:\n'
                        '    - /a\n'
                        '    - /a/b\n'
                        '    - /a/b/c\n'
                        '    - /d\n'
                        '  Differing groups:\n'
                        '    Group /:\n'
                        '      Attributes:\n'
                        '        Missing left:\n'
                        '         - top',
                        'NoneType')),
                      ('tree:empty', 'tree:arrays',
                       ('raise', 'AssertionError',
                        'Left and right Group objects are not equal\n'
                        '  Differing groups:\n'
                        '    Group /:\n'
                        '      Variables:\n'
                        '        Missing left:\n'
                        '         - data',
                        'NoneType')),
                      ('tree:empty', 'tree:arrays-b',
                       ('raise', 'AssertionError',
                        'Left and right Group objects are not equal\n'
                        '  Differing groups:\n'
                        '    Group /:\n'
                        '      Variables:\n'
                        '        Missing left:\n'
                        '         - data',
                        'NoneType')),
                      ('tree:empty', 'tree:sub',
                       ('raise', 'AssertionError', "types mismatch: <class 'ceos_alos2.hierarchy.Group'> != <class 'equiv.SubGroup'>", 'NoneType')),
                      ('tree:empty', 'tree:sub-b',
                       ('raise', 'AssertionError', "types mismatch: <class 'ceos_alos2.hierarchy.Group'> != <class 'equiv.SubGroup'>", 'NoneType')),
                      ('tree:empty', 'var',
                       ('raise', 'AssertionError', "types mismatch: <class 'ceos_alos2.hierarchy.Group'> != <class 'ceos_alos2.hierarchy.Variable'>",
                        'NoneType')),
                      ('tree:empty', 'var-b',
                       ('raise', 'AssertionError', "types mismatch: <class 'ceos_alos2.hierarchy.Group'> != <class 'ceos_alos2.hierarchy.Variable'>",
                        'NoneType')),
                      ('tree:empty', 'var-dims',
                       ('raise', 'AssertionError', "types mismatch: <class 'ceos_alos2.hierarchy.Group'> != <class 'ceos_alos2.hierarchy.Variable'>",
                        'NoneType')),
                      ('tree:empty', 'var-attrs',
                       ('raise', 'AssertionError', "types mismatch: <class 'ceos_alos2.hierarchy.Group'> != <class 'ceos_alos2.hierarchy.Variable'>",
                        'NoneType')),
                      ('tree:empty', 'var-dtype',
                       ('raise', 'AssertionError', "types mismatch: <class 'ceos_alos2.hierarchy.Group'> != <class 'ceos_alos2.hierarchy.Variable'>",
                        'NoneType')),
                      ('tree:empty', 'var-array',
                       ('raise', 'AssertionError', "types mismatch: <class 'ceos_alos2.hierarchy.Group'> != <class 'ceos_alos2.hierarchy.Variable'>",
                        'NoneType')),
                      ('tree:empty', 'var-array-b',
                       ('raise', 'AssertionError', "types mismatch: <class 'ceos_alos2.hierarchy.Group'> != <class 'ceos_alos2.hierarchy.Variable'>",
                        'NoneType')),
                      ('tree:empty', 'subvar',
                       ('raise', 'AssertionError', "types mismatch: <class 'ceos_alos2.hierarchy.Group'> != <class 'equiv.SubVariable'>", 'NoneType')),
                      ('tree:empty', 'subvar-b',
                       ('raise', 'AssertionError', "types mismatch: <class 'ceos_alos2.hierarchy.Group'> != <class 'equiv.SubVariable'>", 'NoneType')),
                      ('tree:empty', 'array',
                       ('raise', 'AssertionError', "types mismatch: <class 'ceos_alos2.hierarchy.Group'> != <class 'ceos_alos2.array.Array'>", 'NoneType')),
                      ('tree:empty', 'array-dtype',
                       ('raise', 'AssertionError', "types mismatch: <class 'ceos_alos2.hierarchy.Group'> != <class 'ceos_alos2.array.Array'>", 'NoneType')),
                      ('tree:empty', 'array-url',
                       ('raise', 'AssertionError', "types mismatch: <class 'ceos_alos2.hierarchy.Group'> != <class 'ceos_alos2.array.Array'>", 'NoneType')),
                      ('tree:empty', 'array-path',
                       ('raise', 'AssertionError', "types mismatch: <class 'ceos_alos2.hierarchy.Group'> != <class 'ceos_alos2.array.Array'>", 'NoneType')),
                      ('tree:empty', 'array-file',
                       ('raise', 'AssertionError', "types mismatch: <class 'ceos_alos2.hierarchy.Group'> != <class 'ceos_alos2.array.Array'>", 'NoneType')),
                      ('tree:empty', 'array-ranges',
                       ('raise', 'AssertionError', "types mismatch: <class 'ceos_alos2.hierarchy.Group'> != <class 'ceos_alos2.array.Array'>", 'NoneType')),
                      ('tree:empty', 'array-rpc',
                       ('raise', 'AssertionError', "types mismatch: <class 'ceos_alos2.hierarchy.Group'> != <class 'ceos_alos2.array.Array'>", 'NoneType')),
                      ('tree:empty', 'array-type-code',
                       ('raise', 'AssertionError', "types mismatch: <class 'ceos_alos2.hierarchy.Group'> != <class 'ceos_alos2.array.Array'>", 'NoneType')),
                      ('tree:empty', 'subarray',
                       ('raise', 'AssertionError', "types mismatch: <class 'ceos_alos2.hierarchy.Group'> != <class 'equiv.SubArray'>", 'NoneType')),
                      ('tree:empty', 'int', ('raise', 'AssertionError', "types mismatch: <class 'ceos_alos2.hierarchy.Group'> != <class 'int'>", 'NoneType')),
                      ('tree:empty', 'int-b', ('raise', 'AssertionError', "types mismatch: <class 'ceos_alos2.hierarchy.Group'> != <class 'int'>", 'NoneType')),
                      ('tree:empty', 'float',
                       ('raise', 'AssertionError', "types mismatch: <class 'ceos_alos2.hierarchy.Group'> != <class 'float'>", 'NoneType')),
                      ('tree:empty', 'str', ('raise', 'AssertionError', "types mismatch: <class 'ceos_alos2.hierarchy.Group'> != <class 'str'>", 'NoneType')),
                      ('tree:empty', 'none',
                       ('raise', 'AssertionError', "types mismatch: <class 'ceos_alos2.hierarchy.Group'> != <class 'NoneType'>", 'NoneType')),
                      ('tree:empty', 'dict', ('raise', 'AssertionError', "types mismatch: <class 'ceos_alos2.hierarchy.Group'> != <class 'dict'>", 'NoneType')),
                      ('tree:empty', 'list', ('raise', 'AssertionError', "types mismatch: <class 'ceos_alos2.hierarchy.Group'> != <class 'list'>", 'NoneType')),
                      ('tree:empty', 'ndarray',
                       ('raise', 'AssertionError', "types mismatch: <class 'ceos_alos2.hierarchy.Group'> != <class 'numpy.ndarray'>", 'NoneType')),
                      ('tree:empty', 'ndarray-b',
                       ('raise', 'AssertionError', "types mismatch: <class 'ceos_alos2.hierarchy.Group'> != <class 'numpy.ndarray'>", 'NoneType')),
                      ('tree:empty', 'np-int',
                       ('raise', 'AssertionError', "types mismatch: <class 'ceos_alos2.hierarchy.Group'> != <class 'numpy.int8'>", 'NoneType')),
                      ('tree:empty', 'type',
                       ('raise', 'AssertionError', "types mismatch: <class 'ceos_alos2.hierarchy.Group'> != <class 'abc.ABCMeta'>", 'NoneType')),
                      ('tree:empty', 'bool', ('raise', 'AssertionError', "types mismatch: <class 'ceos_alos2.hierarchy.Group'> != <class 'bool'>", 'NoneType')),
                      ('tree:empty-url', 'tree:empty',
                       ('raise', 'AssertionError',
                        'Left and right Group objects are not equal\n'
                        '  Differing groups:\n'
                        '    Group /:\n'
                        '      Differing Url:\n'
                        '      L  memory://a\n'
                        '      R  None',
                        'NoneType')),
                      ('tree:empty-url', 'tree:empty-url', ('ok', 'NoneType', 'None')),
                      ('tree:empty-url', 'tree:vars',
                       ('raise', 'AssertionError',
                        'Left and right Group objects are not equal\n'
                        '  Differing groups:\n'
                        '    Group /:\n'
                        '      Differing Url:\n'
                        '      L  memory://a\n'
                        '      R  None\n'
                        '      Variables:\n'
                        '        Missing left:\n'
                        '         - v\n'
                        '         - w',
                        'NoneType')),
                      ('tree:empty-url', 'tree:vars-b',
                       ('raise', 'AssertionError',
                        'Left and right Group objects are not equal\n'
                        '  Differing groups:\n'
                        '    Group /:\n'
                        '      Differing Url:\n'
                        '      L  memory://a\n'
                        '      R  None\n'
                        '      Variables:\n'
                        '        Missing left:\n'
                        '         - v\n'
                        '         - w',
                        'NoneType')),
                      ('tree:empty-url', 'tree:one-a',
                       ('raise', 'AssertionError',
                        'Left and right Group objects are not equal\n'
                        '  Differing tree structure:\n'
                        '    Missing left:\n'
                        '    - /a\n'
                        '  Differing groups:\n'
                        '    Group /:\n'
                        '      Differing Url:\n'
                        '      L  memory://a\n'
                        '      R  None',
                        'NoneType')),
                      ('tree:empty-url', 'tree:two',
                       ('raise', 'AssertionError',
                        'Left and right Group objects are not equal\n'
                        '  Differing tree structure:\n'
                        '    Missing left:\n'
                        '    - /a\n'
                        '    - /a/b\n'
                        '    - /a/b/c\n'
                        '    - /d\n'
                        '  Differing groups:\n'
                        '    Group /:\n'
                        '      Differing Url:\n'
                        '      L  memory://a\n'
                        '      R  None',
                        'NoneType')),
                      ('tree:empty-url', 'tree:two-b',
                       ('raise', 'AssertionError',
                        'Left and right Group objects are not equal\n'
                        '  Differing tree structure:\n'
                        '    Missing left:\n'
                        '    - /a\n'
                        '    - /a/b\n'
                        '    - /a/b/e\n'
                        '    - /f\n'
                        '  Differing groups:\n'
                        '    Group /:\n'
                        '      Differing Url:\n'
                        '      L  memory://a\n'
                        '      R  None',
                        'NoneType')),
                      ('tree:empty-url', 'tree:two-c',
                       ('raise', 'AssertionError',
                        'Left and right Group objects are not equal\n'
                        '  Differing tree structure:\n'
                        '    Missing left:\n'
                        '    - /a\n'
                        '    - /a/b\n'
                        '    - /a/b/c\n'
                        '    - /d\n'
                        '  Differing groups:\n'
                        '    Group /:\n'
                        '      Differing Url:\n'
                        '      L  memory://a\n'
                        '      R  None\n'
                        '      Attributes:\n'
                        '        Missing left:\n'
                        '         - top',
                        'NoneType')),
                      ('tree:empty-url', 'tree:arrays',
                       ('raise', 'AssertionError',
                        'Left and right Group objects are not equal\n'
                        '  Differing groups:\n'
                        '    Group /:\n'
                        '      Differing Url:\n'
                        '      L  memory://a\n'
                        '      R  None\n'
                        '      Variables:\n'
                        '        Missing left:\n'
                        '         - data',
                        'NoneType')),
                      ('tree:empty-url', 'tree:arrays-b',
                       ('raise', 'AssertionError',
                        'Left and right Group objects are not equal\n'
                        '  Differing groups:\n'
                        '    Group /:\n'
                        '      Differing Url:\n'
                        '      L  memory://a\n'
                        '      R  None\n'
                        '      Variables:\n'
                        '        Missing left:\n'
                        '         - data',
                        'NoneType')),
                      ('tree:empty-url', 'tree:sub',
                       ('raise', 'AssertionError', "types mismatch: <class 'ceos_alos2.hierarchy.Group'> != <class 'equiv.SubGroup'>", 'NoneType')),
                      ('tree:empty-url', 'tree:sub-b',
                       ('raise', 'AssertionError', "types mismatch: <class 'ceos_alos2.hierarchy.Group'> != <class 'equiv.SubGroup'>", 'NoneType')),
                      ('tree:empty-url', 'var',
                       ('raise', 'AssertionError', "types mismatch: <class 'ceos_alos2.hierarchy.Group'> != <class 'ceos_alos2.hierarchy.Variable'>",
                        'NoneType')),
                      ('tree:empty-url', 'var-b',
                       ('raise', 'AssertionError', "types mismatch: <class 'ceos_alos2.hierarchy.Group'> != <class 'ceos_alos2.hierarchy.Variable'>",
                        'NoneType')),
                      ('tree:empty-url', 'var-dims',
                       ('raise', 'AssertionError', "types mismatch: <class 'ceos_alos2.hierarchy.Group'> != <class 'ceos_alos2.hierarchy.Variable'>",
                        'NoneType')),
                      ('tree:empty-url', 'var-attrs',
                       ('raise', 'AssertionError', "types mismatch: <class 'ceos_alos2.hierarchy.Group'> != <class 'ceos_alos2.hierarchy.Variable'>",
                        'NoneType')),
                      ('tree:empty-url', 'var-dtype',
                       ('raise', 'AssertionError', "types mismatch: <class 'ceos_alos2.hierarchy.Group'> != <class 'ceos_alos2.hierarchy.Variable'>",
                        'NoneType')),
                      ('tree:empty-url', 'var-array',
                       ('raise', 'AssertionError', "types mismatch: <class 'ceos_alos2.hierarchy.Group'> != <class 'ceos_alos2.hierarchy.Variable'>",
                        'NoneType')),
                      ('tree:empty-url', 'var-array-b',
                       ('raise', 'AssertionError', "types mismatch: <class 'ceos_alos2.hierarchy.Group'> != <class 'ceos_alos2.hierarchy.Variable'>",
                        'NoneType')),
                      ('tree:empty-url', 'subvar',
                       ('raise', 'AssertionError', "types mismatch: <class 'ceos_alos2.hierarchy.Group'> != <class 'equiv.SubVariable'>", 'NoneType')),
                      ('tree:empty-url', 'subvar-b',
                       ('raise', 'AssertionError', "types mismatch: <class 'ceos_alos2.hierarchy.Group'> != <class 'equiv.SubVariable'>", 'NoneType')),
                      ('tree:empty-url', 'array',
                       ('raise', 'AssertionError', "types mismatch: <class 'ceos_alos2.hierarchy.Group'> != <class 'ceos_alos2.array.Array'>", 'NoneType')),
                      ('tree:empty-url', 'array-dtype',
                       ('raise', 'AssertionError', "types mismatch: <class 'ceos_alos2.hierarchy.Group'> != <class 'ceos_alos2.array.Array'>", 'NoneType')),
                      ('tree:empty-url', 'array-url',
                       ('raise', 'AssertionError', "types mismatch: <class 'ceos_alos2.hierarchy.Group'> != <class 'ceos_alos2.array.Array'>", 'NoneType')),
                      ('tree:empty-url', 'array-path',
                       ('raise', 'AssertionError', "types mismatch: <class 'ceos_alos2.hierarchy.Group'> != <class 'ceos_alos2.array.Array'>", 'NoneType')),
                      ('tree:empty-url', 'array-file',
                       ('raise', 'AssertionError', "types mismatch: <class 'ceos_alos2.hierarchy.Group'> != <class 'ceos_alos2.array.Array'>", 'NoneType')),
                      ('tree:empty-url', 'array-ranges',
                       ('raise', 'AssertionError', "types mismatch: <class 'ceos_alos2.hierarchy.Group'> != <class 'ceos_alos2.array.Array'>", 'NoneType')),
                      ('tree:empty-url', 'array-rpc',
                       ('raise', 'AssertionError', "types mismatch: <class 'ceos_alos2.hierarchy.Group'> != <class 'ceos_alos2.array.Array'>", 'NoneType')),
                      ('tree:empty-url', 'array-type-code',
                       ('raise', 'AssertionError', "types mismatch: <class 'ceos_alos2.hierarchy.Group'> != <class 'ceos_alos2.array.Array'>", 'NoneType')),
                      ('tree:empty-url', 'subarray',
                       ('raise', 'AssertionError', "types mismatch: <class 'ceos_alos2.hierarchy.Group'> != <class 'equiv.SubArray'>", 'NoneType')),
                      ('tree:empty-url', 'int',
                       ('raise', 'AssertionError', "types mismatch: <class 'ceos_alos2.hierarchy.Group'> != <class 'int'>", 'NoneType')),
                      ('tree:empty-url', 'int-b',
                       ('raise', 'AssertionError', "types mismatch: <class 'ceos_alos2.hierarchy.Group'> != <class 'int'>", 'NoneType')),
                      ('tree:empty-url', 'float',
                       ('raise', 'AssertionError', "types mismatch: <class 'ceos_alos2.hierarchy.Group'> != <class 'float'>", 'NoneType')),
                      ('tree:empty-url', 'str',
                       ('raise', 'AssertionError', "types mismatch: <class 'ceos_alos2.hierarchy.Group'> != <class 'str'>", 'NoneType')),
                      ('tree:empty-url', 'none',
                       ('raise', 'AssertionError', "types mismatch: <class 'ceos_alos2.hierarchy.Group'> != <class 'NoneType'>", 'NoneType')),
                      ('tree:empty-url', 'dict',
                       ('raise', 'AssertionError', "types mismatch: <class 'ceos_alos2.hierarchy.Group'> != <class 'dict'>", 'NoneType')),
                      ('tree:empty-url', 'list',
                       ('raise', 'AssertionError', "types mismatch: <class 'ceos_alos2.hierarchy.Group'> != <class 'list'>", 'NoneType')),
                      ('tree:empty-url', 'ndarray',
                       ('raise', 'AssertionError', "types mismatch: <class 'ceos_alos2.hierarchy.Group'> != <class 'numpy.ndarray'>", 'NoneType')),
                      ('tree:empty-url', 'ndarray-b',
                       ('raise', 'AssertionError', "types mismatch: <class 'ceos_alos2.hierarchy.Group'> != <class 'numpy.ndarray'>", 'NoneType')),
                      ('tree:empty-url', 'np-int',
                       ('raise', 'AssertionError', "types mismatch: <class 'ceos_alos2.hierarchy.Group'> != <class 'numpy.int8'>", 'NoneType')),
                      ('tree:empty-url', 'type',
                       ('raise', 'AssertionError', "types mismatch: <class 'ceos_alos2.hierarchy.Group'> != <class 'abc.ABCMeta'>", 'NoneType')),
                      ('tree:empty-url', 'bool',
                       ('raise', 'AssertionError', "types mismatch: <class 'ceos_alos2.hierarchy.Group'> != <class 'bool'>", 'NoneType')),
                      ('tree:vars', 'tree:empty',
                       ('raise', 'AssertionError',
                        'Left and right Group objects are not equal\n'
                        '  Differing groups:\n'
                        '    Group /:\n'
                        '      Variables:\n'
                        '        Missing right:\n'
                        '         - v\n'
                        '         - w',
                        'NoneType')),
                      ('tree:vars', 'tree:empty-url',
                       ('raise', 'AssertionError',
                        'Left and right Group objects are not equal\n'
                        '  Differing groups:\n'
                        '    Group /:\n'
                        '      Differing Url:\n'
                        '      L  None\n'
                        '      R  memory://a\n'
                        '      Variables:\n'
                        '        Missing right:\n'
                        '         - v\n'
                        '         - w',
                        'NoneType')),
                      ('tree:vars', 'tree:vars', ('ok', 'NoneType', 'None')),
                      ('tree:vars', 'tree:vars-b',
                       ('raise', 'AssertionError',
                        'Left and right Group objects are not equal\n'
                        '  Differing groups:\n'
                        '    Group /:\n'
                        '      Variables:\n'
                        '        Differing variables:\n'
                        '           L w  (x)    int8  2\n'
                        '           R w  (x)    int8  3',
                        'NoneType')),
                      ('tree:vars', 'tree:one-a',
                       ('raise', 'AssertionError',
                        'Left and right Group objects are not equal\n'
                        '  Differing tree structure:\n'
                        '    Missing left:\n'
                        '    - /a\n'
                        '  Differing groups:\n'
                        '    Group /:\n'
                        '      Variables:\n'
                        '        Missing right:\n'
                        '         - v\n'
                        '         - w',
                        'NoneType')),
                      ('tree:vars', 'tree:two',
                       ('raise', 'AssertionError',
                        'Left and right Group objects are not equal\n'
                        '  Differing tree structure:\n'
                        '    Missing left:\n'
                        '    - /a\n'
                        '    - /a/b\n'
                        '    - /a/b/c\n'
                        '    - /d\n'
                        '  Differing groups:\n'
                        '    Group /:\n'
                        '      Variables:\n'
                        '        Missing right:\n'
                        '         - v\n'
                        '         - w',
                        'NoneType')),
                      ('tree:vars', 'tree:two-b',
                       ('raise', 'AssertionError',
                        'Left and right Group objects are not equal\n'
                        '  Differing tree structure:\n'
                        '    Missing left:\n'
                        '    - /a\n'
                        '    - /a/b\n'
                        '    - /a/b/e\n'
                        '    - /f\n'
                        '  Differing groups:\n'
                        '    Group /:\n'
                        '      Variables:\n'
                        '        Missing right:\n'
                        '         - v\n'
                        '         - w',
                        'NoneType')),
                      ('tree:vars', 'tree:two-c',
                       ('raise', 'AssertionError',
                        'Left and right Group objects are not equal\n'
                        '  Differing tree structure:\n'
                        '    Missing left:\n'
                        '    - /a\n'
                        '    - /a/b\n'
                        '    - /a/b/c\n'
                        '    - /d\n'
                        '  Differing groups:\n'
                        '    Group /:\n'
                        '      Variables:\n'
                        '        Missing right:\n'
                        '         - v\n'
                        '         - w\n'
                        '      Attributes:\n'
                        '        Missing left:\n'
                        '         - top',
                        'NoneType')),
                      ('tree:vars', 'tree:arrays',
                       ('raise', 'AssertionError',
                        'Left and right Group objects are not equal\n'
                        '  Differing groups:\n'
                        '    Group /:\n'
                        '      Variables:\n'
                        '        Missing left:\n'
                        '         - data\n'
                        '        Missing right:\n'
                        '         - v\n'
                        '         - w',
                        'NoneType')),
                      ('tree:vars', 'tree:arrays-b',
                       ('raise', 'AssertionError',
                        'Left and right Group objects are not equal\n'
                        '  Differing groups:\n'
                        '    Group /:\n'
                        '      Variables:\n'
                        '        Missing left:\n'
                        '         - data\n'
                        '        Missing right:\n'
                        '         - v\n'
                        '         - w',
                        'NoneType')),
                      ('tree:vars', 'tree:sub',
                       ('raise', 'AssertionError', "types mismatch: <class 'ceos_alos2.hierarchy.Group'> != <class 'equiv.SubGroup'>", 'NoneType')),
                      ('tree:vars', 'tree:sub-b',
                       ('raise', 'AssertionError', "types mismatch: <class 'ceos_alos2.hierarchy.Group'> != <class 'equiv.SubGroup'>", 'NoneType')),
                      ('tree:vars', 'var',
                       ('raise', 'AssertionError', "types mismatch: <class 'ceos_alos2.hierarchy.Group'> != <class 'ceos_alos2.hierarchy.Variable'>",
                        'NoneType')),
                      ('tree:vars', 'var-b',
                       ('raise', 'AssertionError', "types mismatch: <class 'ceos_alos2.hierarchy.Group'> != <class 'ceos_alos2.hierarchy.Variable'>",
                        'NoneType')),
                      ('tree:vars', 'var-dims',
                       ('raise', 'AssertionError', "types mismatch: <class 'ceos_alos2.hierarchy.Group'> != <class 'ceos_alos2.hierarchy.Variable'>",
                        'NoneType')),
                      ('tree:vars', 'var-attrs',
                       ('raise', 'AssertionError', "types mismatch: <class 'ceos_alos2.hierarchy.Group'> != <class 'ceos_alos2.hierarchy.Variable'>",
                        'NoneType')),
                      ('tree:vars', 'var-dtype',
                       ('raise', 'AssertionError', "types mismatch: <class 'ceos_alos2.hierarchy.Group'> != <class 'ceos_alos2.hierarchy.Variable'>",
                        'NoneType')),
                      ('tree:vars', 'var-array',
                       ('raise', 'AssertionError', "types mismatch: <class 'ceos_alos2.hierarchy.Group'> != <class 'ceos_alos2.hierarchy.Variable'>",
                        'NoneType')),
                      ('tree:vars', 'var-array-b',
                       ('raise', 'AssertionError', "types mismatch: <class 'ceos_alos2.hierarchy.Group'> != <class 'ceos_alos2.hierarchy.Variable'>",
                        'NoneType')),
                      ('tree:vars', 'subvar',
                       ('raise', 'AssertionError', "types mismatch: <class 'ceos_alos2.hierarchy.Group'> != <class 'equiv.SubVariable'>", 'NoneType')),
                      ('tree:vars', 'subvar-b',
                       ('raise', 'AssertionError', "types mismatch: <class 'ceos_alos2.hierarchy.Group'> != <class 'equiv.SubVariable'>", 'NoneType')),
                      ('tree:vars', 'array',
                       ('raise', 'AssertionError', "types mismatch: <class 'ceos_alos2.hierarchy.Group'> != <class 'ceos_alos2.array.Array'>", 'NoneType')),
                      ('tree:vars', 'array-dtype',
                       ('raise', 'AssertionError', "types mismatch: <class 'ceos_alos2.hierarchy.Group'> != <class 'ceos_alos2.array.Array'>", 'NoneType')),
                      ('tree:vars', 'array-url',
                       ('raise', 'AssertionError', "types mismatch: <class 'ceos_alos2.hierarchy.Group'> != <class 'ceos_alos2.array.Array'>", 'NoneType')),
                      ('tree:vars', 'array-path',
                       ('raise', 'AssertionError', "types mismatch: <class 'ceos_alos2.hierarchy.Group'> != <class 'ceos_alos2.array.Array'>", 'NoneType')),
                      ('tree:vars', 'array-file',
                       ('raise', 'AssertionError', "types mismatch: <class 'ceos_alos2.hierarchy.Group'> != <class 'ceos_alos2.array.Array'>", 'NoneType')),
                      ('tree:vars', 'array-ranges',
                       ('raise', 'AssertionError', "types mismatch: <class 'ceos_alos2.hierarchy.Group'> != <class 'ceos_alos2.array.Array'>", 'NoneType')),
                      ('tree:vars', 'array-rpc',
                       ('raise', 'AssertionError', "types mismatch: <class 'ceos_alos2.hierarchy.Group'> != <class 'ceos_alos2.array.Array'>", 'NoneType')),
                      ('tree:vars', 'array-type-code',
                       ('raise', 'AssertionError', "types mismatch: <class 'ceos_alos2.hierarchy.Group'> != <class 'ceos_alos2.array.Array'>", 'NoneType')),
                      ('tree:vars', 'subarray',
                       ('raise', 'AssertionError', "types mismatch: <class 'ceos_alos2.hierarchy.Group'> != <class 'equiv.SubArray'>", 'NoneType')),
                      ('tree:vars', 'int', ('raise', 'AssertionError', "types mismatch: <class 'ceos_alos2.hierarchy.Group'> != <class 'int'>", 'NoneType')),
                      ('tree:vars', 'int-b', ('raise', 'AssertionError', "types mismatch: <class 'ceos_alos2.hierarchy.Group'> != <class 'int'>", 'NoneType')),
                      ('tree:vars', 'float',
                       ('raise', 'AssertionError', "types mismatch: <class 'ceos_alos2.hierarchy.Group'> != <class 'float'>", 'NoneType')),
                      ('tree:vars', 'str', ('raise', 'AssertionError', "types mismatch: <class 'ceos_alos2.hierarchy.Group'> != <class 'str'>", 'NoneType')),
                      ('tree:vars', 'none',
                       ('raise', 'AssertionError', "types mismatch: <class 'ceos_alos2.hierarchy.Group'> != <class 'NoneType'>", 'NoneType')),
                      ('tree:vars', 'dict', ('raise', 'AssertionError', "types mismatch: <class 'ceos_alos2.hierarchy.Group'> != <class 'dict'>", 'NoneType')),
                      ('tree:vars', 'list', ('raise', 'AssertionError', "types mismatch: <class 'ceos_alos2.hierarchy.Group'> != <class 'list'>", 'NoneType')),
                      ('tree:vars', 'ndarray',
                       ('raise', 'AssertionError', "types mismatch: <class 'ceos_alos2.hierarchy.Group'> != <class 'numpy.ndarray'>", 'NoneType')),
                      ('tree:vars', 'ndarray-b',
                       ('raise', 'AssertionError', "types mismatch: <class 'ceos_alos2.hierarchy.Group'> != <class 'numpy.ndarray'>", 'NoneType')),
                      ('tree:vars', 'np-int',
                       ('raise', 'AssertionError', "types mismatch: <class 'ceos_alos2.hierarchy.Group'> != <class 'numpy.int8'>", 'NoneType')),
                      ('tree:vars', 'type',
                       ('raise', 'AssertionError', "types mismatch: <class 'ceos_alos2.hierarchy.Group'> != <class 'abc.ABCMeta'>", 'NoneType')),
                      ('tree:vars', 'bool', ('raise', 'AssertionError', "types mismatch: <class 'ceos_alos2.hierarchy.Group'> != <class 'bool'>", 'NoneType')),
                      ('tree:vars-b', 'tree:empty',
                       ('raise', 'AssertionError',
                        'Left and right Group objects are not equal\n'
                        '  Differing groups:\n'
                        '    Group /:\n'
                        '      Variables:\n'
                        '        Missing right:\n'
                        '         - v\n'
                        '         - w',
                        'NoneType')),
                      ('tree:vars-b', 'tree:empty-url',
                       ('raise', 'AssertionError',
                        'Left and right Group objects are not equal\n'
                        '  Differing groups:\n'
                        '    Group /:\n'
                        '      Differing Url:\n'
                        '      L  None\n'
                        '      R  memory://a\n'
                        '      Variables:\n'
                        '        Missing right:\n'
                        '         - v\n'
                        '         - w',
                        'NoneType')),
                      ('tree:vars-b', 'tree:vars',
                       ('raise', 'AssertionError',
                        'Left and right Group objects are not equal\n'
                        '  Differing groups:\n'
                        '    Group /:\n'
                        '      Variables:\n'
                        '        Differing variables:\n'
                        '           L w  (x)    int8  3\n'
                        '           R w  (x)    int8  2',
                        'NoneType')),
                      ('tree:vars-b', 'tree:vars-b', ('ok', 'NoneType', 'None')),
                      ('tree:vars-b', 'tree:one-a',
                       ('raise', 'AssertionError',
                        'Left and right Group objects are not equal\n'
                        '  Differing tree structure:\n'
                        '    Missing left:\n'
                        '    - /a\n'
                        '  Differing groups:\n'
                        '    Group /:\n'
                        '      Variables:\n'
                        '        Missing right:\n'
                        '         - v\n'
                        '         - w',
                        'NoneType')),
                      ('tree:vars-b', 'tree:two',
                       ('raise', 'AssertionError',
                        'Left and right Group objects are not equal\n'
                        '  Differing tree structure:\n'
                        '    Missing left:\n'
                        '    - /a\n'
                        '    - /a/b\n'
                        '    - /a/b/c\n'
                        '    - /d\n'
                        '  Differing groups:\n'
                        '    Group /:\n'
                        '      Variables:\n'
                        '        Missing right:\n'
                        '         - v\n'
                        '         - w',
                        'NoneType')),
                      ('tree:vars-b', 'tree:two-b',
                       ('raise', 'AssertionError',
                        'Left and right Group objects are not equal\n'
                        '  Differing tree structure:\n'
                        '    Missing left:\n'
                        '    - /a\n'
                        '    - /a/b\n'
                        '    - /a/b/e\n'
                        '    - /f\n'
                        '  Differing groups:\n'
                        '    Group /:\n'
                        '      Variables:\n'
                        '        Missing right:\n'
                        '         - v\n'
                        '         - w',
                        'NoneType')),
                      ('tree:vars-b', 'tree:two-c',
                       ('raise', 'AssertionError',
                        'Left and right Group objects are not equal\n'
                        '  Differing tree structure:\n'
                        '    Missing left:\n'
                        '    - /a\n'
                        '    - /a/b\n'
                        '    - /a/b/c\n'
                        '    - /d\n'
                        '  Differing groups:\n'
                        '    Group /:\n'
                        '      Variables:\n'
                        '        Missing right:\n'
                        '         - v\n'
                        '         - w\n'
                        '      Attributes:\n'
                        '        Missing left:\n'
                        '         - top',
                        'NoneType')),
                      ('tree:vars-b', 'tree:arrays',
                       ('raise', 'AssertionError',
                        'Left and right Group objects are not equal\n'
                        '  Differing groups:\n'
                        '    Group /:\n'
                        '      Variables:\n'
                        '        Missing left:\n'
                        '         - data\n'
                        '        Missing right:\n'
                        '         - v\n'
                        '         - w',
                        'NoneType')),
                      ('tree:vars-b', 'tree:arrays-b',
                       ('raise', 'AssertionError',
                        'Left and right Group objects are not equal\n'
                        '  Differing groups:\n'
                        '    Group /:\n'
                        '      Variables:\n'
                        '        Missing left:\n'
                        '         - data\n'
                        '        Missing right:\n'
                        '         - v\n'
                        '         - w',
                        'NoneType')),
                      ('tree:vars-b', 'tree:sub',
                       ('raise', 'AssertionError', "types mismatch: <class 'ceos_alos2.hierarchy.Group'> != <class 'equiv.SubGroup'>", 'NoneType')),
                      ('tree:vars-b', 'tree:sub-b',
                       ('raise', 'AssertionError', "types mismatch: <class 'ceos_alos2.hierarchy.Group'> != <class 'equiv.SubGroup'>", 'NoneType')),
                      ('tree:vars-b', 'var',
                       ('raise', 'AssertionError', "types mismatch: <class 'ceos_alos2.hierarchy.Group'> != <class 'ceos_alos2.hierarchy.Variable'>",
                        'NoneType')),
                      ('tree:vars-b', 'var-b',
                       ('raise', 'AssertionError', "types mismatch: <class 'ceos_alos2.hierarchy.Group'> != <class 'ceos_alos2.hierarchy.Variable'>",
                        'NoneType')),
                      ('tree:vars-b', 'var-dims',
                       ('raise', 'AssertionError', "types mismatch: <class 'ceos_alos2.hierarchy.Group'> != <class 'ceos_alos2.hierarchy.Variable'>",
                        'NoneType')),
                      ('tree:vars-b', 'var-attrs',
                       ('raise', 'AssertionError', "types mismatch: <class 'ceos_alos2.hierarchy.Group'> != <class 'ceos_alos2.hierarchy.Variable'>",
                        'NoneType')),
                      ('tree:vars-b', 'var-dtype',
                       ('raise', 'AssertionError', "types mismatch: <class 'ceos_alos2.hierarchy.Group'> != <class 'ceos_alos2.hierarchy.Variable'>",
                        'NoneType')),
                      ('tree:vars-b', 'var-array',
                       ('raise', 'AssertionError', "types mismatch: <class 'ceos_alos2.hierarchy.Group'> != <class 'ceos_alos2.hierarchy.Variable'>",
                        'NoneType')),
                      ('tree:vars-b', 'var-array-b',
                       ('raise', 'AssertionError', "types mismatch: <class 'ceos_alos2.hierarchy.Group'> != <class 'ceos_alos2.hierarchy.Variable'>",
                        'NoneType')),
                      ('tree:vars-b', 'subvar',
                       ('raise', 'AssertionError', "types mismatch: <class 'ceos_alos2.hierarchy.Group'> != <class 'equiv.SubVariable'>", 'NoneType')),
                      ('tree:vars-b', 'subvar-b',
                       ('raise', 'AssertionError', "types mismatch: <class 'ceos_alos2.hierarchy.Group'> != <class 'equiv.SubVariable'>", 'NoneType')),
                      ('tree:vars-b', 'array',
                       ('raise', 'AssertionError', "types mismatch: <class 'ceos_alos2.hierarchy.Group'> != <class 'ceos_alos2.array.Array'>", 'NoneType')),
                      ('tree:vars-b', 'array-dtype',
                       ('raise', 'AssertionError', "types mismatch: <class 'ceos_alos2.hierarchy.Group'> != <class 'ceos_alos2.array.Array'>", 'NoneType')),
                      ('tree:vars-b', 'array-url',
                       ('raise', 'AssertionError', "types mismatch: <class 'ceos_alos2.hierarchy.Group'> != <class 'ceos_alos2.array.Array'>", 'NoneType')),
                      ('tree:vars-b', 'array-path',
                       ('raise', 'AssertionError', "types mismatch: <class 'ceos_alos2.hierarchy.Group'> != <class 'ceos_alos2.array.Array'>", 'NoneType')),
                      ('tree:vars-b', 'array-file',
                       ('raise', 'AssertionError', "types mismatch: <class 'ceos_alos2.hierarchy.Group'> != <class 'ceos_alos2.array.Array'>", 'NoneType')),
                      ('tree:vars-b', 'array-ranges',
                       ('raise', 'AssertionError', "types mismatch: <class 'ceos_alos2.hierarchy.Group'> != <class 'ceos_alos2.array.Array'>", 'NoneType')),
                      ('tree:vars-b', 'array-rpc',
                       ('raise', 'AssertionError', "types mismatch: <class 'ceos_alos2.hierarchy.Group'> != <class 'ceos_alos2.array.Array'>", 'NoneType')),
                      ('tree:vars-b', 'array-type-code',
                       ('raise', 'AssertionError', "types mismatch: <class 'ceos_alos2.hierarchy.Group'> != <class 'ceos_alos2.array.Array'>", 'NoneType')),
                      ('tree:vars-b', 'subarray',
                       ('raise', 'AssertionError', "types mismatch: <class 'ceos_alos2.hierarchy.Group'> != <class 'equiv.SubArray'>", 'NoneType')),
                      ('tree:vars-b', 'int', ('raise', 'AssertionError', "types mismatch: <class 'ceos_alos2.hierarchy.Group'> != <class 'int'>", 'NoneType')),
                      ('tree:vars-b', 'int-b',
                       ('raise', 'AssertionError', "types mismatch: <class 'ceos_alos2.hierarchy.Group'> != <class 'int'>", 'NoneType')),
                      ('tree:vars-b', 'float',
                       ('raise', 'AssertionError', "types mismatch: <class 'ceos_alos2.hierarchy.Group'> != <class 'float'>", 'NoneType')),
                      ('tree:vars-b', 'str', ('raise', 'AssertionError', "types mismatch: <class 'ceos_alos2.hierarchy.Group'> != <class 'str'>", 'NoneType')),
                      ('tree:vars-b', 'none',
                       ('raise', 'AssertionError', "types mismatch: <class 'ceos_alos2.hierarchy.Group'> != <class 'NoneType'>", 'NoneType')),
                      ('tree:vars-b', 'dict',
                       ('raise', 'AssertionError', "types mismatch: <class 'ceos_alos2.hierarchy.Group'> != <class 'dict'>", 'NoneType')),
                      ('tree:vars-b', 'list',
                       ('raise', 'AssertionError', "types mismatch: <class 'ceos_alos2.hierarchy.Group'> != <class 'list'>", 'NoneType')),
                      ('tree:vars-b', 'ndarray',
                       ('raise', 'AssertionError', "types mismatch: <class 'ceos_alos2.hierarchy.Group'> != <class 'numpy.ndarray'>", 'NoneType')),
                      ('tree:vars-b', 'ndarray-b',
                       ('raise', 'AssertionError', "types mismatch: <class 'ceos_alos2.hierarchy.Group'> != <class 'numpy.ndarray'>", 'NoneType')),
                      ('tree:vars-b', 'np-int',
                       ('raise', 'AssertionError', "types mismatch: <class 'ceos_alos2.hierarchy.Group'> != <class 'numpy.int8'>", 'NoneType')),
                      ('tree:vars-b', 'type',
                       ('raise', 'AssertionError', "types mismatch: <class 'ceos_alos2.hierarchy.Group'> != <class 'abc.ABCMeta'>", 'NoneType')),
                      ('tree:vars-b', 'bool',
                       ('raise', 'AssertionError', "types mismatch: <class 'ceos_alos2.hierarchy.Group'> != <class 'bool'>", 'NoneType')),
                      ('tree:one-a', 'tree:empty',
                       ('raise', 'AssertionError', 'Left and right Group objects are not equal\n  Differing tree structure:\n    Missing right:\n    - /a',
                        'NoneType')),
                      ('tree:one-a', 'tree:empty-url',
                       ('raise', 'AssertionError',
                        'Left and right Group objects are not equal\n'
                        '  Differing tree structure:\n'
                        '    Missing right:\n'
                        '    - /a\n'
                        '  Differing groups:\n'
                        '    Group /:\n'
                        '      Differing Url:\n'
                        '      L  None\n'
                        '      R  memory://a',
                        'NoneType')),
                      ('tree:one-a', 'tree:vars',
                       ('raise', 'AssertionError',
                        'Left and right Group objects are not equal\n'
                        '  Differing tree structure:\n'
                        '    Missing right:\n'
                        '    - /a\n'
                        '  Differing groups:\n'
                        '    Group /:\n'
                        '      Variables:\n'
                        '        Missing left:\n'
                        '         - v\n'
                        '         - w',
                        'NoneType')),
                      ('tree:one-a', 'tree:vars-b',
                       ('raise', 'AssertionError',
                        'Left and right Group objects are not equal\n'
                        '  Differing tree structure:\n'
                        '    Missing right:\n'
                        '    - /a\n'
                        '  Differing groups:\n'
                        '    Group /:\n'
                        '      Variables:\n'
                        '        Missing left:\n'
                        '         - v\n'
                        '         - w',
                        'NoneType')),
                      ('tree:one-a', 'tree:one-a', ('ok', 'NoneType', 'None')),
                      ('tree:one-a', 'tree:two',
                       ('raise', 'AssertionError',
                        'Left and right Group objects are not equal\n'
                        '  Differing tree structure:\n'
                        '    Missing left:\n'
                        '    - /a/b\n'
                        '    - /a/b/c\n'
                        '    - /d\n'
                        '  Differing groups:\n'
                        '    Group /a:\n'
                        '      Variables:\n'
                        '        Missing left:\n'
                        '         - v',
                        'NoneType')),
                      ('tree:one-a', 'tree:two-b',
                       ('raise', 'AssertionError',
                        'Left and right Group objects are not equal\n'
                        '  Differing tree structure:\n'
                        '    Missing left:\n'
                        '    - /a/b\n'
                        '    - /a/b/e\n'
                        '    - /f\n'
                        '  Differing groups:\n'
                        '    Group /a:\n'
                        '      Variables:\n'
                        '        Missing left:\n'
                        '         - v',
                        'NoneType')),
                      ('tree:one-a', 'tree:two-c',
                       ('raise', 'AssertionError',
                        'Left and right Group objects are not equal\n'
                        '  Differing tree structure:\n'
                        '    Missing left:\n'
                        '    - /a/b\n'
                        '    - /a/b/c\n'
                        '    - /d\n'
                        '  Differing groups:\n'
                        '    Group /:\n'
                        '      Attributes:\n'
                        '        Missing left:\n'
                        '         - top\n'
                        '    Group /a:\n'
                        '      Variables:\n'
                        '        Missing left:\n'
                        '         - v',
                        'NoneType')),
                      ('tree:one-a', 'tree:arrays',
                       ('raise', 'AssertionError',
                        'Left and right Group objects are not equal\n'
                        '  Differing tree structure:\n'
                        '    Missing right:\n'
                        '    - /a\n'
                        '  Differing groups:\n'
                        '    Group /:\n'
                        '      Variables:\n'
                        '        Missing left:\n'
                        '         - data',
                        'NoneType')),
                      ('tree:one-a', 'tree:arrays-b',
                       ('raise', 'AssertionError',
                        'Left and right Group objects are not equal\n'
                        '  Differing tree structure:\n'
                        '    Missing right:\n'
                        '    - /a\n'
                        '  Differing groups:\n'
                        '    Group /:\n'
                        '      Variables:\n'
                        '        Missing left:\n'
                        '         - data',
                        'NoneType')),
                      ('tree:one-a', 'tree:sub',
                       ('raise', 'AssertionError', "types mismatch: <class 'ceos_alos2.hierarchy.Group'> != <class 'equiv.SubGroup'>", 'NoneType')),
                      ('tree:one-a', 'tree:sub-b',
                       ('raise', 'AssertionError', "types mismatch: <class 'ceos_alos2.hierarchy.Group'> != <class 'equiv.SubGroup'>", 'NoneType')),
                      ('tree:one-a', 'var',
                       ('raise', 'AssertionError', "types mismatch: <class 'ceos_alos2.hierarchy.Group'> != <class 'ceos_alos2.hierarchy.Variable'>",
                        'NoneType')),
                      ('tree:one-a', 'var-b',
                       ('raise', 'AssertionError', "types mismatch: <class 'ceos_alos2.hierarchy.Group'> != <class 'ceos_alos2.hierarchy.Variable'>",
                        'NoneType')),
                      ('tree:one-a', 'var-dims',
                       ('raise', 'AssertionError', "types mismatch: <class 'ceos_alos2.hierarchy.Group'> != <class 'ceos_alos2.hierarchy.Variable'>",
                        'NoneType')),
                      ('tree:one-a', 'var-attrs',
                       ('raise', 'AssertionError', "types mismatch: <class 'ceos_alos2.hierarchy.Group'> != <class 'ceos_alos2.hierarchy.Variable'>",
                        'NoneType')),
                      ('tree:one-a', 'var-dtype',
                       ('raise', 'AssertionError', "types mismatch: <class 'ceos_alos2.hierarchy.Group'> != <class 'ceos_alos2.hierarchy.Variable'>",
                        'NoneType')),
                      ('tree:one-a', 'var-array',
                       ('raise', 'AssertionError', "types mismatch: <class 'ceos_alos2.hierarchy.Group'> != <class 'ceos_alos2.hierarchy.Variable'>",
                        'NoneType')),
                      ('tree:one-a', 'var-array-b',
                       ('raise', 'AssertionError', "types mismatch: <class 'ceos_alos2.hierarchy.Group'> != <class 'ceos_alos2.hierarchy.Variable'>",
                        'NoneType')),
                      ('tree:one-a', 'subvar',
                       ('raise', 'AssertionError', "types mismatch: <class 'ceos_alos2.hierarchy.Group'> != <class 'equiv.SubVariable'>", 'NoneType')),
                      ('tree:one-a', 'subvar-b',
                       ('raise', 'AssertionError', "types mismatch: <class 'ceos_alos2.hierarchy.Group'> != <class 'equiv.SubVariable'>", 'NoneType')),
                      ('tree:one-a', 'array',
                       ('raise', 'AssertionError', "types mismatch: <class 'ceos_alos2.hierarchy.Group'> != <class 'ceos_alos2.array.Array'>", 'NoneType')),
                      ('tree:one-a', 'array-dtype',
                       ('raise', 'AssertionError', "types mismatch: <class 'ceos_alos2.hierarchy.Group'> != <class 'ceos_alos2.array.Array'>", 'NoneType')),
                      ('tree:one-a', 'array-url',
                       ('raise', 'AssertionError', "types mismatch: <class 'ceos_alos2.hierarchy.Group'> != <class 'ceos_alos2.array.Array'>", 'NoneType')),
                      ('tree:one-a', 'array-path',
                       ('raise', 'AssertionError', "types mismatch: <class 'ceos_alos2.hierarchy.Group'> != <class 'ceos_alos2.array.Array'>", 'NoneType')),
                      ('tree:one-a', 'array-file',
                       ('raise', 'AssertionError', "types mismatch: <class 'ceos_alos2.hierarchy.Group'> != <class 'ceos_alos2.array.Array'>", 'NoneType')),
                      ('tree:one-a', 'array-ranges',
                       ('raise', 'AssertionError', "types mismatch: <class 'ceos_alos2.hierarchy.Group'> != <class 'ceos_alos2.array.Array'>", 'NoneType')),
                      ('tree:one-a', 'array-rpc',
                       ('raise', 'AssertionError', "types mismatch: <class 'ceos_alos2.hierarchy.Group'> != <class 'ceos_alos2.array.Array'>", 'NoneType')),
                      ('tree:one-a', 'array-type-code',
                       ('raise', 'AssertionError', "types mismatch: <class 'ceos_alos2.hierarchy.Group'> != <class 'ceos_alos2.array.Array'>", 'NoneType')),
                      ('tree:one-a', 'subarray',
                       ('raise', 'AssertionError', "types mismatch: <class 'ceos_alos2.hierarchy.Group'> != <class 'equiv.SubArray'>", 'NoneType')),
                      ('tree:one-a', 'int', ('raise', 'AssertionError', "types mismatch: <class 'ceos_alos2.hierarchy.Group'> != <class 'int'>", 'NoneType')),
                      ('tree:one-a', 'int-b', ('raise', 'AssertionError', "types mismatch: <class 'ceos_alos2.hierarchy.Group'> != <class 'int'>", 'NoneType')),
                      ('tree:one-a', 'float',
                       ('raise', 'AssertionError', "types mismatch: <class 'ceos_alos2.hierarchy.Group'> != <class 'float'>", 'NoneType')),
                      ('tree:one-a', 'str', ('raise', 'AssertionError', "types mismatch: <class 'ceos_alos2.hierarchy.Group'> != <class 'str'>", 'NoneType')),
                      ('tree:one-a', 'none',
                       ('raise', 'AssertionError', "types mismatch: <class 'ceos_alos2.hierarchy.Group'> != <class 'NoneType'>", 'NoneType')),
                      ('tree:one-a', 'dict', ('raise', 'AssertionError', "types mismatch: <class 'ceos_alos2.hierarchy.Group'> != <class 'dict'>", 'NoneType')),
                      ('tree:one-a', 'list', ('raise', 'AssertionError', "types mismatch: <class 'ceos_alos2.hierarchy.Group'> != <class 'list'>", 'NoneType')),
                      ('tree:one-a', 'ndarray',
                       ('raise', 'AssertionError', "types mismatch: <class 'ceos_alos2.hierarchy.Group'> != <class 'numpy.ndarray'>", 'NoneType')),
                      ('tree:one-a', 'ndarray-b',
                       ('raise', 'AssertionError', "types mismatch: <class 'ceos_alos2.hierarchy.Group'> != <class 'numpy.ndarray'>", 'NoneType')),
                      ('tree:one-a', 'np-int',
                       ('raise', 'AssertionError', "types mismatch: <class 'ceos_alos2.hierarchy.Group'> != <class 'numpy.int8'>", 'NoneType')),
                      ('tree:one-a', 'type',
                       ('raise', 'AssertionError', "types mismatch: <class 'ceos_alos2.hierarchy.Group'> != <class 'abc.ABCMeta'>", 'NoneType')),
                      ('tree:one-a', 'bool', ('raise', 'AssertionError', "types mismatch: <class 'ceos_alos2.hierarchy.Group'> != <class 'bool'>", 'NoneType')),
                      ('tree:two', 'tree:empty',
                       ('raise', 'AssertionError',
                        'Left and right Group objects are not equal\n'
                        '  Differing tree structure:\n'
                        '    Missing right:\n'
                        '    - /a\n'
                        '    - /a/b\n'
                        '    - /a/b/c\n'
                        '    - /d',
                        'NoneType')),
                      ('tree:two', 'tree:empty-url',
                       ('raise', 'AssertionError',
                        'Left and right Group objects are not equal\n'
                        '  Differing tree structure:\n'
                        '    Missing right:\n'
                        '    - /a\n'
                        '    - /a/b\n'
                        '    - /a/b/c\n'
                        '    - /d\n'
                        '  Differing groups:\n'
                        '    Group /:\n'
                        '      Differing Url:\n'
                        '      L  None\n'
                        '      R  memory://a',
                        'NoneType')),
                      ('tree:two', 'tree:vars',
                       ('raise', 'AssertionError',
                        'Left and right Group objects are not equal\n'
                        '  Differing tree structure:\n'
                        '    Missing right:\n'
                        '    - /a\n'
                        '    - /a/b\n'
                        '    - /a/b/c\n'
                        '    - /d\n'
                        '  Differing groups:\n'
                        '    Group /:\n'
                        '      Variables:\n'
                        '        Missing left:\n'
                        '         - v\n'
                        '         - w',
                        'NoneType')),
                      ('tree:two', 'tree:vars-b',
                       ('raise', 'AssertionError',
                        'Left and right Group objects are not equal\n'
                        '  Differing tree structure:\n'
                        '    Missing right:\n'
                        '    - /a\n'
                        '    - /a/b\n'
                        '    - /a/b/c\n'
                        '    - /d\n'
                        '  Differing groups:\n'
                        '    Group /:\n'
                        '      Variables:\n'
                        '        Missing left:\n'
                        '         - v\n'
                        '         - w',
                        'NoneType')),
                      ('tree:two', 'tree:one-a',
                       ('raise', 'AssertionError',
                        'Left and right Group objects are not equal\n'
                        '  Differing tree structure:\n'
                        '    Missing right:\n'
                        '    - /a/b\n'
                        '    - /a/b/c\n'
                        '    - /d\n'
                        '  Differing groups:\n'
                        '    Group /a:\n'
                        '      Variables:\n'
                        '        Missing right:\n'
                        '         - v',
                        'NoneType')),
                      ('tree:two', 'tree:two', ('ok', 'NoneType', 'None')),
                      ('tree:two', 'tree:two-b',
                       ('raise', 'AssertionError',
                        'Left and right Group objects are not equal\n'
                        '  Differing tree structure:\n'
                        '    Missing left:\n'
                        '    - /a/b/e\n'
                        '    - /f\n'
                        '    Missing right:\n'
                        '    - /a/b/c\n'
                        '    - /d\n'
                        '  Differing groups:\n'
                        '    Group /a:\n'
                        '      Variables:\n'
                        '        Differing variables:\n'
                        '           L v  (x)    int8  5\n'
                        '           R v  (x)    int8  6',
                        'NoneType')),
                      ('tree:two', 'tree:two-c',
                       ('raise', 'AssertionError',
                        'Left and right Group objects are not equal\n'
                        '  Differing groups:\n'
                        '    Group /:\n'
                        '      Attributes:\n'
                        '        Missing left:\n'
                        '         - top\n'
                        '    Group /a/b:\n'
                        '      Attributes:\n'
                        '        Missing left:\n'
                        '         - m\n'
                        '    Group /a/b/c:\n'
                        '      Attributes:\n'
                        '        Missing left:\n'
                        '         - n\n'
                        '    Group /d:\n'
                        '      Variables:\n'
                        '        Missing left:\n'
                        '         - x',
                        'NoneType')),
                      ('tree:two', 'tree:arrays',
                       ('raise', 'AssertionError',
                        'Left and right Group objects are not equal\n'
                        '  Differing tree structure:\n'
                        '    Missing right:\n'
                        '    - /a\n'
                        '    - /a/b\n'
                        '    - /a/b/c\n'
                        '    - /d\n'
                        '  Differing groups:\n'
                        '    Group /:\n'
                        '      Variables:\n'
                        '        Missing left:\n'
                        '         - data',
                        'NoneType')),
                      ('tree:two', 'tree:arrays-b',
                       ('raise', 'AssertionError',
                        'Left and right Group objects are not equal\n'
                        '  Differing tree structure:\n'
                        '    Missing right:\n'
                        '    - /a\n'
                        '    - /a/b\n'
                        '    - /a/b/c\n'
                        '    - /d\n'
                        '  Differing groups:\n'
                        '    Group /:\n'
                        '      Variables:\n'
                        '        Missing left:\n'
                        '         - data',
                        'NoneType')),
                      ('tree:two', 'tree:sub',
                       ('raise', 'AssertionError', "types mismatch: <class 'ceos_alos2.hierarchy.Group'> != <class 'equiv.SubGroup'>", 'NoneType')),
                      ('tree:two', 'tree:sub-b',
                       ('raise', 'AssertionError', "types mismatch: <class 'ceos_alos2.hierarchy.Group'> != <class 'equiv.SubGroup'>", 'NoneType')),
                      ('tree:two', 'var',
                       ('raise', 'AssertionError', "types mismatch: <class 'ceos_alos2.hierarchy.Group'> != <class 'ceos_alos2.hierarchy.Variable'>",
                        'NoneType')),
                      ('tree:two', 'var-b',
                       ('raise', 'AssertionError', "types mismatch: <class 'ceos_alos2.hierarchy.Group'> != <class 'ceos_alos2.hierarchy.Variable'>",
                        'NoneType')),
                      ('tree:two', 'var-dims',
                       ('raise', 'AssertionError', "types mismatch: <class 'ceos_alos2.hierarchy.Group'> != <class 'ceos_alos2.hierarchy.Variable'>",
                        'NoneType')),
                      ('tree:two', 'var-attrs',
                       ('raise', 'AssertionError', "types mismatch: <class 'ceos_alos2.hierarchy.Group'> != <class 'ceos_alos2.hierarchy.Variable'>",
                        'NoneType')),
                      ('tree:two', 'var-dtype',
                       ('raise', 'AssertionError', "types mismatch: <class 'ceos_alos2.hierarchy.Group'> != <class 'ceos_alos2.hierarchy.Variable'>",
                        'NoneType')),
                      ('tree:two', 'var-array',
                       ('raise', 'AssertionError', "types mismatch: <class 'ceos_alos2.hierarchy.Group'> != <class 'ceos_alos2.hierarchy.Variable'>",
                        'NoneType')),
                      ('tree:two', 'var-array-b',
                       ('raise', 'AssertionError', "types mismatch: <class 'ceos_alos2.hierarchy.Group'> != <class 'ceos_alos2.hierarchy.Variable'>",
                        'NoneType')),
                      ('tree:two', 'subvar',
                       ('raise', 'AssertionError', "types mismatch: <class 'ceos_alos2.hierarchy.Group'> != <class 'equiv.SubVariable'>", 'NoneType')),
                      ('tree:two', 'subvar-b',
                       ('raise', 'AssertionError', "types mismatch: <class 'ceos_alos2.hierarchy.Group'> != <class 'equiv.SubVariable'>", 'NoneType')),
                      ('tree:two', 'array',
                       ('raise', 'AssertionError', "types mismatch: <class 'ceos_alos2.hierarchy.Group'> != <class 'ceos_alos2.array.Array'>", 'NoneType')),
                      ('tree:two', 'array-dtype',
                       ('raise', 'AssertionError', "types mismatch: <class 'ceos_alos2.hierarchy.Group'> != <class 'ceos_alos2.array.Array'>", 'NoneType')),
                      ('tree:two', 'array-url',
                       ('raise', 'AssertionError', "types mismatch: <class 'ceos_alos2.hierarchy.Group'> != <class 'ceos_alos2.array.Array'>", 'NoneType')),
                      ('tree:two', 'array-path',
                       ('raise', 'AssertionError', "types mismatch: <class 'ceos_alos2.hierarchy.Group'> != <class 'ceos_alos2.array.Array'>", 'NoneType')),
                      ('tree:two', 'array-file',
                       ('raise', 'AssertionError', "types mismatch: <class 'ceos_alos2.hierarchy.Group'> != <class 'ceos_alos2.array.Array'>", 'NoneType')),
                      ('tree:two', 'array-ranges',
                       ('raise', 'AssertionError', "types mismatch: <class 'ceos_alos2.hierarchy.Group'> != <class 'ceos_alos2.array.Array'>", 'NoneType')),
                      ('tree:two', 'array-rpc',
                       ('raise', 'AssertionError', "types mismatch: <class 'ceos_alos2.hierarchy.Group'> != <class 'ceos_alos2.array.Array'>", 'NoneType')),
                      ('tree:two', 'array-type-code',
                       ('raise', 'AssertionError', "types mismatch: <class 'ceos_alos2.hierarchy.Group'> != <class 'ceos_alos2.array.Array'>", 'NoneType')),
                      ('tree:two', 'subarray',
                       ('raise', 'AssertionError', "types mismatch: <class 'ceos_alos2.hierarchy.Group'> != <class 'equiv.SubArray'>", 'NoneType')),
                      ('tree:two', 'int', ('raise', 'AssertionError', "types mismatch: <class 'ceos_alos2.hierarchy.Group'> != <class 'int'>", 'NoneType')),
                      ('tree:two', 'int-b', ('raise', 'AssertionError', "types mismatch: <class 'ceos_alos2.hierarchy.Group'> != <class 'int'>", 'NoneType')),
                      ('tree:two', 'float', ('raise', 'AssertionError', "types mismatch: <class 'ceos_alos2.hierarchy.Group'> != <class 'float'>", 'NoneType')),
                      ('tree:two', 'str', ('raise', 'AssertionError', "types mismatch: <class 'ceos_alos2.hierarchy.Group'> != <class 'str'>", 'NoneType')),
                      ('tree:two', 'none',
                       ('raise', 'AssertionError', "types mismatch: <class 'ceos_alos2.hierarchy.Group'> != <class 'NoneType'>", 'NoneType')),
                      ('tree:two', 'dict', ('raise', 'AssertionError', "types mismatch: <class 'ceos_alos2.hierarchy.Group'> != <class 'dict'>", 'NoneType')),
                      ('tree:two', 'list', ('raise', 'AssertionError', "types mismatch: <class 'ceos_alos2.hierarchy.Group'> != <class 'list'>", 'NoneType')),
                      ('tree:two', 'ndarray',
                       ('raise', 'AssertionError', "types mismatch: <class 'ceos_alos2.hierarchy.Group'> != <class 'numpy.ndarray'>", 'NoneType')),
                      ('tree:two', 'ndarray-b',
                       ('raise', 'AssertionError', "types mismatch: <class 'ceos_alos2.hierarchy.Group'> != <class 'numpy.ndarray'>", 'NoneType')),
                      ('tree:two', 'np-int',
                       ('raise', 'AssertionError', "types mismatch: <class 'ceos_alos2.hierarchy.Group'> != <class 'numpy.int8'>", 'NoneType')),
                      ('tree:two', 'type',
                       ('raise', 'AssertionError', "types mismatch: <class 'ceos_alos2.hierarchy.Group'> != <class 'abc.ABCMeta'>", 'NoneType')),
                      ('tree:two', 'bool', ('raise', 'AssertionError', "types mismatch: <class 'ceos_alos2.hierarchy.Group'> != <class 'bool'>", 'NoneType')),
                      ('tree:two-b', 'tree:empty',
                       ('raise', 'AssertionError',
                        'Left and right Group objects are not equal\n'
                        '  Differing tree structure:\n'
                        '    Missing right:\n'
                        '    - /a\n'
                        '    - /a/b\n'
                        '    - /a/b/e\n'
                        '    - /f',
                        'NoneType')),
                      ('tree:two-b', 'tree:empty-url',
                       ('raise', 'AssertionError',
                        'Left and right Group objects are not equal\n'
                        '  Differing tree structure:\n'
                        '    Missing right:\n'
                        '    - /a\n'
                        '    - /a/b\n'
                        '    - /a/b/e\n'
                        '    - /f\n'
                        '  Differing groups:\n'
                        '    Group /:\n'
                        '      Differing Url:\n'
                        '      L  None\n'
                        '      R  memory://a',
                        'NoneType')),
                      ('tree:two-b', 'tree:vars',
                       ('raise', 'AssertionError',
                        'Left and right Group objects are not equal\n'
                        '  Differing tree structure:\n'
                        '    Missing right:\n'
                        '    - /a\n'
                        '    - /a/b\n'
                        '    - /a/b/e\n'
                        '    - /f\n'
                        '  Differing groups:\n'
                        '    Group /:\n'
                        '      Variables:\n'
                        '        Missing left:\n'
                        '         - v\n'
                        '         - w',
                        'NoneType')),
                      ('tree:two-b', 'tree:vars-b',
                       ('raise', 'AssertionError',
                        'Left and right Group objects are not equal\n'
                        '  Differing tree structure:\n'
                        '    Missing right:\n'
                        '    - /a\n'
                        '    - /a/b\n'
                        '    - /a/b/e\n'
                        '    - /f\n'
                        '  Differing groups:\n'
                        '    Group /:\n'
                        '      Variables:\n'
                        '        Missing left:\n'
                        '         - v\n'
                        '         - w',
                        'NoneType')),
                      ('tree:two-b', 'tree:one-a',
                       ('raise', 'AssertionError',
                        'Left and right Group objects are not equal\n'
                        '  Differing tree structure:\n'
                        '    Missing right:\n'
                        '    - /a/b\n'
                        '    - /a/b/e\n'
                        '    - /f\n'
                        '  Differing groups:\n'
                        '    Group /a:\n'
                        '      Variables:\n'
                        '        Missing right:\n'
                        '         - v',
                        'NoneType')),
                      ('tree:two-b', 'tree:two',
                       ('raise', 'AssertionError',
                        'Left and right Group objects are not equal\n'
                        '  Differing tree structure:\n'
                        '    Missing left:\n'
                        '    - /a/b/c\n'
                        '    - /d\n'
                        '    Missing right:\n'
                        '    - /a/b/e\n'
                        '    - /f\n'
                        '  Differing groups:\n'
                        '    Group /a:\n'
                        '      Variables:\n'
                        '        Differing variables:\n'
                        '           L v  (x)    int8  6\n'
                        '           R v  (x)    int8  5',
                        'NoneType')),
                      ('tree:two-b', 'tree:two-b', ('ok', 'NoneType', 'None')),
                      ('tree:two-b', 'tree:two-c',
                       ('raise', 'AssertionError',
                        'Left and right Group objects are not equal\n'
                        '  Differing tree structure:\n'
                        '    Missing left:\n'
                        '    - /a/b/c\n'
                        '    - /d\n'
                        '    Missing right:\n'
                        '    - /a/b/e\n'
                        '    - /f\n'
                        '  Differing groups:\n'
                        '    Group /:\n'
                        '      Attributes:\n'
                        '        Missing left:\n'
                        '         - top\n'
                        '    Group /a:\n'
                        '      Variables:\n'
                        '        Differing variables:\n'
                        '           L v  (x)    int8  6\n'
                        '           R v  (x)    int8  5\n'
                        '    Group /a/b:\n'
                        '      Attributes:\n'
                        '        Missing left:\n'
                        '         - m',
                        'NoneType')),
                      ('tree:two-b', 'tree:arrays',
                       ('raise', 'AssertionError',
                        'Left and right Group objects are not equal\n'
                        '  Differing tree structure:\n'
                        '    Missing right:\n'
                        '    - /a\n'
                        '    - /a/b\n'
                        '    - /a/b/e\n'
                        '    - /f\n'
                        '  Differing groups:\n'
                        '    Group /:\n'
                        '      Variables:\n'
                        '        Missing left:\n'
                        '         - data',
                        'NoneType')),
                      ('tree:two-b', 'tree:arrays-b',
                       ('raise', 'AssertionError',
                        'Left and right Group objects are not equal\n'
                        '  Differing tree structure:\n'
                        '    Missing right:\n'
                        '    - /a\n'
                        '    - /a/b\n'
                        '    - /a/b/e\n'
                        '    - /f\n'
                        '  Differing groups:\n'
                        '    Group /:\n'
                        '      Variables:\n'
                        '        Missing left:\n'
                        '         - data',
                        'NoneType')),
                      ('tree:two-b', 'tree:sub',
                       ('raise', 'AssertionError', "types mismatch: <class 'ceos_alos2.hierarchy.Group'> != <class 'equiv.SubGroup'>", 'NoneType')),
                      ('tree:two-b', 'tree:sub-b',
                       ('raise', 'AssertionError', "types mismatch: <class 'ceos_alos2.hierarchy.Group'> != <class 'equiv.SubGroup'>", 'NoneType')),
                      ('tree:two-b', 'var',
                       ('raise', 'AssertionError', "types mismatch: <class 'ceos_alos2.hierarchy.Group'> != <class 'ceos_alos2.hierarchy.Variable'>",
                        'NoneType')),
                      ('tree:two-b', 'var-b',
                       ('raise', 'AssertionError', "types mismatch: <class 'ceos_alos2.hierarchy.Group'> != <class 'ceos_alos2.hierarchy.Variable'>",
                        'NoneType')),
                      ('tree:two-b', 'var-dims',
                       ('raise', 'AssertionError', "types mismatch: <class 'ceos_alos2.hierarchy.Group'> != <class 'ceos_alos2.hierarchy.Variable'>",
                        'NoneType')),
                      ('tree:two-b', 'var-attrs',
                       ('raise', 'AssertionError', "types mismatch: <class 'ceos_alos2.hierarchy.Group'> != <class 'ceos_alos2.hierarchy.Variable'>",
                        'NoneType')),
                      ('tree:two-b', 'var-dtype',
                       ('raise', 'AssertionError', "types mismatch: <class 'ceos_alos2.hierarchy.Group'> != <class 'ceos_alos2.hierarchy.Variable'>",
                        'NoneType')),
                      ('tree:two-b', 'var-array',
                       ('raise', 'AssertionError', "types mismatch: <class 'ceos_alos2.hierarchy.Group'> != <class 'ceos_alos2.hierarchy.Variable'>",
                        'NoneType')),
                      ('tree:two-b', 'var-array-b',
                       ('raise', 'AssertionError', "types mismatch: <class 'ceos_alos2.hierarchy.Group'> != <class 'ceos_alos2.hierarchy.Variable'>",
                        'NoneType')),
                      ('tree:two-b', 'subvar',
                       ('raise', 'AssertionError', "types mismatch: <class 'ceos_alos2.hierarchy.Group'> != <class 'equiv.SubVariable'>", 'NoneType')),
                      ('tree:two-b', 'subvar-b',
                       ('raise', 'AssertionError', "types mismatch: <class 'ceos_alos2.hierarchy.Group'> != <class 'equiv.SubVariable'>", 'NoneType')),
                      ('tree:two-b', 'array',
                       ('raise', 'AssertionError', "types mismatch: <class 'ceos_alos2.hierarchy.Group'> != <class 'ceos_alos2.array.Array'>", 'NoneType')),
                      ('tree:two-b', 'array-dtype',
                       ('raise', 'AssertionError', "types mismatch: <class 'ceos_alos2.hierarchy.Group'> != <class 'ceos_alos2.array.Array'>", 'NoneType')),
                      ('tree:two-b', 'array-url',
                       ('raise', 'AssertionError', "types mismatch: <class 'ceos_alos2.hierarchy.Group'> != <class 'ceos_alos2.array.Array'>", 'NoneType')),
                      ('tree:two-b', 'array-path',
                       ('raise', 'AssertionError', "types mismatch: <class 'ceos_alos2.hierarchy.Group'> != <class 'ceos_alos2.array.Array'>", 'NoneType')),
                      ('tree:two-b', 'array-file',
                       ('raise', 'AssertionError', "types mismatch: <class 'ceos_alos2.hierarchy.Group'> != <class 'ceos_alos2.array.Array'>", 'NoneType')),
                      ('tree:two-b', 'array-ranges',
                       ('raise', 'AssertionError', "types mismatch: <class 'ceos_alos2.hierarchy.Group'> != <class 'ceos_alos2.array.Array'>", 'NoneType')),
                      ('tree:two-b', 'array-rpc',
                       ('raise', 'AssertionError', "types mismatch: <class 'ceos_alos2.hierarchy.Group'> != <class 'ceos_alos2.array.Array'>", 'NoneType')),
                      ('tree:two-b', 'array-type-code',
                       ('raise', 'AssertionError', "types mismatch: <class 'ceos_alos2.hierarchy.Group'> != <class 'ceos_alos2.array.Array'>", 'NoneType')),
                      ('tree:two-b', 'subarray',
                       ('raise', 'AssertionError', "types mismatch: <class 'ceos_alos2.hierarchy.Group'> != <class 'equiv.SubArray'>", 'NoneType')),
                      ('tree:two-b', 'int', ('raise', 'AssertionError', "types mismatch: <class 'ceos_alos2.hierarchy.Group'> != <class 'int'>", 'NoneType')),
                      ('tree:two-b', 'int-b', ('raise', 'AssertionError', "types mismatch: <class 'ceos_alos2.hierarchy.Group'> != <class 'int'>", 'NoneType')),
                      ('tree:two-b', 'float',
                       ('raise', 'AssertionError', "types mismatch: <class 'ceos_alos2.hierarchy.Group'> != <class 'float'>", 'NoneType')),
                      ('tree:two-b', 'str', ('raise', 'AssertionError', "types mismatch: <class 'ceos_alos2.hierarchy.Group'> != <class 'str'>", 'NoneType')),
                      ('tree:two-b', 'none',
                       ('raise', 'AssertionError', "types mismatch: <class 'ceos_alos2.hierarchy.Group'> != <class 'NoneType'>", 'NoneType')),
                      ('tree:two-b', 'dict', ('raise', 'AssertionError', "types mismatch: <class 'ceos_alos2.hierarchy.Group'> != <class 'dict'>", 'NoneType')),
                      ('tree:two-b', 'list', ('raise', 'AssertionError', "types mismatch: <class 'ceos_alos2.hierarchy.Group'> != <class 'list'>", 'NoneType')),
                      ('tree:two-b', 'ndarray',
                       ('raise', 'AssertionError', "types mismatch: <class 'ceos_alos2.hierarchy.Group'> != <class 'numpy.ndarray'>", 'NoneType')),
                      ('tree:two-b', 'ndarray-b',
                       ('raise', 'AssertionError', "types mismatch: <class 'ceos_alos2.hierarchy.Group'> != <class 'numpy.ndarray'>", 'NoneType')),
                      ('tree:two-b', 'np-int',
                       ('raise', 'AssertionError', "types mismatch: <class 'ceos_alos2.hierarchy.Group'> != <class 'numpy.int8'>", 'NoneType')),
                      ('tree:two-b', 'type',
                       ('raise', 'AssertionError', "types mismatch: <class 'ceos_alos2.hierarchy.Group'> != <class 'abc.ABCMeta'>", 'NoneType')),
                      ('tree:two-b', 'bool', ('raise', 'AssertionError', "types mismatch: <class 'ceos_alos2.hierarchy.Group'> != <class 'bool'>", 'NoneType')),
                      ('tree:two-c', 'tree:empty',
                       ('raise', 'AssertionError',
                        'Left and right Group objects are not equal\n'
                        '  Differing tree structure:\n'
                        '    Missing right:\n'
                        '    - /a\n'
                        '    - /a/b\n'
                        '    - /a/b/c\n'
                        '    - /d\n'
                        '  Differing groups:\n'
                        '    Group /:\n'
                        '      Attributes:\n'
                        '        Missing right:\n'
                        '         - top',
                        'NoneType')),
                      ('tree:two-c', 'tree:empty-url',
                       ('raise', 'AssertionError',
                        'Left and right Group objects are not equal\n'
                        '  Differing tree structure:\n'
                        '    Missing right:\n'
                        '    - /a\n'
                        '    - /a/b\n'
                        '    - /a/b/c\n'
                        '    - /d\n'
                        '  Differing groups:\n'
                        '    Group /:\n'
                        '      Differing Url:\n'
                        '      L  None\n'
                        '      R  memory://a\n'
                        '      Attributes:\n'
                        '        Missing right:\n'
                        '         - top',
                        'NoneType')),
                      ('tree:two-c', 'tree:vars',
                       ('raise', 'AssertionError',
                        'Left and right Group objects are not equal\n'
                        '  Differing tree structure:\n'
                        '    Missing right:\n'
                        '    - /a\n'
                        '    - /a/b\n'
                        '    - /a/b/c\n'
                        '    - /d\n'
                        '  Differing groups:\n'
                        '    Group /:\n'
                        '      Variables:\n'
                        '        Missing left:\n'
                        '         - v\n'
                        '         - w\n'
                        '      Attributes:\n'
                        '        Missing right:\n'
                        '         - top',
                        'NoneType')),
                      ('tree:two-c', 'tree:vars-b',
                       ('raise', 'AssertionError',
                        'Left and right Group objects are not equal\n'
                        '  Differing tree structure:\n'
                        '    Missing right:\n'
                        '    - /a\n'
                        '    - /a/b\n'
                        '    - /a/b/c\n'
                        '    - /d\n'
                        '  Differing groups:\n'
                        '    Group /:\n'
                        '      Variables:\n'
                        '        Missing left:\n'
                        '         - v\n'
                        '         - w\n'
                        '      Attributes:\n'
                        '        Missing right:\n'
                        '         - top',
                        'NoneType')),
                      ('tree:two-c', 'tree:one-a',
                       ('raise', 'AssertionError',
                        'Left and right Group objects are not equal\n'
                        '  Differing tree structure:\n'
                        '    Missing right:\n'
                        '    - /a/b\n'
                        '    - /a/b/c\n'
                        '    - /d\n'
                        '  Differing groups:\n'
                        '    Group /:\n'
                        '      Attributes:\n'
                        '        Missing right:\n'
                        '         - top\n'
                        '    Group /a:\n'
                        '      Variables:\n'
                        '        Missing right:\n'
                        '         - v',
                        'NoneType')),
                      ('tree:two-c', 'tree:two',
                       ('raise', 'AssertionError',
                        'Left and right Group objects are not equal\n'
                        '  Differing groups:\n'
                        '    Group /:\n'
                        '      Attributes:\n'
                        '        Missing right:\n'
                        '         - top\n'
                        '    Group /a/b:\n'
                        '      Attributes:\n'
                        '        Missing right:\n'
                        '         - m\n'
                        '    Group /a/b/c:\n'
                        '      Attributes:\n'
                        '        Missing right:\n'
                        '         - n\n'
                        '    Group /d:\n'
                        '      Variables:\n'
                        '        Missing right:\n'
                        '         - x',
                        'NoneType')),
                      ('tree:two-c', 'tree:two-b',
                       ('raise', 'AssertionError',
                        'Left and right Group objects are not equal\n'
                        '  Differing tree structure:\n'
                        '    Missing left:\n'
                        '    - /a/b/e\n'
                        '    - /f\n'
                        '    Missing right:\n'
                        '    - /a/b/c\n'
                        '    - /d\n'
                        '  Differing groups:\n'
                        '    Group /:\n'
                        '      Attributes:\n'
                        '        Missing right:\n'
                        '         - top\n'
                        '    Group /a:\n'
                        '      Variables:\n'
                        '        Differing variables:\n'
                        '           L v  (x)    int8  5\n'
                        '           R v  (x)    int8  6\n'
                        '    Group /a/b:\n'
                        '      Attributes:\n'
                        '        Missing right:\n'
                        '         - m',
                        'NoneType')),
                      ('tree:two-c', 'tree:two-c', ('ok', 'NoneType', 'None')),
                      ('tree:two-c', 'tree:arrays',
                       ('raise', 'AssertionError',
                        'Left and right Group objects are not equal\n'
                        '  Differing tree structure:\n'
                        '    Missing right:\n'
                        '    - /a\n'
                        '    - /a/b\n'
                        '    - /a/b/c\n'
                        '    - /d\n'
                        '  Differing groups:\n'
                        '    Group /:\n'
                        '      Variables:\n'
                        '        Missing left:\n'
                        '         - data\n'
                        '      Attributes:\n'
                        '        Missing right:\n'
                        '         - top',
                        'NoneType')),
                      ('tree:two-c', 'tree:arrays-b',
                       ('raise', 'AssertionError',
                        'Left and right Group objects are not equal\n'
                        '  Differing tree structure:\n'
                        '    Missing right:\n'
                        '    - /a\n'
                        '    - /a/b\n'
                        '    - /a/b/c\n'
                        '    - /d\n'
                        '  Differing groups:\n'
                        '    Group /:\n'
                        '      Variables:\n'
                        '        Missing left:\n'
                        '         - data\n'
                        '      Attributes:\n'
                        '        Missing right:\n'
                        '         - top',
                        'NoneType')),
                      ('tree:two-c', 'tree:sub',
                       ('raise', 'AssertionError', "types mismatch: <class 'ceos_alos2.hierarchy.Group'> != <class 'equiv.SubGroup'>", 'NoneType')),
                      ('tree:two-c', 'tree:sub-b',
                       ('raise', 'AssertionError', "types mismatch: <class 'ceos_alos2.hierarchy.Group'> != <class 'equiv.SubGroup'>", 'NoneType')),
                      ('tree:two-c', 'var',
                       ('raise', 'AssertionError', "types mismatch: <class 'ceos_alos2.hierarchy.Group'> != <class 'ceos_alos2.hierarchy.Variable'>",
                        'NoneType')),
                      ('tree:two-c', 'var-b',
                       ('raise', 'AssertionError', "types mismatch: <class 'ceos_alos2.hierarchy.Group'> != <class 'ceos_alos2.hierarchy.Variable'>",
                        'NoneType')),
                      ('tree:two-c', 'var-dims',
                       ('raise', 'AssertionError', "types mismatch: <class 'ceos_alos2.hierarchy.Group'> != <class 'ceos_alos2.hierarchy.Variable'>",
                        'NoneType')),
                      ('tree:two-c', 'var-attrs',
                       ('raise', 'AssertionError', "types mismatch: <class 'ceos_alos2.hierarchy.Group'> != <class 'ceos_alos2.hierarchy.Variable'>",
                        'NoneType')),
                      ('tree:two-c', 'var-dtype',
                       ('raise', 'AssertionError', "types mismatch: <class 'ceos_alos2.hierarchy.Group'> != <class 'ceos_alos2.hierarchy.Variable'>",
                        'NoneType')),
                      ('tree:two-c', 'var-array',
                       ('raise', 'AssertionError', "types mismatch: <class 'ceos_alos2.hierarchy.Group'> != <class 'ceos_alos2.hierarchy.Variable'>",
                        'NoneType')),
                      ('tree:two-c', 'var-array-b',
                       ('raise', 'AssertionError', "types mismatch: <class 'ceos_alos2.hierarchy.Group'> != <class 'ceos_alos2.hierarchy.Variable'>",
                        'NoneType')),
                      ('tree:two-c', 'subvar',
                       ('raise', 'AssertionError', "types mismatch: <class 'ceos_alos2.hierarchy.Group'> != <class 'equiv.SubVariable'>", 'NoneType')),
                      ('tree:two-c', 'subvar-b',
                       ('raise', 'AssertionError', "types mismatch: <class 'ceos_alos2.hierarchy.Group'> != <class 'equiv.SubVariable'>", 'NoneType')),
                      ('tree:two-c', 'array',
                       ('raise', 'AssertionError', "types mismatch: <class 'ceos_alos2.hierarchy.Group'> != <class 'ceos_alos2.array.Array'>", 'NoneType')),
                      ('tree:two-c', 'array-dtype',
                       ('raise', 'AssertionError', "types mismatch: <class 'ceos_alos2.hierarchy.Group'> != <class 'ceos_alos2.array.Array'>", 'NoneType')),
                      ('tree:two-c', 'array-url',
                       ('raise', 'AssertionError', "types mismatch: <class 'ceos_alos2.hierarchy.Group'> != <class 'ceos_alos2.array.Array'>", 'NoneType')),
                      ('tree:two-c', 'array-path',
                       ('raise', 'AssertionError', "types mismatch: <class 'ceos_alos2.hierarchy.Group'> != <class 'ceos_alos2.array.Array'>", 'NoneType')),
                      ('tree:two-c', 'array-file',
                       ('raise', 'AssertionError', "types mismatch: <class 'ceos_alos2.hierarchy.Group'> != <class 'ceos_alos2.array.Array'>", 'NoneType')),
                      ('tree:two-c', 'array-ranges',
                       ('raise', 'AssertionError', "types mismatch: <class 'ceos_alos2.hierarchy.Group'> != <class 'ceos_alos2.array.Array'>", 'NoneType')),
                      ('tree:two-c', 'array-rpc',
                       ('raise', 'AssertionError', "types mismatch: <class 'ceos_alos2.hierarchy.Group'> != <class 'ceos_alos2.array.Array'>", 'NoneType')),
                      ('tree:two-c', 'array-type-code',
                       ('raise', 'AssertionError', "types mismatch: <class 'ceos_alos2.hierarchy.Group'> != <class 'ceos_alos2.array.Array'>", 'NoneType')),
                      ('tree:two-c', 'subarray',
                       ('raise', 'AssertionError', "types mismatch: <class 'ceos_alos2.hierarchy.Group'> != <class 'equiv.SubArray'>", 'NoneType')),
                      ('tree:two-c', 'int', ('raise', 'AssertionError', "types mismatch: <class 'ceos_alos2.hierarchy.Group'> != <class 'int'>", 'NoneType')),
                      ('tree:two-c', 'int-b', ('raise', 'AssertionError', "types mismatch: <class 'ceos_alos2.hierarchy.Group'> != <class 'int'>", 'NoneType')),
                      ('tree:two-c', 'float',
                       ('raise', 'AssertionError', "types mismatch: <class 'ceos_alos2.hierarchy.Group'> != <class 'float'>", 'NoneType')),
                      ('tree:two-c', 'str', ('raise', 'AssertionError', "types mismatch: <class 'ceos_alos2.hierarchy.Group'> != <class 'str'>", 'NoneType')),
                      ('tree:two-c', 'none',
                       ('raise', 'AssertionError', "types mismatch: <class 'ceos_alos2.hierarchy.Group'> != <class 'NoneType'>", 'NoneType')),
                      ('tree:two-c', 'dict', ('raise', 'AssertionError', "types mismatch: <class 'ceos_alos2.hierarchy.Group'> != <class 'dict'>", 'NoneType')),
                      ('tree:two-c', 'list', ('raise', 'AssertionError', "types mismatch: <class 'ceos_alos2.hierarchy.Group'> != <class 'list'>", 'NoneType')),
                      ('tree:two-c', 'ndarray',
                       ('raise', 'AssertionError', "types mismatch: <class 'ceos_alos2.hierarchy.Group'> != <class 'numpy.ndarray'>", 'NoneType')),
                      ('tree:two-c', 'ndarray-b',
                       ('raise', 'AssertionError', "types mismatch: <class 'ceos_alos2.hierarchy.Group'> != <class 'numpy.ndarray'>", 'NoneType')),
                      ('tree:two-c', 'np-int',
                       ('raise', 'AssertionError', "types mismatch: <class 'ceos_alos2.hierarchy.Group'> != <class 'numpy.int8'>", 'NoneType')),
                      ('tree:two-c', 'type',
                       ('raise', 'AssertionError', "types mismatch: <class 'ceos_alos2.hierarchy.Group'> != <class 'abc.ABCMeta'>", 'NoneType')),
                      ('tree:two-c', 'bool', ('raise', 'AssertionError', "types mismatch: <class 'ceos_alos2.hierarchy.Group'> != <class 'bool'>", 'NoneType')),
                      ('tree:arrays', 'tree:empty',
                       ('raise', 'AssertionError',
                        'Left and right Group objects are not equal\n'
                        '  Differing groups:\n'
                        '    Group /:\n'
                        '      Variables:\n'
                        '        Missing right:\n'
                        '         - data',
                        'NoneType')),
                      ('tree:arrays', 'tree:empty-url',
                       ('raise', 'AssertionError',
                        'Left and right Group objects are not equal\n'
                        '  Differing groups:\n'
                        '    Group /:\n'
                        '      Differing Url:\n'
                        '      L  None\n'
                        '      R  memory://a\n'
                        '      Variables:\n'
                        '        Missing right:\n'
                        '         - data',
                        'NoneType')),
                      ('tree:arrays', 'tree:vars',
                       ('raise', 'AssertionError',
                        'Left and right Group objects are not equal\n'
                        '  Differing groups:\n'
                        '    Group /:\n'
                        '      Variables:\n'
                        '        Missing left:\n'
                        '         - v\n'
                        '         - w\n'
                        '        Missing right:\n'
                        '         - data',
                        'NoneType')),
                      ('tree:arrays', 'tree:vars-b',
                       ('raise', 'AssertionError',
                        'Left and right Group objects are not equal\n'
                        '  Differing groups:\n'
                        '    Group /:\n'
                        '      Variables:\n'
                        '        Missing left:\n'
                        '         - v\n'
                        '         - w\n'
                        '        Missing right:\n'
                        '         - data',
                        'NoneType')),
                      ('tree:arrays', 'tree:one-a',
                       ('raise', 'AssertionError',
                        'Left and right Group objects are not equal\n'
                        '  Differing tree structure:\n'
                        '    Missing left:\n'
                        '    - /a\n'
                        '  Differing groups:\n'
                        '    Group /:\n'
                        '      Variables:\n'
                        '        Missing right:\n'
                        '         - data',
                        'NoneType')),
                      ('tree:arrays', 'tree:two',
                       ('raise', 'AssertionError',
                        'Left and right Group objects are not equal\n'
                        '  Differing tree structure:\n'
                        '    Missing left:\n'
                        '    - /a\n'
                        '    - /a/b\n'
                        '    - /a/b/c\n'
                        '    - /d\n'
                        '  Differing groups:\n'
                        '    Group /:\n'
                        '      Variables:\n'
                        '        Missing right:\n'
                        '         - data',
                        'NoneType')),
                      ('tree:arrays', 'tree:two-b',
                       ('raise', 'AssertionError',
                        'Left and right Group objects are not equal\n'
                        '  Differing tree structure:\n'
                        '    Missing left:\n'
                        '    - /a\n'
                        '    - /a/b\n'
                        '    - /a/b/e\n'
                        '    - /f\n'
                        '  Differing groups:\n'
                        '    Group /:\n'
                        '      Variables:\n'
                        '        Missing right:\n'
                        '         - data',
                        'NoneType')),
                      ('tree:arrays', 'tree:two-c',
                       ('raise', 'AssertionError',
                        'Left and right Group objects are not equal\n'
                        '  Differing tree structure:\n'
                        '    Missing left:\n'
                        '    - /a\n'
                        '    - /a/b\n'
                        '    - /a/b/c\n'
                        '    - /d\n'
                        '  Differing groups:\n'
                        '    Group /:\n'
                        '      Variables:\n'
                        '        Missing right:\n'
                        '         - data\n'
                        '      Attributes:\n'
                        '        Missing left:\n'
                        '         - top',
                        'NoneType')),
                      ('tree:arrays', 'tree:arrays', ('ok', 'NoneType', 'None')),
                      ('tree:arrays', 'tree:arrays-b',
                       ('raise', 'AssertionError',
                        'Left and right Group objects are not equal\n'
                        '  Differing groups:\n'
                        '    Group /:\n'
                        '      Variables:\n'
                        '        Differing variables:\n'
                        '           L data  (rows, columns)    Array(shape=(4, 3), dtype=int16, rpc=2)\n'
                        '             url: memory:///path/to/file\n'
                        '           R data  (rows, columns)    Array(shape=(4, 3), dtype=int16, rpc=2)\n'
                        '             url: memory:///path/to/other',
                        'NoneType')),
                      ('tree:arrays', 'tree:sub',
                       ('raise', 'AssertionError', "types mismatch: <class 'ceos_alos2.hierarchy.Group'> != <class 'equiv.SubGroup'>", 'NoneType')),
                      ('tree:arrays', 'tree:sub-b',
                       ('raise', 'AssertionError', "types mismatch: <class 'ceos_alos2.hierarchy.Group'> != <class 'equiv.SubGroup'>", 'NoneType')),
                      ('tree:arrays', 'var',
                       ('raise', 'AssertionError', "types mismatch: <class 'ceos_alos2.hierarchy.Group'> != <class 'ceos_alos2.hierarchy.Variable'>",
                        'NoneType')),
                      ('tree:arrays', 'var-b',
                       ('raise', 'AssertionError', "types mismatch: <class 'ceos_alos2.hierarchy.Group'> != <class 'ceos_alos2.hierarchy.Variable'>",
                        'NoneType')),
                      ('tree:arrays', 'var-dims',
                       ('raise', 'AssertionError', "types mismatch: <class 'ceos_alos2.hierarchy.Group'> != <class 'ceos_alos2.hierarchy.Variable'>",
                        'NoneType')),
                      ('tree:arrays', 'var-attrs',
                       ('raise', 'AssertionError', "types mismatch: <class 'ceos_alos2.hierarchy.Group'> != <class 'ceos_alos2.hierarchy.Variable'>",
                        'NoneType')),
                      ('tree:arrays', 'var-dtype',
                       ('raise', 'AssertionError', "types mismatch: <class 'ceos_alos2.hierarchy.Group'> != <class 'ceos_alos2.hierarchy.Variable'>",
                        'NoneType')),
                      ('tree:arrays', 'var-array',
                       ('raise', 'AssertionError', "types mismatch: <class 'ceos_alos2.hierarchy.Group'> != <class 'ceos_alos2.hierarchy.Variable'>",
                        'NoneType')),
                      ('tree:arrays', 'var-array-b',
                       ('raise', 'AssertionError', "types mismatch: <class 'ceos_alos2.hierarchy.Group'> != <class 'ceos_alos2.hierarchy.Variable'>",
                        'NoneType')),
                      ('tree:arrays', 'subvar',
                       ('raise', 'AssertionError', "types mismatch: <class 'ceos_alos2.hierarchy.Group'> != <class 'equiv.SubVariable'>", 'NoneType')),
                      ('tree:arrays', 'subvar-b',
                       ('raise', 'AssertionError', "types mismatch: <class 'ceos_alos2.hierarchy.Group'> != <class 'equiv.SubVariable'>", 'NoneType')),
                      ('tree:arrays', 'array',
                       ('raise', 'AssertionError', "types mismatch: <class 'ceos_alos2.hierarchy.Group'> != <class 'ceos_alos2.array.Array'>", 'NoneType')),
                      ('tree:arrays', 'array-dtype',
                       ('raise', 'AssertionError', "types mismatch: <class 'ceos_alos2.hierarchy.Group'> != <class 'ceos_alos2.array.Array'>", 'NoneType')),
                      ('tree:arrays', 'array-url',
                       ('raise', 'AssertionError', "types mismatch: <class 'ceos_alos2.hierarchy.Group'> != <class 'ceos_alos2.array.Array'>", 'NoneType')),
                      ('tree:arrays', 'array-path',
                       ('raise', 'AssertionError', "types mismatch: <class 'ceos_alos2.hierarchy.Group'> != <class 'ceos_alos2.array.Array'>", 'NoneType')),
                      ('tree:arrays', 'array-file',
                       ('raise', 'AssertionError', "types mismatch: <class 'ceos_alos2.hierarchy.Group'> != <class 'ceos_alos2.array.Array'>", 'NoneType')),
                      ('tree:arrays', 'array-ranges',
                       ('raise', 'AssertionError', "types mismatch: <class 'ceos_alos2.hierarchy.Group'> != <class 'ceos_alos2.array.Array'>", 'NoneType')),
                      ('tree:arrays', 'array-rpc',
                       ('raise', 'AssertionError', "types mismatch: <class 'ceos_alos2.hierarchy.Group'> != <class 'ceos_alos2.array.Array'>", 'NoneType')),
                      ('tree:arrays', 'array-type-code',
                       ('raise', 'AssertionError', "types mismatch: <class 'ceos_alos2.hierarchy.Group'> != <class 'ceos_alos2.array.Array'>", 'NoneType')),
                      ('tree:arrays', 'subarray',
                       ('raise', 'AssertionError', "types mismatch: <class 'ceos_alos2.hierarchy.Group'> != <class 'equiv.SubArray'>", 'NoneType')),
                      ('tree:arrays', 'int', ('raise', 'AssertionError', "types mismatch: <class 'ceos_alos2.hierarchy.Group'> != <class 'int'>", 'NoneType')),
                      ('tree:arrays', 'int-b',
                       ('raise', 'AssertionError', "types mismatch: <class 'ceos_alos2.hierarchy.Group'> != <class 'int'>", 'NoneType')),
                      ('tree:arrays', 'float',
                       ('raise', 'AssertionError', "types mismatch: <class 'ceos_alos2.hierarchy.Group'> != <class 'float'>", 'NoneType')),
                      ('tree:arrays', 'str', ('raise', 'AssertionError', "types mismatch: <class 'ceos_alos2.hierarchy.Group'> != <class 'str'>", 'NoneType')),
                      ('tree:arrays', 'none',
                       ('raise', 'AssertionError', "types mismatch: <class 'ceos_alos2.hierarchy.Group'> != <class 'NoneType'>", 'NoneType')),
                      ('tree:arrays', 'dict',
                       ('raise', 'AssertionError', "types mismatch: <class 'ceos_alos2.hierarchy.Group'> != <class 'dict'>", 'NoneType')),
                      ('tree:arrays', 'list',
                       ('raise', 'AssertionError', "types mismatch: <class 'ceos_alos2.hierarchy.Group'> != <class 'list'>", 'NoneType')),
                      ('tree:arrays', 'ndarray',
                       ('raise', 'AssertionError', "types mismatch: <class 'ceos_alos2.hierarchy.Group'> != <class 'numpy.ndarray'>", 'NoneType')),
                      ('tree:arrays', 'ndarray-b',
                       ('raise', 'AssertionError', "types mismatch: <class 'ceos_alos2.hierarchy.Group'> != <class 'numpy.ndarray'>", 'NoneType')),
                      ('tree:arrays', 'np-int',
                       ('raise', 'AssertionError', "types mismatch: <class 'ceos_alos2.hierarchy.Group'> != <class 'numpy.int8'>", 'NoneType')),
                      ('tree:arrays', 'type',
                       ('raise', 'AssertionError', "types mismatch: <class 'ceos_alos2.hierarchy.Group'> != <class 'abc.ABCMeta'>", 'NoneType')),
                      ('tree:arrays', 'bool',
                       ('raise', 'AssertionError', "types mismatch: <class 'ceos_alos2.hierarchy.Group'> != <class 'bool'>", 'NoneType')),
                      ('tree:arrays-b', 'tree:empty',
                       ('raise', 'AssertionError',
                        'Left and right Group objects are not equal\n'
                        '  Differing groups:\n'
                        '    Group /:\n'
                        '      Variables:\n'
                        '        Missing right:\n'
                        '         - data',
                        'NoneType')),
                      ('tree:arrays-b', 'tree:empty-url',
                       ('raise', 'AssertionError',
                        'Left and right Group objects are not equal\n'
                        '  Differing groups:\n'
                        '    Group /:\n'
                        '      Differing Url:\n'
                        '      L  None\n'
                        '      R  memory://a\n'
                        '      Variables:\n'
                        '        Missing right:\n'
                        '         - data',
                        'NoneType')),
                      ('tree:arrays-b', 'tree:vars',
                       ('raise', 'AssertionError',
                        'Left and right Group objects are not equal\n'
                        '  Differing groups:\n'
                        '    Group /:\n'
                        '      Variables:\n'
                        '        Missing left:\n'
                        '         - v\n'
                        '         - w\n'
                        '        Missing right:\n'
                        '         - data',
                        'NoneType')),
                      ('tree:arrays-b', 'tree:vars-b',
                       ('raise', 'AssertionError',
                        'Left and right Group objects are not equal\n'
                        '  Differing groups:\n'
                        '    Group /:\n'
                        '      Variables:\n'
                        '        Missing left:\n'
                        '         - v\n'
                        '         - w\n'
                        '        Missing right:\n'
                        '         - data',
                        'NoneType')),
                      ('tree:arrays-b', 'tree:one-a',
                       ('raise', 'AssertionError',
                        'Left and right Group objects are not equal\n'
                        '  Differing tree structure:\n'
                        '    Missing left:\n'
                        '    - /a\n'
                        '  Differing groups:\n'
                        '    Group /:\n'
                        '      Variables:\n'
                        '        Missing right:\n'
                        '         - data',
                        'NoneType')),
                      ('tree:arrays-b', 'tree:two',
                       ('raise', 'AssertionError',
                        'Left and right Group objects are not equal\n'
                        '  Differing tree structure:\n'
                        '    Missing left:\n'
                        '    - /a\n'
                        '    - /a/b\n'
                        '    - /a/b/c\n'
                        '    - /d\n'
                        '  Differing groups:\n'
                        '    Group /:\n'
                        '      Variables:\n'
                        '        Missing right:\n'
                        '         - data',
                        'NoneType')),
                      ('tree:arrays-b', 'tree:two-b',
                       ('raise', 'AssertionError',
                        'Left and right Group objects are not equal\n'
                        '  Differing tree structure:\n'
                        '    Missing left:\n'
                        '    - /a\n'
                        '    - /a/b\n'
                        '    - /a/b/e\n'
                        '    - /f\n'
                        '  Differing groups:\n'
                        '    Group /:\n'
                        '      Variables:\n'
                        '        Missing right:\n'
                        '         - data',
                        'NoneType')),
                      ('tree:arrays-b', 'tree:two-c',
                       ('raise', 'AssertionError',
                        'Left and right Group objects are not equal\n'
                        '  Differing tree structure:\n'
                        '    Missing left:\n'
                        '    - /a\n'
                        '    - /a/b\n'
                        '    - /a/b/c\n'
                        '    - /d\n'
                        '  Differing groups:\n'
                        '    Group /:\n'
                        '      Variables:\n'
                        '        Missing right:\n'
                        '         - data\n'
                        '      Attributes:\n'
                        '        Missing left:\n'
                        '         - top',
                        'NoneType')),
                      ('tree:arrays-b', 'tree:arrays',
                       ('raise', 'AssertionError',
                        'Left and right Group objects are not equal\n'
                        '  Differing groups:\n'
                        '    Group /:\n'
                        '      Variables:\n'
                        '        Differing variables:\n'
                        '           L data  (rows, columns)    Array(shape=(4, 3), dtype=int16, rpc=2)\n'
                        '             url: memory:///path/to/other\n'
                        '           R data  (rows, columns)    Array(shape=(4, 3), dtype=int16, rpc=2)\n'
                        '             url: memory:///path/to/file',
                        'NoneType')),
                      ('tree:arrays-b', 'tree:arrays-b', ('ok', 'NoneType', 'None')),
                      ('tree:arrays-b', 'tree:sub',
                       ('raise', 'AssertionError', "types mismatch: <class 'ceos_alos2.hierarchy.Group'> != <class 'equiv.SubGroup'>", 'NoneType')),
                      ('tree:arrays-b', 'tree:sub-b',
                       ('raise', 'AssertionError', "types mismatch: <class 'ceos_alos2.hierarchy.Group'> != <class 'equiv.SubGroup'>", 'NoneType')),
                      ('tree:arrays-b', 'var',
                       ('raise', 'AssertionError', "types mismatch: <class 'ceos_alos2.hierarchy.Group'> != <class 'ceos_alos2.hierarchy.Variable'>",
                        'NoneType')),
                      ('tree:arrays-b', 'var-b',
                       ('raise', 'AssertionError', "types mismatch: <class 'ceos_alos2.hierarchy.Group'> != <class 'ceos_alos2.hierarchy.Variable'>",
                        'NoneType')),
                      ('tree:arrays-b', 'var-dims',
                       ('raise', 'AssertionError', "types mismatch: <class 'ceos_alos2.hierarchy.Group'> != <class 'ceos_alos2.hierarchy.Variable'>",
                        'NoneType')),
                      ('tree:arrays-b', 'var-attrs',
                       ('raise', 'AssertionError', "types mismatch: <class 'ceos_alos2.hierarchy.Group'> != <class 'ceos_alos2.hierarchy.Variable'>",
                        'NoneType')),
                      ('tree:arrays-b', 'var-dtype',
                       ('raise', 'AssertionError', "types mismatch: <class 'ceos_alos2.hierarchy.Group'> != <class 'ceos_alos2.hierarchy.Variable'>",
                        'NoneType')),
                      ('tree:arrays-b', 'var-array',
                       ('raise', 'AssertionError', "types mismatch: <class 'ceos_alos2.hierarchy.Group'> != <class 'ceos_alos2.hierarchy.Variable'>",
                        'NoneType')),
                      ('tree:arrays-b', 'var-array-b',
                       ('raise', 'AssertionError', "types mismatch: <class 'ceos_alos2.hierarchy.Group'> != <class 'ceos_alos2.hierarchy.Variable'>",
                        'NoneType')),
                      ('tree:arrays-b', 'subvar',
                       ('raise', 'AssertionError', "types mismatch: <class 'ceos_alos2.hierarchy.Group'> != <class 'equiv.SubVariable'>", 'NoneType')),
                      ('tree:arrays-b', 'subvar-b',
                       ('raise', 'AssertionError', "types mismatch: <class 'ceos_alos2.hierarchy.Group'> != <class 'equiv.SubVariable'>", 'NoneType')),
                      ('tree:arrays-b', 'array',
                       ('raise', 'AssertionError', "types mismatch: <class 'ceos_alos2.hierarchy.Group'> != <class 'ceos_alos2.array.Array'>", 'NoneType')),
                      ('tree:arrays-b', 'array-dtype',
                       ('raise', 'AssertionError', "types mismatch: <class 'ceos_alos2.hierarchy.Group'> != <class 'ceos_alos2.array.Array'>", 'NoneType')),
                      ('tree:arrays-b', 'array-url',
                       ('raise', 'AssertionError', "types mismatch: <class 'ceos_alos2.hierarchy.Group'> != <class 'ceos_alos2.array.Array'>", 'NoneType')),
                      ('tree:arrays-b', 'array-path',
                       ('raise', 'AssertionError', "types mismatch: <class 'ceos_alos2.hierarchy.Group'> != <class 'ceos_alos2.array.Array'>", 'NoneType')),
                      ('tree:arrays-b', 'array-file',
                       ('raise', 'AssertionError', "types mismatch: <class 'ceos_alos2.hierarchy.Group'> != <class 'ceos_alos2.array.Array'>", 'NoneType')),
                      ('tree:arrays-b', 'array-ranges',
                       ('raise', 'AssertionError', "types mismatch: <class 'ceos_alos2.hierarchy.Group'> != <class 'ceos_alos2.array.Array'>", 'NoneType')),
                      ('tree:arrays-b', 'array-rpc',
                       ('raise', 'AssertionError', "types mismatch: <class 'ceos_alos2.hierarchy.Group'> != <class 'ceos_alos2.array.Array'>", 'NoneType')),
                      ('tree:arrays-b', 'array-type-code',
                       ('raise', 'AssertionError', "types mismatch: <class 'ceos_alos2.hierarchy.Group'> != <class 'ceos_alos2.array.Array'>", 'NoneType')),
                      ('tree:arrays-b', 'subarray',
                       ('raise', 'AssertionError', "types mismatch: <class 'ceos_alos2.hierarchy.Group'> != <class 'equiv.SubArray'>", 'NoneType')),
                      ('tree:arrays-b', 'int',
                       ('raise', 'AssertionError', "types mismatch: <class 'ceos_alos2.hierarchy.Group'> != <class 'int'>", 'NoneType')),
                      ('tree:arrays-b', 'int-b',
                       ('raise', 'AssertionError', "types mismatch: <class 'ceos_alos2.hierarchy.Group'> != <class 'int'>", 'NoneType')),
                      ('tree:arrays-b', 'float',
                       ('raise', 'AssertionError', "types mismatch: <class 'ceos_alos2.hierarchy.Group'> != <class 'float'>", 'NoneType')),
                      ('tree:arrays-b', 'str',
                       ('raise', 'AssertionError', "types mismatch: <class 'ceos_alos2.hierarchy.Group'> != <class 'str'>", 'NoneType')),
                      ('tree:arrays-b', 'none',
                       ('raise', 'AssertionError', "types mismatch: <class 'ceos_alos2.hierarchy.Group'> != <class 'NoneType'>", 'NoneType')),
                      ('tree:arrays-b', 'dict',
                       ('raise', 'AssertionError', "types mismatch: <class 'ceos_alos2.hierarchy.Group'> != <class 'dict'>", 'NoneType')),
                      ('tree:arrays-b', 'list',
                       ('raise', 'AssertionError', "types mismatch: <class 'ceos_alos2.hierarchy.Group'> != <class 'list'>", 'NoneType')),
                      ('tree:arrays-b', 'ndarray',
                       ('raise', 'AssertionError', "types mismatch: <class 'ceos_alos2.hierarchy.Group'> != <class 'numpy.ndarray'>", 'NoneType')),
                      ('tree:arrays-b', 'ndarray-b',
                       ('raise', 'AssertionError', "types mismatch: <class 'ceos_alos2.hierarchy.Group'> != <class 'numpy.ndarray'>", 'NoneType')),
                      ('tree:arrays-b', 'np-int',
                       ('raise', 'AssertionError', "types mismatch: <class 'ceos_alos2.hierarchy.Group'> != <class 'numpy.int8'>", 'NoneType')),
                      ('tree:arrays-b', 'type',
                       ('raise', 'AssertionError', "types mismatch: <class 'ceos_alos2.hierarchy.Group'> != <class 'abc.ABCMeta'>", 'NoneType')),
                      ('tree:arrays-b', 'bool',
                       ('raise', 'AssertionError', "types mismatch: <class 'ceos_alos2.hierarchy.Group'> != <class 'bool'>", 'NoneType')),
                      ('tree:sub', 'tree:empty',
                       ('raise', 'AssertionError', "types mismatch: <class 'equiv.SubGroup'> != <class 'ceos_alos2.hierarchy.Group'>", 'NoneType')),
                      ('tree:sub', 'tree:empty-url',
                       ('raise', 'AssertionError', "types mismatch: <class 'equiv.SubGroup'> != <class 'ceos_alos2.hierarchy.Group'>", 'NoneType')),
                      ('tree:sub', 'tree:vars',
                       ('raise', 'AssertionError', "types mismatch: <class 'equiv.SubGroup'> != <class 'ceos_alos2.hierarchy.Group'>", 'NoneType')),
                      ('tree:sub', 'tree:vars-b',
                       ('raise', 'AssertionError', "types mismatch: <class 'equiv.SubGroup'> != <class 'ceos_alos2.hierarchy.Group'>", 'NoneType')),
                      ('tree:sub', 'tree:one-a',
                       ('raise', 'AssertionError', "types mismatch: <class 'equiv.SubGroup'> != <class 'ceos_alos2.hierarchy.Group'>", 'NoneType')),
                      ('tree:sub', 'tree:two',
                       ('raise', 'AssertionError', "types mismatch: <class 'equiv.SubGroup'> != <class 'ceos_alos2.hierarchy.Group'>", 'NoneType')),
                      ('tree:sub', 'tree:two-b',
                       ('raise', 'AssertionError', "types mismatch: <class 'equiv.SubGroup'> != <class 'ceos_alos2.hierarchy.Group'>", 'NoneType')),
                      ('tree:sub', 'tree:two-c',
                       ('raise', 'AssertionError', "types mismatch: <class 'equiv.SubGroup'> != <class 'ceos_alos2.hierarchy.Group'>", 'NoneType')),
                      ('tree:sub', 'tree:arrays',
                       ('raise', 'AssertionError', "types mismatch: <class 'equiv.SubGroup'> != <class 'ceos_alos2.hierarchy.Group'>", 'NoneType')),
                      ('tree:sub', 'tree:arrays-b',
                       ('raise', 'AssertionError', "types mismatch: <class 'equiv.SubGroup'> != <class 'ceos_alos2.hierarchy.Group'>", 'NoneType')),
                      ('tree:sub', 'tree:sub', ('ok', 'NoneType', 'None')),
                      ('tree:sub', 'tree:sub-b',
                       ('raise', 'AssertionError',
                        'Left and right Group objects are not equal\n'
                        '  Differing groups:\n'
                        '    Group /a:\n'
                        '      Attributes:\n'
                        '        Missing left:\n'
                        '         - q',
                        'NoneType')),
                      ('tree:sub', 'var',
                       ('raise', 'AssertionError', "types mismatch: <class 'equiv.SubGroup'> != <class 'ceos_alos2.hierarchy.Variable'>", 'NoneType')),
                      ('tree:sub', 'var-b',
                       ('raise', 'AssertionError', "types mismatch: <class 'equiv.SubGroup'> != <class 'ceos_alos2.hierarchy.Variable'>", 'NoneType')),
                      ('tree:sub', 'var-dims',
                       ('raise', 'AssertionError', "types mismatch: <class 'equiv.SubGroup'> != <class 'ceos_alos2.hierarchy.Variable'>", 'NoneType')),
                      ('tree:sub', 'var-attrs',
                       ('raise', 'AssertionError', "types mismatch: <class 'equiv.SubGroup'> != <class 'ceos_alos2.hierarchy.Variable'>", 'NoneType')),
                      ('tree:sub', 'var-dtype',
                       ('raise', 'AssertionError', "types mismatch: <class 'equiv.SubGroup'> != <class 'ceos_alos2.hierarchy.Variable'>", 'NoneType')),
                      ('tree:sub', 'var-array',
                       ('raise', 'AssertionError', "types mismatch: <class 'equiv.SubGroup'> != <class 'ceos_alos2.hierarchy.Variable'>", 'NoneType')),
                      ('tree:sub', 'var-array-b',
                       ('raise', 'AssertionError', "types mismatch: <class 'equiv.SubGroup'> != <class 'ceos_alos2.hierarchy.Variable'>", 'NoneType')),
                      ('tree:sub', 'subvar',
                       ('raise', 'AssertionError', "types mismatch: <class 'equiv.SubGroup'> != <class 'equiv.SubVariable'>", 'NoneType')),
                      ('tree:sub', 'subvar-b',
                       ('raise', 'AssertionError', "types mismatch: <class 'equiv.SubGroup'> != <class 'equiv.SubVariable'>", 'NoneType')),
                      ('tree:sub', 'array',
                       ('raise', 'AssertionError', "types mismatch: <class 'equiv.SubGroup'> != <class 'ceos_alos2.array.Array'>", 'NoneType')),
                      ('tree:sub', 'array-dtype',
                       ('raise', 'AssertionError', "types mismatch: <class 'equiv.SubGroup'> != <class 'ceos_alos2.array.Array'>", 'NoneType')),
                      ('tree:sub', 'array-url',
                       ('raise', 'AssertionError', "types mismatch: <class 'equiv.SubGroup'> != <class 'ceos_alos2.array.Array'>", 'NoneType')),
                      ('tree:sub', 'array-path',
                       ('raise', 'AssertionError', "types mismatch: <class 'equiv.SubGroup'> != <class 'ceos_alos2.array.Array'>", 'NoneType')),
                      ('tree:sub', 'array-file',
                       ('raise', 'AssertionError', "types mismatch: <class 'equiv.SubGroup'> != <class 'ceos_alos2.array.Array'>", 'NoneType')),
                      ('tree:sub', 'array-ranges',
                       ('raise', 'AssertionError', "types mismatch: <class 'equiv.SubGroup'> != <class 'ceos_alos2.array.Array'>", 'NoneType')),
                      ('tree:sub', 'array-rpc',
                       ('raise', 'AssertionError', "types mismatch: <class 'equiv.SubGroup'> != <class 'ceos_alos2.array.Array'>", 'NoneType')),
                      ('tree:sub', 'array-type-code',
                       ('raise', 'AssertionError', "types mismatch: <class 'equiv.SubGroup'> != <class 'ceos_alos2.array.Array'>", 'NoneType')),
                      ('tree:sub', 'subarray', ('raise', 'AssertionError', "types mismatch: <class 'equiv.SubGroup'> != <class 'equiv.SubArray'>", 'NoneType')),
                      ('tree:sub', 'int', ('raise', 'AssertionError', "types mismatch: <class 'equiv.SubGroup'> != <class 'int'>", 'NoneType')),
                      ('tree:sub', 'int-b', ('raise', 'AssertionError', "types mismatch: <class 'equiv.SubGroup'> != <class 'int'>", 'NoneType')),
                      ('tree:sub', 'float', ('raise', 'AssertionError', "types mismatch: <class 'equiv.SubGroup'> != <class 'float'>", 'NoneType')),
                      ('tree:sub', 'str', ('raise', 'AssertionError', "types mismatch: <class 'equiv.SubGroup'> != <class 'str'>", 'NoneType')),
                      ('tree:sub', 'none', ('raise', 'AssertionError', "types mismatch: <class 'equiv.SubGroup'> != <class 'NoneType'>", 'NoneType')),
                      ('tree:sub', 'dict', ('raise', 'AssertionError', "types mismatch: <class 'equiv.SubGroup'> != <class 'dict'>", 'NoneType')),
                      ('tree:sub', 'list', ('raise', 'AssertionError', "types mismatch: <class 'equiv.SubGroup'> != <class 'list'>", 'NoneType')),
                      ('tree:sub', 'ndarray', ('raise', 'AssertionError', "types mismatch: <class 'equiv.SubGroup'> != <class 'numpy.ndarray'>", 'NoneType')),
                      ('tree:sub', 'ndarray-b', ('raise', 'AssertionError', "types mismatch: <class 'equiv.SubGroup'> != <class 'numpy.ndarray'>", 'NoneType')),
                      ('tree:sub', 'np-int', ('raise', 'AssertionError', "types mismatch: <class 'equiv.SubGroup'> != <class 'numpy.int8'>", 'NoneType')),
                      ('tree:sub', 'type', ('raise', 'AssertionError', "types mismatch: <class 'equiv.SubGroup'> != <class 'abc.ABCMeta'>", 'NoneType')),
                      ('tree:sub', 'bool', ('raise', 'AssertionError', "types mismatch: <class 'equiv.SubGroup'> != <class 'bool'>", 'NoneType')),
                      ('tree:sub-b', 'tree:empty',
                       ('raise', 'AssertionError', "types mismatch: <class 'equiv.SubGroup'> != <class 'ceos_alos2.hierarchy.Group'>", 'NoneType')),
                      ('tree:sub-b', 'tree:empty-url',
                       ('raise', 'AssertionError', "types mismatch: <class 'equiv.SubGroup'> != <class 'ceos_alos2.hierarchy.Group'>", 'NoneType')),
                      ('tree:sub-b', 'tree:vars',
                       ('raise', 'AssertionError', "types mismatch: <class 'equiv.SubGroup'> != <class 'ceos_alos2.hierarchy.Group'>", 'NoneType')),
                      ('tree:sub-b', 'tree:vars-b',
                       ('raise', 'AssertionError', "types mismatch: <class 'equiv.SubGroup'> != <class 'ceos_alos2.hierarchy.Group'>", 'NoneType')),
                      ('tree:sub-b', 'tree:one-a',
                       ('raise', 'AssertionError', "types mismatch: <class 'equiv.SubGroup'> != <class 'ceos_alos2.hierarchy.Group'>", 'NoneType')),
                      ('tree:sub-b', 'tree:two',
                       ('raise', 'AssertionError', "types mismatch: <class 'equiv.SubGroup'> != <class 'ceos_alos2.hierarchy.Group'>", 'NoneType')),
                      ('tree:sub-b', 'tree:two-b',
                       ('raise', 'AssertionError', "types mismatch: <class 'equiv.SubGroup'> != <class 'ceos_alos2.hierarchy.Group'>", 'NoneType')),
                      ('tree:sub-b', 'tree:two-c',
                       ('raise', 'AssertionError', "types mismatch: <class 'equiv.SubGroup'> != <class 'ceos_alos2.hierarchy.Group'>", 'NoneType')),
                      ('tree:sub-b', 'tree:arrays',
                       ('raise', 'AssertionError', "types mismatch: <class 'equiv.SubGroup'> != <class 'ceos_alos2.hierarchy.Group'>", 'NoneType')),
                      ('tree:sub-b', 'tree:arrays-b',
                       ('raise', 'AssertionError', "types mismatch: <class 'equiv.SubGroup'> != <class 'ceos_alos2.hierarchy.Group'>", 'NoneType')),
                      ('tree:sub-b', 'tree:sub',
                       ('raise', 'AssertionError',
                        'Left and right Group objects are not equal\n'
                        '  Differing groups:\n'
                        '    Group /a:\n'
                        '      Attributes:\n'
                        '        Missing right:\n'
                        '         - q',
                        'NoneType')),
                      ('tree:sub-b', 'tree:sub-b', ('ok', 'NoneType', 'None')),
                      ('tree:sub-b', 'var',
                       ('raise', 'AssertionError', "types mismatch: <class 'equiv.SubGroup'> != <class 'ceos_alos2.hierarchy.Variable'>", 'NoneType')),
                      ('tree:sub-b', 'var-b',
                       ('raise', 'AssertionError', "types mismatch: <class 'equiv.SubGroup'> != <class 'ceos_alos2.hierarchy.Variable'>", 'NoneType')),
                      ('tree:sub-b', 'var-dims',
                       ('raise', 'AssertionError', "types mismatch: <class 'equiv.SubGroup'> != <class 'ceos_alos2.hierarchy.Variable'>", 'NoneType')),
                      ('tree:sub-b', 'var-attrs',
                       ('raise', 'AssertionError', "types mismatch: <class 'equiv.SubGroup'> != <class 'ceos_alos2.hierarchy.Variable'>", 'NoneType')),
                      ('tree:sub-b', 'var-dtype',
                       ('raise', 'AssertionError', "types mismatch: <class 'equiv.SubGroup'> != <class 'ceos_alos2.hierarchy.Variable'>", 'NoneType')),
                      ('tree:sub-b', 'var-array',
                       ('raise', 'AssertionError', "types mismatch: <class 'equiv.SubGroup'> != <class 'ceos_alos2.hierarchy.Variable'>", 'NoneType')),
                      ('tree:sub-b', 'var-array-b',
                       ('raise', 'AssertionError', "types mismatch: <class 'equiv.SubGroup'> != <class 'ceos_alos2.hierarchy.Variable'>", 'NoneType')),
                      ('tree:sub-b', 'subvar',
                       ('raise', 'AssertionError', "types mismatch: <class 'equiv.SubGroup'> != <class 'equiv.SubVariable'>", 'NoneType')),
                      ('tree:sub-b', 'subvar-b',
                       ('raise', 'AssertionError', "types mismatch: <class 'equiv.SubGroup'> != <class 'equiv.SubVariable'>", 'NoneType')),
                      ('tree:sub-b', 'array',
                       ('raise', 'AssertionError', "types mismatch: <class 'equiv.SubGroup'> != <class 'ceos_alos2.array.Array'>", 'NoneType')),
                      ('tree:sub-b', 'array-dtype',
                       ('raise', 'AssertionError', "types mismatch: <class 'equiv.SubGroup'> != <class 'ceos_alos2.array.Array'>", 'NoneType')),
                      ('tree:sub-b', 'array-url',
                       ('raise', 'AssertionError', "types mismatch: <class 'equiv.SubGroup'> != <class 'ceos_alos2.array.Array'>", 'NoneType')),
                      ('tree:sub-b', 'array-path',
                       ('raise', 'AssertionError', "types mismatch: <class 'equiv.SubGroup'> != <class 'ceos_alos2.array.Array'>", 'NoneType')),
                      ('tree:sub-b', 'array-file',
                       ('raise', 'AssertionError', "types mismatch: <class 'equiv.SubGroup'> != <class 'ceos_alos2.array.Array'>", 'NoneType')),
                      ('tree:sub-b', 'array-ranges',
                       ('raise', 'AssertionError', "types mismatch: <class 'equiv.SubGroup'> != <class 'ceos_alos2.array.Array'>", 'NoneType')),
                      ('tree:sub-b', 'array-rpc',
                       ('raise', 'AssertionError', "types mismatch: <class 'equiv.SubGroup'> != <class 'ceos_alos2.array.Array'>", 'NoneType')),
                      ('tree:sub-b', 'array-type-code',
                       ('raise', 'AssertionError', "types mismatch: <class 'equiv.SubGroup'> != <class 'ceos_alos2.array.Array'>", 'NoneType')),
                      ('tree:sub-b', 'subarray',
                       ('raise', 'AssertionError', "types mismatch: <class 'equiv.SubGroup'> != <class 'equiv.SubArray'>", 'NoneType')),
                      ('tree:sub-b', 'int', ('raise', 'AssertionError', "types mismatch: <class 'equiv.SubGroup'> != <class 'int'>", 'NoneType')),
                      ('tree:sub-b', 'int-b', ('raise', 'AssertionError', "types mismatch: <class 'equiv.SubGroup'> != <class 'int'>", 'NoneType')),
                      ('tree:sub-b', 'float', ('raise', 'AssertionError', "types mismatch: <class 'equiv.SubGroup'> != <class 'float'>", 'NoneType')),
                      ('tree:sub-b', 'str', ('raise', 'AssertionError', "types mismatch: <class 'equiv.SubGroup'> != <class 'str'>", 'NoneType')),
                      ('tree:sub-b', 'none', ('raise', 'AssertionError', "types mismatch: <class 'equiv.SubGroup'> != <class 'NoneType'>", 'NoneType')),
                      ('tree:sub-b', 'dict', ('raise', 'AssertionError', "types mismatch: <class 'equiv.SubGroup'> != <class 'dict'>", 'NoneType')),
                      ('tree:sub-b', 'list', ('raise', 'AssertionError', "types mismatch: <class 'equiv.SubGroup'> != <class 'list'>", 'NoneType')),
                      ('tree:sub-b', 'ndarray', ('raise', 'AssertionError', "types mismatch: <class 'equiv.SubGroup'> != <class 'numpy.ndarray'>", 'NoneType')),
                      ('tree:sub-b', 'ndarray-b',
                       ('raise', 'AssertionError', "types mismatch: <class 'equiv.SubGroup'> != <class 'numpy.ndarray'>", 'NoneType')),
                      ('tree:sub-b', 'np-int', ('raise', 'AssertionError', "types mismatch: <class 'equiv.SubGroup'> != <class 'numpy.int8'>", 'NoneType')),
                      ('tree:sub-b', 'type', ('raise', 'AssertionError', "types mismatch: <class 'equiv.SubGroup'> != <class 'abc.ABCMeta'>", 'NoneType')),
                      ('tree:sub-b', 'bool', ('raise', 'AssertionError', "types mismatch: <class 'equiv.SubGroup'> != <class 'bool'>", 'NoneType')),
                      ('var', 'tree:empty',
                       ('raise', 'AssertionError', "types mismatch: <class 'ceos_alos2.hierarchy.Variable'> != <class 'ceos_alos2.hierarchy.Group'>",
                        'NoneType')),
                      ('var', 'tree:empty-url',
                       ('raise', 'AssertionError', "types mismatch: <class 'ceos_alos2.hierarchy.Variable'> != <class 'ceos_alos2.hierarchy.Group'>",
                        'NoneType')),
                      ('var', 'tree:vars',
                       ('raise', 'AssertionError', "types mismatch: <class 'ceos_alos2.hierarchy.Variable'> != <class 'ceos_alos2.hierarchy.Group'>",
                        'NoneType')),
                      ('var', 'tree:vars-b',
                       ('raise', 'AssertionError', "types mismatch: <class 'ceos_alos2.hierarchy.Variable'> != <class 'ceos_alos2.hierarchy.Group'>",
                        'NoneType')),
                      ('var', 'tree:one-a',
                       ('raise', 'AssertionError', "types mismatch: <class 'ceos_alos2.hierarchy.Variable'> != <class 'ceos_alos2.hierarchy.Group'>",
                        'NoneType')),
                      ('var', 'tree:two',
                       ('raise', 'AssertionError', "types mismatch: <class 'ceos_alos2.hierarchy.Variable'> != <class 'ceos_alos2.hierarchy.Group'>",
                        'NoneType')),
                      ('var', 'tree:two-b',
                       ('raise', 'AssertionError', "types mismatch: <class 'ceos_alos2.hierarchy.Variable'> != <class 'ceos_alos2.hierarchy.Group'>",
                        'NoneType')),
                      ('var', 'tree:two-c',
                       ('raise', 'AssertionError', "types mismatch: <class 'ceos_alos2.hierarchy.Variable'> != <class 'ceos_alos2.hierarchy.Group'>",
                        'NoneType')),
                      ('var', 'tree:arrays',
                       ('raise', 'AssertionError', "types mismatch: <class 'ceos_alos2.hierarchy.Variable'> != <class 'ceos_alos2.hierarchy.Group'>",
                        'NoneType')),
                      ('var', 'tree:arrays-b',
                       ('raise', 'AssertionError', "types mismatch: <class 'ceos_alos2.hierarchy.Variable'> != <class 'ceos_alos2.hierarchy.Group'>",
                        'NoneType')),
                      ('var', 'tree:sub',
                       ('raise', 'AssertionError', "types mismatch: <class 'ceos_alos2.hierarchy.Variable'> != <class 'equiv.SubGroup'>", 'NoneType')),
                      ('var', 'tree:sub-b',
                       ('raise', 'AssertionError', "types mismatch: <class 'ceos_alos2.hierarchy.Variable'> != <class 'equiv.SubGroup'>", 'NoneType')),
                      ('var', 'var', ('ok', 'NoneType', 'None')),
                      ('var', 'var-b',
                       ('raise', 'AssertionError', 'Left and right Variable objects are not equal\n  Differing data:\n      L int8  1\n      R int8  2',
                        'NoneType')),
                      ('var', 'var-dims',
                       ('raise', 'AssertionError', 'Left and right Variable objects are not equal\n  Differing dimensions:\n    (x: 1) != (y: 1)', 'NoneType')),
                      ('var', 'var-attrs',
                       ('raise', 'AssertionError', 'Left and right Variable objects are not equal\n  Attributes:\n    Missing left:\n     - a', 'NoneType')),
                      ('var', 'var-dtype', ('ok', 'NoneType', 'None')),
                      ('var', 'var-array',
                       ('raise', 'AssertionError',
                        'Left and right Variable objects are not equal\n'
                        '  Differing dimensions:\n'
                        '    (x: 1) != (rows: 4, columns: 3)\n'
                        '  Differing data types:\n'
                        "    L <class 'numpy.ndarray'>\n"
                        "    R <class 'ceos_alos2.array.Array'>",
                        'NoneType')),
                      ('var', 'var-array-b',
                       ('raise', 'AssertionError',
                        'Left and right Variable objects are not equal\n'
                        '  Differing dimensions:\n'
                        '    (x: 1) != (rows: 4, columns: 2)\n'
                        '  Differing data types:\n'
                        "    L <class 'numpy.ndarray'>\n"
                        "    R <class 'ceos_alos2.array.Array'>\n"
                        '  Attributes:\n'
                        '    Missing left:\n'
                        '     - a',
                        'NoneType')),
                      ('var', 'subvar',
                       ('raise', 'AssertionError', "types mismatch: <class 'ceos_alos2.hierarchy.Variable'> != <class 'equiv.SubVariable'>", 'NoneType')),
                      ('var', 'subvar-b',
                       ('raise', 'AssertionError', "types mismatch: <class 'ceos_alos2.hierarchy.Variable'> != <class 'equiv.SubVariable'>", 'NoneType')),
                      ('var', 'array',
                       ('raise', 'AssertionError', "types mismatch: <class 'ceos_alos2.hierarchy.Variable'> != <class 'ceos_alos2.array.Array'>", 'NoneType')),
                      ('var', 'array-dtype',
                       ('raise', 'AssertionError', "types mismatch: <class 'ceos_alos2.hierarchy.Variable'> != <class 'ceos_alos2.array.Array'>", 'NoneType')),
                      ('var', 'array-url',
                       ('raise', 'AssertionError', "types mismatch: <class 'ceos_alos2.hierarchy.Variable'> != <class 'ceos_alos2.array.Array'>", 'NoneType')),
                      ('var', 'array-path',
                       ('raise', 'AssertionError', "types mismatch: <class 'ceos_alos2.hierarchy.Variable'> != <class 'ceos_alos2.array.Array'>", 'NoneType')),
                      ('var', 'array-file',
                       ('raise', 'AssertionError', "types mismatch: <class 'ceos_alos2.hierarchy.Variable'> != <class 'ceos_alos2.array.Array'>", 'NoneType')),
                      ('var', 'array-ranges',
                       ('raise', 'AssertionError', "types mismatch: <class 'ceos_alos2.hierarchy.Variable'> != <class 'ceos_alos2.array.Array'>", 'NoneType')),
                      ('var', 'array-rpc',
                       ('raise', 'AssertionError', "types mismatch: <class 'ceos_alos2.hierarchy.Variable'> != <class 'ceos_alos2.array.Array'>", 'NoneType')),
                      ('var', 'array-type-code',
                       ('raise', 'AssertionError', "types mismatch: <class 'ceos_alos2.hierarchy.Variable'> != <class 'ceos_alos2.array.Array'>", 'NoneType')),
                      ('var', 'subarray',
                       ('raise', 'AssertionError', "types mismatch: <class 'ceos_alos2.hierarchy.Variable'> != <class 'equiv.SubArray'>", 'NoneType')),
                      ('var', 'int', ('raise', 'AssertionError', "types mismatch: <class 'ceos_alos2.hierarchy.Variable'> != <class 'int'>", 'NoneType')),
                      ('var', 'int-b', ('raise', 'AssertionError', "types mismatch: <class 'ceos_alos2.hierarchy.Variable'> != <class 'int'>", 'NoneType')),
                      ('var', 'float', ('raise', 'AssertionError', "types mismatch: <class 'ceos_alos2.hierarchy.Variable'> != <class 'float'>", 'NoneType')),
                      ('var', 'str', ('raise', 'AssertionError', "types mismatch: <class 'ceos_alos2.hierarchy.Variable'> != <class 'str'>", 'NoneType')),
                      ('var', 'none', ('raise', 'AssertionError', "types mismatch: <class 'ceos_alos2.hierarchy.Variable'> != <class 'NoneType'>", 'NoneType')),
                      ('var', 'dict', ('raise', 'AssertionError', "types mismatch: <class 'ceos_alos2.hierarchy.Variable'> != <class 'dict'>", 'NoneType')),
                      ('var', 'list', ('raise', 'AssertionError', "types mismatch: <class 'ceos_alos2.hierarchy.Variable'> != <class 'list'>", 'NoneType')),
                      ('var', 'ndarray',
                       ('raise', 'AssertionError', "types mismatch: <class 'ceos_alos2.hierarchy.Variable'> != <class 'numpy.ndarray'>", 'NoneType')),
                      ('var', 'ndarray-b',
                       ('raise', 'AssertionError', "types mismatch: <class 'ceos_alos2.hierarchy.Variable'> != <class 'numpy.ndarray'>", 'NoneType')),
                      ('var', 'np-int',
                       ('raise', 'AssertionError', "types mismatch: <class 'ceos_alos2.hierarchy.Variable'> != <class 'numpy.int8'>", 'NoneType')),
                      ('var', 'type',
                       ('raise', 'AssertionError', "types mismatch: <class 'ceos_alos2.hierarchy.Variable'> != <class 'abc.ABCMeta'>", 'NoneType')),
                      ('var', 'bool', ('raise', 'AssertionError', "types mismatch: <class 'ceos_alos2.hierarchy.Variable'> != <class 'bool'>", 'NoneType')),
                      ('var-b', 'tree:empty',
                       ('raise', 'AssertionError', "types mismatch: <class 'ceos_alos2.hierarchy.Variable'> != <class 'ceos_alos2.hierarchy.Group'>",
                        'NoneType')),
                      ('var-b', 'tree:empty-url',
                       ('raise', 'AssertionError', "types mismatch: <class 'ceos_alos2.hierarchy.Variable'> != <class 'ceos_alos2.hierarchy.Group'>",
                        'NoneType')),
                      ('var-b', 'tree:vars',
                       ('raise', 'AssertionError', "types mismatch: <class 'ceos_alos2.hierarchy.Variable'> != <class 'ceos_alos2.hierarchy.Group'>",
                        'NoneType')),
                      ('var-b', 'tree:vars-b',
                       ('raise', 'AssertionError', "types mismatch: <class 'ceos_alos2.hierarchy.Variable'> != <class 'ceos_alos2.hierarchy.Group'>",
                        'NoneType')),
                      ('var-b', 'tree:one-a',
                       ('raise', 'AssertionError', "types mismatch: <class 'ceos_alos2.hierarchy.Variable'> != <class 'ceos_alos2.hierarchy.Group'>",
                        'NoneType')),
                      ('var-b', 'tree:two',
                       ('raise', 'AssertionError', "types mismatch: <class 'ceos_alos2.hierarchy.Variable'> != <class 'ceos_alos2.hierarchy.Group'>",
                        'NoneType')),
                      ('var-b', 'tree:two-b',
                       ('raise', 'AssertionError', "types mismatch: <class 'ceos_alos2.hierarchy.Variable'> != <class 'ceos_alos2.hierarchy.Group'>",
                        'NoneType')),
                      ('var-b', 'tree:two-c',
                       ('raise', 'AssertionError', "types mismatch: <class 'ceos_alos2.hierarchy.Variable'> != <class 'ceos_alos2.hierarchy.Group'>",
                        'NoneType')),
                      ('var-b', 'tree:arrays',
                       ('raise', 'AssertionError', "types mismatch: <class 'ceos_alos2.hierarchy.Variable'> != <class 'ceos_alos2.hierarchy.Group'>",
                        'NoneType')),
                      ('var-b', 'tree:arrays-b',
                       ('raise', 'AssertionError', "types mismatch: <class 'ceos_alos2.hierarchy.Variable'> != <class 'ceos_alos2.hierarchy.Group'>",
                        'NoneType')),
                      ('var-b', 'tree:sub',
                       ('raise', 'AssertionError', "types mismatch: <class 'ceos_alos2.hierarchy.Variable'> != <class 'equiv.SubGroup'>", 'NoneType')),
                      ('var-b', 'tree:sub-b',
                       ('raise', 'AssertionError', "types mismatch: <class 'ceos_alos2.hierarchy.Variable'> != <class 'equiv.SubGroup'>", 'NoneType')),
                      ('var-b', 'var',
                       ('raise', 'AssertionError', 'Left and right Variable objects are not equal\n  Differing data:\n      L int8  2\n      R int8  1',
                        'NoneType')),
                      ('var-b', 'var-b', ('ok', 'NoneType', 'None')),
                      ('var-b', 'var-dims',
                       ('raise', 'AssertionError',
                        'Left and right Variable objects are not equal\n'
                        '  Differing dimensions:\n'
                        '    (x: 1) != (y: 1)\n'
                        '  Differing data:\n'
                        '      L int8  2\n'
                        '      R int8  1',
                        'NoneType')),
                      ('var-b', 'var-attrs',
                       ('raise', 'AssertionError',
                        'Left and right Variable objects are not equal\n'
                        '  Differing data:\n'
                        '      L int8  2\n'
                        '      R int8  1\n'
                        '  Attributes:\n'
                        '    Missing left:\n'
                        '     - a',
                        'NoneType')),
                      ('var-b', 'var-dtype',
                       ('raise', 'AssertionError', 'Left and right Variable objects are not equal\n  Differing data:\n      L int8  2\n      R int16  1',
                        'NoneType')),
                      ('var-b', 'var-array',
                       ('raise', 'AssertionError',
                        'Left and right Variable objects are not equal\n'
                        '  Differing dimensions:\n'
                        '    (x: 1) != (rows: 4, columns: 3)\n'
                        '  Differing data types:\n'
                        "    L <class 'numpy.ndarray'>\n"
                        "    R <class 'ceos_alos2.array.Array'>",
                        'NoneType')),
                      ('var-b', 'var-array-b',
                       ('raise', 'AssertionError',
                        'Left and right Variable objects are not equal\n'
                        '  Differing dimensions:\n'
                        '    (x: 1) != (rows: 4, columns: 2)\n'
                        '  Differing data types:\n'
                        "    L <class 'numpy.ndarray'>\n"
                        "    R <class 'ceos_alos2.array.Array'>\n"
                        '  Attributes:\n'
                        '    Missing left:\n'
                        '     - a',
                        'NoneType')),
                      ('var-b', 'subvar',
                       ('raise', 'AssertionError', "types mismatch: <class 'ceos_alos2.hierarchy.Variable'> != <class 'equiv.SubVariable'>", 'NoneType')),
                      ('var-b', 'subvar-b',
                       ('raise', 'AssertionError', "types mismatch: <class 'ceos_alos2.hierarchy.Variable'> != <class 'equiv.SubVariable'>", 'NoneType')),
                      ('var-b', 'array',
                       ('raise', 'AssertionError', "types mismatch: <class 'ceos_alos2.hierarchy.Variable'> != <class 'ceos_alos2.array.Array'>", 'NoneType')),
                      ('var-b', 'array-dtype',
                       ('raise', 'AssertionError', "types mismatch: <class 'ceos_alos2.hierarchy.Variable'> != <class 'ceos_alos2.array.Array'>", 'NoneType')),
                      ('var-b', 'array-url',
                       ('raise', 'AssertionError', "types mismatch: <class 'ceos_alos2.hierarchy.Variable'> != <class 'ceos_alos2.array.Array'>", 'NoneType')),
                      ('var-b', 'array-path',
                       ('raise', 'AssertionError', "types mismatch: <class 'ceos_alos2.hierarchy.Variable'> != <class 'ceos_alos2.array.Array'>", 'NoneType')),
                      ('var-b', 'array-file',
                       ('raise', 'AssertionError', "types mismatch: <class 'ceos_alos2.hierarchy.Variable'> != <class 'ceos_alos2.array.Array'>", 'NoneType')),
                      ('var-b', 'array-ranges',
                       ('raise', 'AssertionError', "types mismatch: <class 'ceos_alos2.hierarchy.Variable'> != <class 'ceos_alos2.array.Array'>", 'NoneType')),
                      ('var-b', 'array-rpc',
                       ('raise', 'AssertionError', "types mismatch: <class 'ceos_alos2.hierarchy.Variable'> != <class 'ceos_alos2.array.Array'>", 'NoneType')),
                      ('var-b', 'array-type-code',
                       ('raise', 'AssertionError', "types mismatch: <class 'ceos_alos2.hierarchy.Variable'> != <class 'ceos_alos2.array.Array'>", 'NoneType')),
                      ('var-b', 'subarray',
                       ('raise', 'AssertionError', "types mismatch: <class 'ceos_alos2.hierarchy.Variable'> != <class 'equiv.SubArray'>", 'NoneType')),
                      ('var-b', 'int', ('raise', 'AssertionError', "types mismatch: <class 'ceos_alos2.hierarchy.Variable'> != <class 'int'>", 'NoneType')),
                      ('var-b', 'int-b', ('raise', 'AssertionError', "types mismatch: <class 'ceos_alos2.hierarchy.Variable'> != <class 'int'>", 'NoneType')),
                      ('var-b', 'float', ('raise', 'AssertionError', "types mismatch: <class 'ceos_alos2.hierarchy.Variable'> != <class 'float'>", 'NoneType')),
                      ('var-b', 'str', ('raise', 'AssertionError', "types mismatch: <class 'ceos_alos2.hierarchy.Variable'> != <class 'str'>", 'NoneType')),
                      ('var-b', 'none',
                       ('raise', 'AssertionError', "types mismatch: <class 'ceos_alos2.hierarchy.Variable'> != <class 'NoneType'>", 'NoneType')),
                      ('var-b', 'dict', ('raise', 'AssertionError', "types mismatch: <class 'ceos_alos2.hierarchy.Variable'> != <class 'dict'>", 'NoneType')),
                      ('var-b', 'list', ('raise', 'AssertionError', "types mismatch: <class 'ceos_alos2.hierarchy.Variable'> != <class 'list'>", 'NoneType')),
                      ('var-b', 'ndarray',
                       ('raise', 'AssertionError', "types mismatch: <class 'ceos_alos2.hierarchy.Variable'> != <class 'numpy.ndarray'>", 'NoneType')),
                      ('var-b', 'ndarray-b',
                       ('raise', 'AssertionError', "types mismatch: <class 'ceos_alos2.hierarchy.Variable'> != <class 'numpy.ndarray'>", 'NoneType')),
                      ('var-b', 'np-int',
                       ('raise', 'AssertionError', "types mismatch: <class 'ceos_alos2.hierarchy.Variable'> != <class 'numpy.int8'>", 'NoneType')),
                      ('var-b', 'type',
                       ('raise', 'AssertionError', "types mismatch: <class 'ceos_alos2.hierarchy.Variable'> != <class 'abc.ABCMeta'>", 'NoneType')),
                      ('var-b', 'bool', ('raise', 'AssertionError', "types mismatch: <class 'ceos_alos2.hierarchy.Variable'> != <class 'bool'>", 'NoneType')),
                      ('var-dims', 'tree:empty',
                       ('raise', 'AssertionError', "types mismatch: <class 'ceos_alos2.hierarchy.Variable'> != <class 'ceos_alos2.hierarchy.Group'>",
                        'NoneType')),
                      ('var-dims', 'tree:empty-url',
                       ('raise', 'AssertionError', "types mismatch: <class 'ceos_alos2.hierarchy.Variable'> != <class 'ceos_alos2.hierarchy.Group'>",
                        'NoneType')),
                      ('var-dims', 'tree:vars',
                       ('raise', 'AssertionError', "types mismatch: <class 'ceos_alos2.hierarchy.Variable'> != <class 'ceos_alos2.hierarchy.Group'>",
                        'NoneType')),
                      ('var-dims', 'tree:vars-b',
                       ('raise', 'AssertionError', "types mismatch: <class 'ceos_alos2.hierarchy.Variable'> != <class 'ceos_alos2.hierarchy.Group'>",
                        'NoneType')),
                      ('var-dims', 'tree:one-a',
                       ('raise', 'AssertionError', "types mismatch: <class 'ceos_alos2.hierarchy.Variable'> != <class 'ceos_alos2.hierarchy.Group'>",
                        'NoneType')),
                      ('var-dims', 'tree:two',
                       ('raise', 'AssertionError', "types mismatch: <class 'ceos_alos2.hierarchy.Variable'> != <class 'ceos_alos2.hierarchy.Group'>",
                        'NoneType')),
                      ('var-dims', 'tree:two-b',
                       ('raise', 'AssertionError', "types mismatch: <class 'ceos_alos2.hierarchy.Variable'> != <class 'ceos_alos2.hierarchy.Group'>",
                        'NoneType')),
                      ('var-dims', 'tree:two-c',
                       ('raise', 'AssertionError', "types mismatch: <class 'ceos_alos2.hierarchy.Variable'> != <class 'ceos_alos2.hierarchy.Group'>",
                        'NoneType')),
                      ('var-dims', 'tree:arrays',
                       ('raise', 'AssertionError', "types mismatch: <class 'ceos_alos2.hierarchy.Variable'> != <class 'ceos_alos2.hierarchy.Group'>",
                        'NoneType')),
                      ('var-dims', 'tree:arrays-b',
                       ('raise', 'AssertionError', "types mismatch: <class 'ceos_alos2.hierarchy.Variable'> != <class 'ceos_alos2.hierarchy.Group'>",
                        'NoneType')),
                      ('var-dims', 'tree:sub',
                       ('raise', 'AssertionError', "types mismatch: <class 'ceos_alos2.hierarchy.Variable'> != <class 'equiv.SubGroup'>", 'NoneType')),
                      ('var-dims', 'tree:sub-b',
                       ('raise', 'AssertionError', "types mismatch: <class 'ceos_alos2.hierarchy.Variable'> != <class 'equiv.SubGroup'>", 'NoneType')),
                      ('var-dims', 'var',
                       ('raise', 'AssertionError', 'Left and right Variable objects are not equal\n  Differing dimensions:\n    (y: 1) != (x: 1)', 'NoneType')),
                      ('var-dims', 'var-b',
                       ('raise', 'AssertionError',
                        'Left and right Variable objects are not equal\n'
                        '  Differing dimensions:\n'
                        '    (y: 1) != (x: 1)\n'
                        '  Differing data:\n'
                        '      L int8  1\n'
                        '      R int8  2',
                        'NoneType')),
                      ('var-dims', 'var-dims', ('ok', 'NoneType', 'None')),
                      ('var-dims', 'var-attrs',
                       ('raise', 'AssertionError',
                        'Left and right Variable objects are not equal\n'
                        '  Differing dimensions:\n'
                        '    (y: 1) != (x: 1)\n'
                        '  Attributes:\n'
                        '    Missing left:\n'
                        '     - a',
                        'NoneType')),
                      ('var-dims', 'var-dtype',
                       ('raise', 'AssertionError', 'Left and right Variable objects are not equal\n  Differing dimensions:\n    (y: 1) != (x: 1)', 'NoneType')),
                      ('var-dims', 'var-array',
                       ('raise', 'AssertionError',
                        'Left and right Variable objects are not equal\n'
                        '  Differing dimensions:\n'
                        '    (y: 1) != (rows: 4, columns: 3)\n'
                        '  Differing data types:\n'
                        "    L <class 'numpy.ndarray'>\n"
                        "    R <class 'ceos_alos2.array.Array'>",
                        'NoneType')),
                      ('var-dims', 'var-array-b',
                       ('raise', 'AssertionError',
                        'Left and right Variable objects are not equal\n'
                        '  Differing dimensions:\n'
                        '    (y: 1) != (rows: 4, columns: 2)\n'
                        '  Differing data types:\n'
                        "    L <class 'numpy.ndarray'>\n"
                        "    R <class 'ceos_alos2.array.Array'>\n"
                        '  Attributes:\n'
                        '    Missing left:\n'
                        '     - a',
                        'NoneType')),
                      ('var-dims', 'subvar',
                       ('raise', 'AssertionError', "types mismatch: <class 'ceos_alos2.hierarchy.Variable'> != <class 'equiv.SubVariable'>", 'NoneType')),
                      ('var-dims', 'subvar-b',
                       ('raise', 'AssertionError', "types mismatch: <class 'ceos_alos2.hierarchy.Variable'> != <class 'equiv.SubVariable'>", 'NoneType')),
                      ('var-dims', 'array',
                       ('raise', 'AssertionError', "types mismatch: <class 'ceos_alos2.hierarchy.Variable'> != <class 'ceos_alos2.array.Array'>", 'NoneType')),
                      ('var-dims', 'array-dtype',
                       ('raise', 'AssertionError', "types mismatch: <class 'ceos_alos2.hierarchy.Variable'> != <class 'ceos_alos2.array.Array'>", 'NoneType')),
                      ('var-dims', 'array-url',
                       ('raise', 'AssertionError', "types mismatch: <class 'ceos_alos2.hierarchy.Variable'> != <class 'ceos_alos2.array.Array'>", 'NoneType')),
                      ('var-dims', 'array-path',
                       ('raise', 'AssertionError', "types mismatch: <class 'ceos_alos2.hierarchy.Variable'> != <class 'ceos_alos2.array.Array'>", 'NoneType')),
                      ('var-dims', 'array-file',
                       ('raise', 'AssertionError', "types mismatch: <class 'ceos_alos2.hierarchy.Variable'> != <class 'ceos_alos2.array.Array'>", 'NoneType')),
                      ('var-dims', 'array-ranges',
                       ('raise', 'AssertionError', "types mismatch: <class 'ceos_alos2.hierarchy.Variable'> != <class 'ceos_alos2.array.Array'>", 'NoneType')),
                      ('var-dims', 'array-rpc',
                       ('raise', 'AssertionError', "types mismatch: <class 'ceos_alos2.hierarchy.Variable'> != <class 'ceos_alos2.array.Array'>", 'NoneType')),
                      ('var-dims', 'array-type-code',
                       ('raise', 'AssertionError', "types mismatch: <class 'ceos_alos2.hierarchy.Variable'> != <class 'ceos_alos2.array.Array'>", 'NoneType')),
                      ('var-dims', 'subarray',
                       ('raise', 'AssertionError', "types mismatch: <class 'ceos_alos2.hierarchy.Variable'> != <class 'equiv.SubArray'>", 'NoneType')),
                      ('var-dims', 'int', ('raise', 'AssertionError', "types mismatch: <class 'ceos_alos2.hierarchy.Variable'> != <class 'int'>", 'NoneType')),
                      ('var-dims', 'int-b',
                       ('raise', 'AssertionError', "types mismatch: <class 'ceos_alos2.hierarchy.Variable'> != <class 'int'>", 'NoneType')),
                      ('var-dims', 'float',
                       ('raise', 'AssertionError', "types mismatch: <class 'ceos_alos2.hierarchy.Variable'> != <class 'float'>", 'NoneType')),
                      ('var-dims', 'str', ('raise', 'AssertionError', "types mismatch: <class 'ceos_alos2.hierarchy.Variable'> != <class 'str'>", 'NoneType')),
                      ('var-dims', 'none',
                       ('raise', 'AssertionError', "types mismatch: <class 'ceos_alos2.hierarchy.Variable'> != <class 'NoneType'>", 'NoneType')),
                      ('var-dims', 'dict',
                       ('raise', 'AssertionError', "types mismatch: <class 'ceos_alos2.hierarchy.Variable'> != <class 'dict'>", 'NoneType')),
                      ('var-dims', 'list',
                       ('raise', 'AssertionError', "types mismatch: <class 'ceos_alos2.hierarchy.Variable'> != <class 'list'>", 'NoneType')),
                      ('var-dims', 'ndarray',
                       ('raise', 'AssertionError', "types mismatch: <class 'ceos_alos2.hierarchy.Variable'> != <class 'numpy.ndarray'>", 'NoneType')),
                      ('var-dims', 'ndarray-b',
                       ('raise', 'AssertionError', "types mismatch: <class 'ceos_alos2.hierarchy.Variable'> != <class 'numpy.ndarray'>", 'NoneType')),
                      ('var-dims', 'np-int',
                       ('raise', 'AssertionError', "types mismatch: <class 'ceos_alos2.hierarchy.Variable'> != <class 'numpy.int8'>", 'NoneType')),
                      ('var-dims', 'type',
                       ('raise', 'AssertionError', "types mismatch: <class 'ceos_alos2.hierarchy.Variable'> != <class 'abc.ABCMeta'>", 'NoneType')),
                      ('var-dims', 'bool',
                       ('raise', 'AssertionError', "types mismatch: <class 'ceos_alos2.hierarchy.Variable'> != <class 'bool'>", 'NoneType')),
                      ('var-attrs', 'tree:empty',
                       ('raise', 'AssertionError', "types mismatch: <class 'ceos_alos2.hierarchy.Variable'> != <class 'ceos_alos2.hierarchy.Group'>",
                        'NoneType')),
                      ('var-attrs', 'tree:empty-url',
                       ('raise', 'AssertionError', "types mismatch: <class 'ceos_alos2.hierarchy.Variable'> != <class 'ceos_alos2.hierarchy.Group'>",
                        'NoneType')),
                      ('var-attrs', 'tree:vars',
                       ('raise', 'AssertionError', "types mismatch: <class 'ceos_alos2.hierarchy.Variable'> != <class 'ceos_alos2.hierarchy.Group'>",
                        'NoneType')),
                      ('var-attrs', 'tree:vars-b',
                       ('raise', 'AssertionError', "types mismatch: <class 'ceos_alos2.hierarchy.Variable'> != <class 'ceos_alos2.hierarchy.Group'>",
                        'NoneType')),
                      ('var-attrs', 'tree:one-a',
                       ('raise', 'AssertionError', "types mismatch: <class 'ceos_alos2.hierarchy.Variable'> != <class 'ceos_alos2.hierarchy.Group'>",
                        'NoneType')),
                      ('var-attrs', 'tree:two',
                       ('raise', 'AssertionError', "types mismatch: <class 'ceos_alos2.hierarchy.Variable'> != <class 'ceos_alos2.hierarchy.Group'>",
                        'NoneType')),
                      ('var-attrs', 'tree:two-b',
                       ('raise', 'AssertionError', "types mismatch: <class 'ceos_alos2.hierarchy.Variable'> != <class 'ceos_alos2.hierarchy.Group'>",
                        'NoneType')),
                      ('var-attrs', 'tree:two-c',
                       ('raise', 'AssertionError', "types mismatch: <class 'ceos_alos2.hierarchy.Variable'> != <class 'ceos_alos2.hierarchy.Group'>",
                        'NoneType')),
                      ('var-attrs', 'tree:arrays',
                       ('raise', 'AssertionError', "types mismatch: <class 'ceos_alos2.hierarchy.Variable'> != <class 'ceos_alos2.hierarchy.Group'>",
                        'NoneType')),
                      ('var-attrs', 'tree:arrays-b',
                       ('raise', 'AssertionError', "types mismatch: <class 'ceos_alos2.hierarchy.Variable'> != <class 'ceos_alos2.hierarchy.Group'>",
                        'NoneType')),
                      ('var-attrs', 'tree:sub',
                       ('raise', 'AssertionError', "types mismatch: <class 'ceos_alos2.hierarchy.Variable'> != <class 'equiv.SubGroup'>", 'NoneType')),
                      ('var-attrs', 'tree:sub-b',
                       ('raise', 'AssertionError', "types mismatch: <class 'ceos_alos2.hierarchy.Variable'> != <class 'equiv.SubGroup'>", 'NoneType')),
                      ('var-attrs', 'var',
                       ('raise', 'AssertionError', 'Left and right Variable objects are not equal\n  Attributes:\n    Missing right:\n     - a', 'NoneType')),
                      ('var-attrs', 'var-b',
                       ('raise', 'AssertionError',
                        'Left and right Variable objects are not equal\n'
                        '  Differing data:\n'
                        '      L int8  1\n'
                        '      R int8  2\n'
                        '  Attributes:\n'
                        '    Missing right:\n'
                        '     - a',
                        'NoneType')),
                      ('var-attrs', 'var-dims',
                       ('raise', 'AssertionError',
                        'Left and right Variable objects are not equal\n'
                        '  Differing dimensions:\n'
                        '    (x: 1) != (y: 1)\n'
                        '  Attributes:\n'
                        '    Missing right:\n'
                        '     - a',
                        'NoneType')),
                      ('var-attrs', 'var-attrs', ('ok', 'NoneType', 'None')),
                      ('var-attrs', 'var-dtype',
                       ('raise', 'AssertionError', 'Left and right Variable objects are not equal\n  Attributes:\n    Missing right:\n     - a', 'NoneType')),
                      ('var-attrs', 'var-array',
                       ('raise', 'AssertionError',
                        'Left and right Variable objects are not equal\n'
                        '  Differing dimensions:\n'
                        '    (x: 1) != (rows: 4, columns: 3)\n'
                        '  Differing data types:\n'
                        "    L <class 'numpy.ndarray'>\n"
                        "    R <class 'ceos_alos2.array.Array'>\n"
                        '  Attributes:\n'
                        '    Missing right:\n'
                        '     - a',
                        'NoneType')),
                      ('var-attrs', 'var-array-b',
                       ('raise', 'AssertionError',
                        'Left and right Variable objects are not equal\n'
                        '  Differing dimensions:\n'
                        '    (x: 1) != (rows: 4, columns: 2)\n'
                        '  Differing data types:\n'
                        "    L <class 'numpy.ndarray'>\n"
                        "    R <class 'ceos_alos2.array.Array'>",
                        'NoneType')),
                      ('var-attrs', 'subvar',
                       ('raise', 'AssertionError', "types mismatch: <class 'ceos_alos2.hierarchy.Variable'> != <class 'equiv.SubVariable'>", 'NoneType')),
                      ('var-attrs', 'subvar-b',
                       ('raise', 'AssertionError', "types mismatch: <class 'ceos_alos2.hierarchy.Variable'> != <class 'equiv.SubVariable'>", 'NoneType')),
                      ('var-attrs', 'array',
                       ('raise', 'AssertionError', "types mismatch: <class 'ceos_alos2.hierarchy.Variable'> != <class 'ceos_alos2.array.Array'>", 'NoneType')),
                      ('var-attrs', 'array-dtype',
                       ('raise', 'AssertionError', "types mismatch: <class 'ceos_alos2.hierarchy.Variable'> != <class 'ceos_alos2.array.Array'>", 'NoneType')),
                      ('var-attrs', 'array-url',
                       ('raise', 'AssertionError', "types mismatch: <class 'ceos_alos2.hierarchy.Variable'> != <class 'ceos_alos2.array.Array'>", 'NoneType')),
                      ('var-attrs', 'array-path',
                       ('raise', 'AssertionError', "types mismatch: <class 'ceos_alos2.hierarchy.Variable'> != <class 'ceos_alos2.array.Array'>", 'NoneType')),
                      ('var-attrs', 'array-file',
                       ('raise', 'AssertionError', "types mismatch: <class 'ceos_alos2.hierarchy.Variable'> != <class 'ceos_alos2.array.Array'>", 'NoneType')),
                      ('var-attrs', 'array-ranges',
                       ('raise', 'AssertionError', "types mismatch: <class 'ceos_alos2.hierarchy.Variable'> != <class 'ceos_alos2.array.Array'>", 'NoneType')),
                      ('var-attrs', 'array-rpc',
                       ('raise', 'AssertionError', "types mismatch: <class 'ceos_alos2.hierarchy.Variable'> != <class 'ceos_alos2.array.Array'>", 'NoneType')),
                      ('var-attrs', 'array-type-code',
                       ('raise', 'AssertionError', "types mismatch: <class 'ceos_alos2.hierarchy.Variable'> != <class 'ceos_alos2.array.Array'>", 'NoneType')),
                      ('var-attrs', 'subarray',
                       ('raise', 'AssertionError', "types mismatch: <class 'ceos_alos2.hierarchy.Variable'> != <class 'equiv.SubArray'>", 'NoneType')),
                      ('var-attrs', 'int', ('raise', 'AssertionError', "types mismatch: <class 'ceos_alos2.hierarchy.Variable'> != <class 'int'>", 'NoneType')),
                      ('var-attrs', 'int-b',
                       ('raise', 'AssertionError', "types mismatch: <class 'ceos_alos2.hierarchy.Variable'> != <class 'int'>", 'NoneType')),
                      ('var-attrs', 'float',
                       ('raise', 'AssertionError', "types mismatch: <class 'ceos_alos2.hierarchy.Variable'> != <class 'float'>", 'NoneType')),
                      ('var-attrs', 'str', ('raise', 'AssertionError', "types mismatch: <class 'ceos_alos2.hierarchy.Variable'> != <class 'str'>", 'NoneType')),
                      ('var-attrs', 'none',
                       ('raise', 'AssertionError', "types mismatch: <class 'ceos_alos2.hierarchy.Variable'> != <class 'NoneType'>", 'NoneType')),
                      ('var-attrs', 'dict',
                       ('raise', 'AssertionError', "types mismatch: <class 'ceos_alos2.hierarchy.Variable'> != <class 'dict'>", 'NoneType')),
                      ('var-attrs', 'list',
                       ('raise', 'AssertionError', "types mismatch: <class 'ceos_alos2.hierarchy.Variable'> != <class 'list'>", 'NoneType')),
                      ('var-attrs', 'ndarray',
                       ('raise', 'AssertionError', "types mismatch: <class 'ceos_alos2.hierarchy.Variable'> != <class 'numpy.ndarray'>", 'NoneType')),
                      ('var-attrs', 'ndarray-b',
                       ('raise', 'AssertionError', "types mismatch: <class 'ceos_alos2.hierarchy.Variable'> != <class 'numpy.ndarray'>", 'NoneType')),
                      ('var-attrs', 'np-int',
                       ('raise', 'AssertionError', "types mismatch: <class 'ceos_alos2.hierarchy.Variable'> != <class 'numpy.int8'>", 'NoneType')),
                      ('var-attrs', 'type',
                       ('raise', 'AssertionError', "types mismatch: <class 'ceos_alos2.hierarchy.Variable'> != <class 'abc.ABCMeta'>", 'NoneType')),
                      ('var-attrs', 'bool',
                       ('raise', 'AssertionError', "types mismatch: <class 'ceos_alos2.hierarchy.Variable'> != <class 'bool'>", 'NoneType')),
                      ('var-dtype', 'tree:empty',
                       ('raise', 'AssertionError', "types mismatch: <class 'ceos_alos2.hierarchy.Variable'> != <class 'ceos_alos2.hierarchy.Group'>",
                        'NoneType')),
                      ('var-dtype', 'tree:empty-url',
                       ('raise', 'AssertionError', "types mismatch: <class 'ceos_alos2.hierarchy.Variable'> != <class 'ceos_alos2.hierarchy.Group'>",
                        'NoneType')),
                      ('var-dtype', 'tree:vars',
                       ('raise', 'AssertionError', "types mismatch: <class 'ceos_alos2.hierarchy.Variable'> != <class 'ceos_alos2.hierarchy.Group'>",
                        'NoneType')),
                      ('var-dtype', 'tree:vars-b',
                       ('raise', 'AssertionError', "types mismatch: <class 'ceos_alos2.hierarchy.Variable'> != <class 'ceos_alos2.hierarchy.Group'>",
                        'NoneType')),
                      ('var-dtype', 'tree:one-a',
                       ('raise', 'AssertionError', "types mismatch: <class 'ceos_alos2.hierarchy.Variable'> != <class 'ceos_alos2.hierarchy.Group'>",
                        'NoneType')),
                      ('var-dtype', 'tree:two',
                       ('raise', 'AssertionError', "types mismatch: <class 'ceos_alos2.hierarchy.Variable'> != <class 'ceos_alos2.hierarchy.Group'>",
                        'NoneType')),
                      ('var-dtype', 'tree:two-b',
                       ('raise', 'AssertionError', "types mismatch: <class 'ceos_alos2.hierarchy.Variable'> != <class 'ceos_alos2.hierarchy.Group'>",
                        'NoneType')),
                      ('var-dtype', 'tree:two-c',
                       ('raise', 'AssertionError', "types mismatch: <class 'ceos_alos2.hierarchy.Variable'> != <class 'ceos_alos2.hierarchy.Group'>",
                        'NoneType')),
                      ('var-dtype', 'tree:arrays',
                       ('raise', 'AssertionError', "types mismatch: <class 'ceos_alos2.hierarchy.Variable'> != <class 'ceos_alos2.hierarchy.Group'>",
                        'NoneType')),
                      ('var-dtype', 'tree:arrays-b',
                       ('raise', 'AssertionError', "types mismatch: <class 'ceos_alos2.hierarchy.Variable'> != <class 'ceos_alos2.hierarchy.Group'>",
                        'NoneType')),
                      ('var-dtype', 'tree:sub',
                       ('raise', 'AssertionError', "types mismatch: <class 'ceos_alos2.hierarchy.Variable'> != <class 'equiv.SubGroup'>", 'NoneType')),
                      ('var-dtype', 'tree:sub-b',
                       ('raise', 'AssertionError', "types mismatch: <class 'ceos_alos2.hierarchy.Variable'> != <class 'equiv.SubGroup'>", 'NoneType')),
                      ('var-dtype', 'var', ('ok', 'NoneType', 'None')),
                      ('var-dtype', 'var-b',
                       ('raise', 'AssertionError', 'Left and right Variable objects are not equal\n  Differing data:\n      L int16  1\n      R int8  2',
                        'NoneType')),
                      ('var-dtype', 'var-dims',
                       ('raise', 'AssertionError', 'Left and right Variable objects are not equal\n  Differing dimensions:\n    (x: 1) != (y: 1)', 'NoneType')),
                      ('var-dtype', 'var-attrs',
                       ('raise', 'AssertionError', 'Left and right Variable objects are not equal\n  Attributes:\n    Missing left:\n     - a', 'NoneType')),
                      ('var-dtype', 'var-dtype', ('ok', 'NoneType', 'None')),
                      ('var-dtype', 'var-array',
                       ('raise', 'AssertionError',
                        'Left and right Variable objects are not equal\n'
                        '  Differing dimensions:\n'
                        '    (x: 1) != (rows: 4, columns: 3)\n'
                        '  Differing data types:\n'
                        "    L <class 'numpy.ndarray'>\n"
                        "    R <class 'ceos_alos2.array.Array'>",
                        'NoneType')),
                      ('var-dtype', 'var-array-b',
                       ('raise', 'AssertionError',
                        'Left and right Variable objects are not equal\n'
                        '  Differing dimensions:\n'
                        '    (x: 1) != (rows: 4, columns: 2)\n'
                        '  Differing data types:\n'
                        "    L <class 'numpy.ndarray'>\n"
                        "    R <class 'ceos_alos2.array.Array'>\n"
                        '  Attributes:\n'
                        '    Missing left:\n'
                        '     - a',
                        'NoneType')),
                      ('var-dtype', 'subvar',
                       ('raise', 'AssertionError', "types mismatch: <class 'ceos_alos2.hierarchy.Variable'> != <class 'equiv.SubVariable'>", 'NoneType')),
                      ('var-dtype', 'subvar-b',
                       ('raise', 'AssertionError', "types mismatch: <class 'ceos_alos2.hierarchy.Variable'> != <class 'equiv.SubVariable'>", 'NoneType')),
                      ('var-dtype', 'array',
                       ('raise', 'AssertionError', "types mismatch: <class 'ceos_alos2.hierarchy.Variable'> != <class 'ceos_alos2.array.Array'>", 'NoneType')),
                      ('var-dtype', 'array-dtype',
                       ('raise', 'AssertionError', "types mismatch: <class 'ceos_alos2.hierarchy.Variable'> != <class 'ceos_alos2.array.Array'>", 'NoneType')),
                      ('var-dtype', 'array-url',
                       ('raise', 'AssertionError', "types mismatch: <class 'ceos_alos2.hierarchy.Variable'> != <class 'ceos_alos2.array.Array'>", 'NoneType')),
                      ('var-dtype', 'array-path',
                       ('raise', 'AssertionError', "types mismatch: <class 'ceos_alos2.hierarchy.Variable'> != <class 'ceos_alos2.array.Array'>", 'NoneType')),
                      ('var-dtype', 'array-file',
                       ('raise', 'AssertionError', "types mismatch: <class 'ceos_alos2.hierarchy.Variable'> != <class 'ceos_alos2.array.Array'>", 'NoneType')),
                      ('var-dtype', 'array-ranges',
                       ('raise', 'AssertionError', "types mismatch: <class 'ceos_alos2.hierarchy.Variable'> != <class 'ceos_alos2.array.Array'>", 'NoneType')),
                      ('var-dtype', 'array-rpc',
                       ('raise', 'AssertionError', "types mismatch: <class 'ceos_alos2.hierarchy.Variable'> != <class 'ceos_alos2.array.Array'>", 'NoneType')),
                      ('var-dtype', 'array-type-code',
                       ('raise', 'AssertionError', "types mismatch: <class 'ceos_alos2.hierarchy.Variable'> != <class 'ceos_alos2.array.Array'>", 'NoneType')),
                      ('var-dtype', 'subarray',
                       ('raise', 'AssertionError', "types mismatch: <class 'ceos_alos2.hierarchy.Variable'> != <class 'equiv.SubArray'>", 'NoneType')),
                      ('var-dtype', 'int', ('raise', 'AssertionError', "types mismatch: <class 'ceos_alos2.hierarchy.Variable'> != <class 'int'>", 'NoneType')),
                      ('var-dtype', 'int-b',
                       ('raise', 'AssertionError', "types mismatch: <class 'ceos_alos2.hierarchy.Variable'> != <class 'int'>", 'NoneType')),
                      ('var-dtype', 'float',
                       ('raise', 'AssertionError', "types mismatch: <class 'ceos_alos2.hierarchy.Variable'> != <class 'float'>", 'NoneType')),
                      ('var-dtype', 'str', ('raise', 'AssertionError', "types mismatch: <class 'ceos_alos2.hierarchy.Variable'> != <class 'str'>", 'NoneType')),
                      ('var-dtype', 'none',
                       ('raise', 'AssertionError', "types mismatch: <class 'ceos_alos2.hierarchy.Variable'> != <class 'NoneType'>", 'NoneType')),
                      ('var-dtype', 'dict',
                       ('raise', 'AssertionError', "types mismatch: <class 'ceos_alos2.hierarchy.Variable'> != <class 'dict'>", 'NoneType')),
                      ('var-dtype', 'list',
                       ('raise', 'AssertionError', "types mismatch: <class 'ceos_alos2.hierarchy.Variable'> != <class 'list'>", 'NoneType')),
                      ('var-dtype', 'ndarray',
                       ('raise', 'AssertionError', "types mismatch: <class 'ceos_alos2.hierarchy.Variable'> != <class 'numpy.ndarray'>", 'NoneType')),
                      ('var-dtype', 'ndarray-b',
                       ('raise', 'AssertionError', "types mismatch: <class 'ceos_alos2.hierarchy.Variable'> != <class 'numpy.ndarray'>", 'NoneType')),
                      ('var-dtype', 'np-int',
                       ('raise', 'AssertionError', "types mismatch: <class 'ceos_alos2.hierarchy.Variable'> != <class 'numpy.int8'>", 'NoneType')),
                      ('var-dtype', 'type',
                       ('raise', 'AssertionError', "types mismatch: <class 'ceos_alos2.hierarchy.Variable'> != <class 'abc.ABCMeta'>", 'NoneType')),
                      ('var-dtype', 'bool',
                       ('raise', 'AssertionError', "types mismatch: <class 'ceos_alos2.hierarchy.Variable'> != <class 'bool'>", 'NoneType')),
                      ('var-array', 'tree:empty',
                       ('raise', 'AssertionError', "types mismatch: <class 'ceos_alos2.hierarchy.Variable'> != <class 'ceos_alos2.hierarchy.Group'>",
                        'NoneType')),
                      ('var-array', 'tree:empty-url',
                       ('raise', 'AssertionError', "types mismatch: <class 'ceos_alos2.hierarchy.Variable'> != <class 'ceos_alos2.hierarchy.Group'>",
                        'NoneType')),
                      ('var-array', 'tree:vars',
                       ('raise', 'AssertionError', "types mismatch: <class 'ceos_alos2.hierarchy.Variable'> != <class 'ceos_alos2.hierarchy.Group'>",
                        'NoneType')),
                      ('var-array', 'tree:vars-b',
                       ('raise', 'AssertionError', "types mismatch: <class 'ceos_alos2.hierarchy.Variable'> != <class 'ceos_alos2.hierarchy.Group'>",
                        'NoneType')),
                      ('var-array', 'tree:one-a',
                       ('raise', 'AssertionError', "types mismatch: <class 'ceos_alos2.hierarchy.Variable'> != <class 'ceos_alos2.hierarchy.Group'>",
                        'NoneType')),
                      ('var-array', 'tree:two',
                       ('raise', 'AssertionError', "types mismatch: <class 'ceos_alos2.hierarchy.Variable'> != <class 'ceos_alos2.hierarchy.Group'>",
                        'NoneType')),
                      ('var-array', 'tree:two-b',
                       ('raise', 'AssertionError', "types mismatch: <class 'ceos_alos2.hierarchy.Variable'> != <class 'ceos_alos2.hierarchy.Group'>",
                        'NoneType')),
                      ('var-array', 'tree:two-c',
                       ('raise', 'AssertionError', "types mismatch: <class 'ceos_alos2.hierarchy.Variable'> != <class 'ceos_alos2.hierarchy.Group'>",
                        'NoneType')),
                      ('var-array', 'tree:arrays',
                       ('raise', 'AssertionError', "types mismatch: <class 'ceos_alos2.hierarchy.Variable'> != <class 'ceos_alos2.hierarchy.Group'>",
                        'NoneType')),
                      ('var-array', 'tree:arrays-b',
                       ('raise', 'AssertionError', "types mismatch: <class 'ceos_alos2.hierarchy.Variable'> != <class 'ceos_alos2.hierarchy.Group'>",
                        'NoneType')),
                      ('var-array', 'tree:sub',
                       ('raise', 'AssertionError', "types mismatch: <class 'ceos_alos2.hierarchy.Variable'> != <class 'equiv.SubGroup'>", 'NoneType')),
                      ('var-array', 'tree:sub-b',
                       ('raise', 'AssertionError', "types mismatch: <class 'ceos_alos2.hierarchy.Variable'> != <class 'equiv.SubGroup'>", 'NoneType')),
                      ('var-array', 'var',
                       ('raise', 'AssertionError',
                        'Left and right Variable objects are not equal\n'
                        '  Differing dimensions:\n'
                        '    (rows: 4, columns: 3) != (x: 1)\n'
                        '  Differing data types:\n'
                        "    L <class 'ceos_alos2.array.Array'>\n"
                        "    R <class 'numpy.ndarray'>",
                        'NoneType')),
                      ('var-array', 'var-b',
                       ('raise', 'AssertionError',
                        'Left and right Variable objects are not equal\n'
                        '  Differing dimensions:\n'
                        '    (rows: 4, columns: 3) != (x: 1)\n'
                        '  Differing data types:\n'
                        "    L <class 'ceos_alos2.array.Array'>\n"
                        "    R <class 'numpy.ndarray'>",
                        'NoneType')),
                      ('var-array', 'var-dims',
                       ('raise', 'AssertionError',
                        'Left and right Variable objects are not equal\n'
                        '  Differing dimensions:\n'
                        '    (rows: 4, columns: 3) != (y: 1)\n'
                        '  Differing data types:\n'
                        "    L <class 'ceos_alos2.array.Array'>\n"
                        "    R <class 'numpy.ndarray'>",
                        'NoneType')),
                      ('var-array', 'var-attrs',
                       ('raise', 'AssertionError',
                        'Left and right Variable objects are not equal\n'
                        '  Differing dimensions:\n'
                        '    (rows: 4, columns: 3) != (x: 1)\n'
                        '  Differing data types:\n'
                        "    L <class 'ceos_alos2.array.Array'>\n"
                        "    R <class 'numpy.ndarray'>\n"
                        '  Attributes:\n'
                        '    Missing left:\n'
                        '     - a',
                        'NoneType')),
                      ('var-array', 'var-dtype',
                       ('raise', 'AssertionError',
                        'Left and right Variable objects are not equal\n'
                        '  Differing dimensions:\n'
                        '    (rows: 4, columns: 3) != (x: 1)\n'
                        '  Differing data types:\n'
                        "    L <class 'ceos_alos2.array.Array'>\n"
                        "    R <class 'numpy.ndarray'>",
                        'NoneType')),
                      ('var-array', 'var-array', ('ok', 'NoneType', 'None')),
                      ('var-array', 'var-array-b',
                       ('raise', 'AssertionError',
                        'Left and right Variable objects are not equal\n'
                        '  Differing data:\n'
                        '    Differing shapes:\n'
                        '      (4, 3) != (4, 2)\n'
                        '  Attributes:\n'
                        '    Missing left:\n'
                        '     - a',
                        'NoneType')),
                      ('var-array', 'subvar',
                       ('raise', 'AssertionError', "types mismatch: <class 'ceos_alos2.hierarchy.Variable'> != <class 'equiv.SubVariable'>", 'NoneType')),
                      ('var-array', 'subvar-b',
                       ('raise', 'AssertionError', "types mismatch: <class 'ceos_alos2.hierarchy.Variable'> != <class 'equiv.SubVariable'>", 'NoneType')),
                      ('var-array', 'array',
                       ('raise', 'AssertionError', "types mismatch: <class 'ceos_alos2.hierarchy.Variable'> != <class 'ceos_alos2.array.Array'>", 'NoneType')),
                      ('var-array', 'array-dtype',
                       ('raise', 'AssertionError', "types mismatch: <class 'ceos_alos2.hierarchy.Variable'> != <class 'ceos_alos2.array.Array'>", 'NoneType')),
                      ('var-array', 'array-url',
                       ('raise', 'AssertionError', "types mismatch: <class 'ceos_alos2.hierarchy.Variable'> != <class 'ceos_alos2.array.Array'>", 'NoneType')),
                      ('var-array', 'array-path',
                       ('raise', 'AssertionError', "types mismatch: <class 'ceos_alos2.hierarchy.Variable'> != <class 'ceos_alos2.array.Array'>", 'NoneType')),
                      ('var-array', 'array-file',
                       ('raise', 'AssertionError', "types mismatch: <class 'ceos_alos2.hierarchy.Variable'> != <class 'ceos_alos2.array.Array'>", 'NoneType')),
                      ('var-array', 'array-ranges',
                       ('raise', 'AssertionError', "types mismatch: <class 'ceos_alos2.hierarchy.Variable'> != <class 'ceos_alos2.array.Array'>", 'NoneType')),
                      ('var-array', 'array-rpc',
                       ('raise', 'AssertionError', "types mismatch: <class 'ceos_alos2.hierarchy.Variable'> != <class 'ceos_alos2.array.Array'>", 'NoneType')),
                      ('var-array', 'array-type-code',
                       ('raise', 'AssertionError', "types mismatch: <class 'ceos_alos2.hierarchy.Variable'> != <class 'ceos_alos2.array.Array'>", 'NoneType')),
                      ('var-array', 'subarray',
                       ('raise', 'AssertionError', "types mismatch: <class 'ceos_alos2.hierarchy.Variable'> != <class 'equiv.SubArray'>", 'NoneType')),
                      ('var-array', 'int', ('raise', 'AssertionError', "types mismatch: <class 'ceos_alos2.hierarchy.Variable'> != <class 'int'>", 'NoneType')),
                      ('var-array', 'int-b',
                       ('raise', 'AssertionError', "types mismatch: <class 'ceos_alos2.hierarchy.Variable'> != <class 'int'>", 'NoneType')),
                      ('var-array', 'float',
                       ('raise', 'AssertionError', "types mismatch: <class 'ceos_alos2.hierarchy.Variable'> != <class 'float'>", 'NoneType')),
                      ('var-array', 'str', ('raise', 'AssertionError', "types mismatch: <class 'ceos_alos2.hierarchy.Variable'> != <class 'str'>", 'NoneType')),
                      ('var-array', 'none',
                       ('raise', 'AssertionError', "types mismatch: <class 'ceos_alos2.hierarchy.Variable'> != <class 'NoneType'>", 'NoneType')),
                      ('var-array', 'dict',
                       ('raise', 'AssertionError', "types mismatch: <class 'ceos_alos2.hierarchy.Variable'> != <class 'dict'>", 'NoneType')),
                      ('var-array', 'list',
                       ('raise', 'AssertionError', "types mismatch: <class 'ceos_alos2.hierarchy.Variable'> != <class 'list'>", 'NoneType')),
                      ('var-array', 'ndarray',
                       ('raise', 'AssertionError', "types mismatch: <class 'ceos_alos2.hierarchy.Variable'> != <class 'numpy.ndarray'>", 'NoneType')),
                      ('var-array', 'ndarray-b',
                       ('raise', 'AssertionError', "types mismatch: <class 'ceos_alos2.hierarchy.Variable'> != <class 'numpy.ndarray'>", 'NoneType')),
                      ('var-array', 'np-int',
                       ('raise', 'AssertionError', "types mismatch: <class 'ceos_alos2.hierarchy.Variable'> != <class 'numpy.int8'>", 'NoneType')),
                      ('var-array', 'type',
                       ('raise', 'AssertionError', "types mismatch: <class 'ceos_alos2.hierarchy.Variable'> != <class 'abc.ABCMeta'>", 'NoneType')),
                      ('var-array', 'bool',
                       ('raise', 'AssertionError', "types mismatch: <class 'ceos_alos2.hierarchy.Variable'> != <class 'bool'>", 'NoneType')),
                      ('var-array-b', 'tree:empty',
                       ('raise', 'AssertionError', "types mismatch: <class 'ceos_alos2.hierarchy.Variable'> != <class 'ceos_alos2.hierarchy.Group'>",
                        'NoneType')),
                      ('var-array-b', 'tree:empty-url',
                       ('raise', 'AssertionError', "types mismatch: <class 'ceos_alos2.hierarchy.Variable'> != <class 'ceos_alos2.hierarchy.Group'>",
                        'NoneType')),
                      ('var-array-b', 'tree:vars',
                       ('raise', 'AssertionError', "types mismatch: <class 'ceos_alos2.hierarchy.Variable'> != <class 'ceos_alos2.hierarchy.Group'>",
                        'NoneType')),
                      ('var-array-b', 'tree:vars-b',
                       ('raise', 'AssertionError', "types mismatch: <class 'ceos_alos2.hierarchy.Variable'> != <class 'ceos_alos2.hierarchy.Group'>",
                        'NoneType')),
                      ('var-array-b', 'tree:one-a',
                       ('raise', 'AssertionError', "types mismatch: <class 'ceos_alos2.hierarchy.Variable'> != <class 'ceos_alos2.hierarchy.Group'>",
                        'NoneType')),
                      ('var-array-b', 'tree:two',
                       ('raise', 'AssertionError', "types mismatch: <class 'ceos_alos2.hierarchy.Variable'> != <class 'ceos_alos2.hierarchy.Group'>",
                        'NoneType')),
                      ('var-array-b', 'tree:two-b',
                       ('raise', 'AssertionError', "types mismatch: <class 'ceos_alos2.hierarchy.Variable'> != <class 'ceos_alos2.hierarchy.Group'>",
                        'NoneType')),
                      ('var-array-b', 'tree:two-c',
                       ('raise', 'AssertionError', "types mismatch: <class 'ceos_alos2.hierarchy.Variable'> != <class 'ceos_alos2.hierarchy.Group'>",
                        'NoneType')),
                      ('var-array-b', 'tree:arrays',
                       ('raise', 'AssertionError', "types mismatch: <class 'ceos_alos2.hierarchy.Variable'> != <class 'ceos_alos2.hierarchy.Group'>",
                        'NoneType')),
                      ('var-array-b', 'tree:arrays-b',
                       ('raise', 'AssertionError', "types mismatch: <class 'ceos_alos2.hierarchy.Variable'> != <class 'ceos_alos2.hierarchy.Group'>",
                        'NoneType')),
                      ('var-array-b', 'tree:sub',
                       ('raise', 'AssertionError', "types mismatch: <class 'ceos_alos2.hierarchy.Variable'> != <class 'equiv.SubGroup'>", 'NoneType')),
                      ('var-array-b', 'tree:sub-b',
                       ('raise', 'AssertionError', "types mismatch: <class 'ceos_alos2.hierarchy.Variable'> != <class 'equiv.SubGroup'>", 'NoneType')),
                      ('var-array-b', 'var',
                       ('raise', 'AssertionError',
                        'Left and right Variable objects are not equal\n'
                        '  Differing dimensions:\n'
                        '    (rows: 4, columns: 2) != (x: 1)\n'
                        '  Differing data types:\n'
                        "    L <class 'ceos_alos2.array.Array'>\n"
                        "    R <class 'numpy.ndarray'>\n"
                        '  Attributes:\n'
                        '    Missing right:\n'
                        '     - a',
                        'NoneType')),
                      ('var-array-b', 'var-b',
                       ('raise', 'AssertionError',
                        'Left and right Variable objects are not equal\n'
                        '  Differing dimensions:\n'
                        '    (rows: 4, columns: 2) != (x: 1)\n'
                        '  Differing data types:\n'
                        "    L <class 'ceos_alos2.array.Array'>\n"
                        "    R <class 'numpy.ndarray'>\n"
                        '  Attributes:\n'
                        '    Missing right:\n'
                        '     - a',
                        'NoneType')),
                      ('var-array-b', 'var-dims',
                       ('raise', 'AssertionError',
                        'Left and right Variable objects are not equal\n'
                        '  Differing dimensions:\n'
                        '    (rows: 4, columns: 2) != (y: 1)\n'
                        '  Differing data types:\n'
                        "    L <class 'ceos_alos2.array.Array'>\n"
                        "    R <class 'numpy.ndarray'>\n"
                        '  Attributes:\n'
                        '    Missing right:\n'
                        '     - a',
                        'NoneType')),
                      ('var-array-b', 'var-attrs',
                       ('raise', 'AssertionError',
                        'Left and right Variable objects are not equal\n'
                        '  Differing dimensions:\n'
                        '    (rows: 4, columns: 2) != (x: 1)\n'
                        '  Differing data types:\n'
                        "    L <class 'ceos_alos2.array.Array'>\n"
                        "    R <class 'numpy.ndarray'>",
                        'NoneType')),
                      ('var-array-b', 'var-dtype',
                       ('raise', 'AssertionError',
                        'Left and right Variable objects are not equal\n'
                        '  Differing dimensions:\n'
                        '    (rows: 4, columns: 2) != (x: 1)\n'
                        '  Differing data types:\n'
                        "    L <class 'ceos_alos2.array.Array'>\n"
                        "    R <class 'numpy.ndarray'>\n"
                        '  Attributes:\n'
                        '    Missing right:\n'
                        '     - a',
                        'NoneType')),
                      ('var-array-b', 'var-array',
                       ('raise', 'AssertionError',
                        'Left and right Variable objects are not equal\n'
                        '  Differing data:\n'
                        '    Differing shapes:\n'
                        '      (4, 2) != (4, 3)\n'
                        '  Attributes:\n'
                        '    Missing right:\n'
                        '     - a',
                        'NoneType')),
                      ('var-array-b', 'var-array-b', ('ok', 'NoneType', 'None')),
                      ('var-array-b', 'subvar',
                       ('raise', 'AssertionError', "types mismatch: <class 'ceos_alos2.hierarchy.Variable'> != <class 'equiv.SubVariable'>", 'NoneType')),
                      ('var-array-b', 'subvar-b',
                       ('raise', 'AssertionError', "types mismatch: <class 'ceos_alos2.hierarchy.Variable'> != <class 'equiv.SubVariable'>", 'NoneType')),
                      ('var-array-b', 'array',
                       ('raise', 'AssertionError', "types mismatch: <class 'ceos_alos2.hierarchy.Variable'> != <class 'ceos_alos2.array.Array'>", 'NoneType')),
                      ('var-array-b', 'array-dtype',
                       ('raise', 'AssertionError', "types mismatch: <class 'ceos_alos2.hierarchy.Variable'> != <class 'ceos_alos2.array.Array'>", 'NoneType')),
                      ('var-array-b', 'array-url',
                       ('raise', 'AssertionError', "types mismatch: <class 'ceos_alos2.hierarchy.Variable'> != <class 'ceos_alos2.array.Array'>", 'NoneType')),
                      ('var-array-b', 'array-path',
                       ('raise', 'AssertionError', "types mismatch: <class 'ceos_alos2.hierarchy.Variable'> != <class 'ceos_alos2.array.Array'>", 'NoneType')),
                      ('var-array-b', 'array-file',
                       ('raise', 'AssertionError', "types mismatch: <class 'ceos_alos2.hierarchy.Variable'> != <class 'ceos_alos2.array.Array'>", 'NoneType')),
                      ('var-array-b', 'array-ranges',
                       ('raise', 'AssertionError', "types mismatch: <class 'ceos_alos2.hierarchy.Variable'> != <class 'ceos_alos2.array.Array'>", 'NoneType')),
                      ('var-array-b', 'array-rpc',
                       ('raise', 'AssertionError', "types mismatch: <class 'ceos_alos2.hierarchy.Variable'> != <class 'ceos_alos2.array.Array'>", 'NoneType')),
                      ('var-array-b', 'array-type-code',
                       ('raise', 'AssertionError', "types mismatch: <class 'ceos_alos2.hierarchy.Variable'> != <class 'ceos_alos2.array.Array'>", 'NoneType')),
                      ('var-array-b', 'subarray',
                       ('raise', 'AssertionError', "types mismatch: <class 'ceos_alos2.hierarchy.Variable'> != <class 'equiv.SubArray'>", 'NoneType')),
                      ('var-array-b', 'int',
                       ('raise', 'AssertionError', "types mismatch: <class 'ceos_alos2.hierarchy.Variable'> != <class 'int'>", 'NoneType')),
                      ('var-array-b', 'int-b',
                       ('raise', 'AssertionError', "types mismatch: <class 'ceos_alos2.hierarchy.Variable'> != <class 'int'>", 'NoneType')),
                      ('var-array-b', 'float',
                       ('raise', 'AssertionError', "types mismatch: <class 'ceos_alos2.hierarchy.Variable'> != <class 'float'>", 'NoneType')),
                      ('var-array-b', 'str',
                       ('raise', 'AssertionError', "types mismatch: <class 'ceos_alos2.hierarchy.Variable'> != <class 'str'>", 'NoneType')),
                      ('var-array-b', 'none',
                       ('raise', 'AssertionError', "types mismatch: <class 'ceos_alos2.hierarchy.Variable'> != <class 'NoneType'>", 'NoneType')),
                      ('var-array-b', 'dict',
                       ('raise', 'AssertionError', "types mismatch: <class 'ceos_alos2.hierarchy.Variable'> != <class 'dict'>", 'NoneType')),
                      ('var-array-b', 'list',
                       ('raise', 'AssertionError', "types mismatch: <class 'ceos_alos2.hierarchy.Variable'> != <class 'list'>", 'NoneType')),
                      ('var-array-b', 'ndarray',
                       ('raise', 'AssertionError', "types mismatch: <class 'ceos_alos2.hierarchy.Variable'> != <class 'numpy.ndarray'>", 'NoneType')),
                      ('var-array-b', 'ndarray-b',
                       ('raise', 'AssertionError', "types mismatch: <class 'ceos_alos2.hierarchy.Variable'> != <class 'numpy.ndarray'>", 'NoneType')),
                      ('var-array-b', 'np-int',
                       ('raise', 'AssertionError', "types mismatch: <class 'ceos_alos2.hierarchy.Variable'> != <class 'numpy.int8'>", 'NoneType')),
                      ('var-array-b', 'type',
                       ('raise', 'AssertionError', "types mismatch: <class 'ceos_alos2.hierarchy.Variable'> != <class 'abc.ABCMeta'>", 'NoneType')),
                      ('var-array-b', 'bool',
                       ('raise', 'AssertionError', "types mismatch: <class 'ceos_alos2.hierarchy.Variable'> != <class 'bool'>", 'NoneType')),
                      ('subvar', 'tree:empty',
                       ('raise', 'AssertionError', "types mismatch: <class 'equiv.SubVariable'> != <class 'ceos_alos2.hierarchy.Group'>", 'NoneType')),
                      ('subvar', 'tree:empty-url',
                       ('raise', 'AssertionError', "types mismatch: <class 'equiv.SubVariable'> != <class 'ceos_alos2.hierarchy.Group'>", 'NoneType')),
                      ('subvar', 'tree:vars',
                       ('raise', 'AssertionError', "types mismatch: <class 'equiv.SubVariable'> != <class 'ceos_alos2.hierarchy.Group'>", 'NoneType')),
                      ('subvar', 'tree:vars-b',
                       ('raise', 'AssertionError', "types mismatch: <class 'equiv.SubVariable'> != <class 'ceos_alos2.hierarchy.Group'>", 'NoneType')),
                      ('subvar', 'tree:one-a',
                       ('raise', 'AssertionError', "types mismatch: <class 'equiv.SubVariable'> != <class 'ceos_alos2.hierarchy.Group'>", 'NoneType')),
                      ('subvar', 'tree:two',
                       ('raise', 'AssertionError', "types mismatch: <class 'equiv.SubVariable'> != <class 'ceos_alos2.hierarchy.Group'>", 'NoneType')),
                      ('subvar', 'tree:two-b',
                       ('raise', 'AssertionError', "types mismatch: <class 'equiv.SubVariable'> != <class 'ceos_alos2.hierarchy.Group'>", 'NoneType')),
                      ('subvar', 'tree:two-c',
                       ('raise', 'AssertionError', "types mismatch: <class 'equiv.SubVariable'> != <class 'ceos_alos2.hierarchy.Group'>", 'NoneType')),
                      ('subvar', 'tree:arrays',
                       ('raise', 'AssertionError', "types mismatch: <class 'equiv.SubVariable'> != <class 'ceos_alos2.hierarchy.Group'>", 'NoneType')),
                      ('subvar', 'tree:arrays-b',
                       ('raise', 'AssertionError', "types mismatch: <class 'equiv.SubVariable'> != <class 'ceos_alos2.hierarchy.Group'>", 'NoneType')),
                      ('subvar', 'tree:sub',
                       ('raise', 'AssertionError', "types mismatch: <class 'equiv.SubVariable'> != <class 'equiv.SubGroup'>", 'NoneType')),
                      ('subvar', 'tree:sub-b',
                       ('raise', 'AssertionError', "types mismatch: <class 'equiv.SubVariable'> != <class 'equiv.SubGroup'>", 'NoneType')),
                      ('subvar', 'var',
                       ('raise', 'AssertionError', "types mismatch: <class 'equiv.SubVariable'> != <class 'ceos_alos2.hierarchy.Variable'>", 'NoneType')),
                      ('subvar', 'var-b',
                       ('raise', 'AssertionError', "types mismatch: <class 'equiv.SubVariable'> != <class 'ceos_alos2.hierarchy.Variable'>", 'NoneType')),
                      ('subvar', 'var-dims',
                       ('raise', 'AssertionError', "types mismatch: <class 'equiv.SubVariable'> != <class 'ceos_alos2.hierarchy.Variable'>", 'NoneType')),
                      ('subvar', 'var-attrs',
                       ('raise', 'AssertionError', "types mismatch: <class 'equiv.SubVariable'> != <class 'ceos_alos2.hierarchy.Variable'>", 'NoneType')),
                      ('subvar', 'var-dtype',
                       ('raise', 'AssertionError', "types mismatch: <class 'equiv.SubVariable'> != <class 'ceos_alos2.hierarchy.Variable'>", 'NoneType')),
                      ('subvar', 'var-array',
                       ('raise', 'AssertionError', "types mismatch: <class 'equiv.SubVariable'> != <class 'ceos_alos2.hierarchy.Variable'>", 'NoneType')),
                      ('subvar', 'var-array-b',
                       ('raise', 'AssertionError', "types mismatch: <class 'equiv.SubVariable'> != <class 'ceos_alos2.hierarchy.Variable'>", 'NoneType')),
                      ('subvar', 'subvar', ('ok', 'NoneType', 'None')),
                      ('subvar', 'subvar-b',
                       ('raise', 'AssertionError', 'Left and right Variable objects are not equal\n  Differing data:\n      L int8  1\n      R int8  2',
                        'NoneType')),
                      ('subvar', 'array',
                       ('raise', 'AssertionError', "types mismatch: <class 'equiv.SubVariable'> != <class 'ceos_alos2.array.Array'>", 'NoneType')),
                      ('subvar', 'array-dtype',
                       ('raise', 'AssertionError', "types mismatch: <class 'equiv.SubVariable'> != <class 'ceos_alos2.array.Array'>", 'NoneType')),
                      ('subvar', 'array-url',
                       ('raise', 'AssertionError', "types mismatch: <class 'equiv.SubVariable'> != <class 'ceos_alos2.array.Array'>", 'NoneType')),
                      ('subvar', 'array-path',
                       ('raise', 'AssertionError', "types mismatch: <class 'equiv.SubVariable'> != <class 'ceos_alos2.array.Array'>", 'NoneType')),
                      ('subvar', 'array-file',
                       ('raise', 'AssertionError', "types mismatch: <class 'equiv.SubVariable'> != <class 'ceos_alos2.array.Array'>", 'NoneType')),
                      ('subvar', 'array-ranges',
                       ('raise', 'AssertionError', "types mismatch: <class 'equiv.SubVariable'> != <class 'ceos_alos2.array.Array'>", 'NoneType')),
                      ('subvar', 'array-rpc',
                       ('raise', 'AssertionError', "types mismatch: <class 'equiv.SubVariable'> != <class 'ceos_alos2.array.Array'>", 'NoneType')),
                      ('subvar', 'array-type-code',
                       ('raise', 'AssertionError', "types mismatch: <class 'equiv.SubVariable'> != <class 'ceos_alos2.array.Array'>", 'NoneType')),
                      ('subvar', 'subarray',
                       ('raise', 'AssertionError', "types mismatch: <class 'equiv.SubVariable'> != <class 'equiv.SubArray'>", 'NoneType')),
                      ('subvar', 'int', ('raise', 'AssertionError', "types mismatch: <class 'equiv.SubVariable'> != <class 'int'>", 'NoneType')),
                      ('subvar', 'int-b', ('raise', 'AssertionError', "types mismatch: <class 'equiv.SubVariable'> != <class 'int'>", 'NoneType')),
                      ('subvar', 'float', ('raise', 'AssertionError', "types mismatch: <class 'equiv.SubVariable'> != <class 'float'>", 'NoneType')),
                      ('subvar', 'str', ('raise', 'AssertionError', "types mismatch: <class 'equiv.SubVariable'> != <class 'str'>", 'NoneType')),
                      ('subvar', 'none', ('raise', 'AssertionError', "types mismatch: <class 'equiv.SubVariable'> != <class 'NoneType'>", 'NoneType')),
                      ('subvar', 'dict', ('raise', 'AssertionError', "types mismatch: <class 'equiv.SubVariable'> != <class 'dict'>", 'NoneType')),
                      ('subvar', 'list', ('raise', 'AssertionError', "types mismatch: <class 'equiv.SubVariable'> != <class 'list'>", 'NoneType')),
                      ('subvar', 'ndarray', ('raise', 'AssertionError', "types mismatch: <class 'equiv.SubVariable'> != <class 'numpy.ndarray'>", 'NoneType')),
                      ('subvar', 'ndarray-b',
                       ('raise', 'AssertionError', "types mismatch: <class 'equiv.SubVariable'> != <class 'numpy.ndarray'>", 'NoneType')),
                      ('subvar', 'np-int', ('raise', 'AssertionError', "types mismatch: <class 'equiv.SubVariable'> != <class 'numpy.int8'>", 'NoneType')),
                      ('subvar', 'type', ('raise', 'AssertionError', "types mismatch: <class 'equiv.SubVariable'> != <class 'abc.ABCMeta'>", 'NoneType')),
                      ('subvar', 'bool', ('raise', 'AssertionError', "types mismatch: <class 'equiv.SubVariable'> != <class 'bool'>", 'NoneType')),
                      ('subvar-b', 'tree:empty',
                       ('raise', 'AssertionError', "types mismatch: <class 'equiv.SubVariable'> != <class 'ceos_alos2.hierarchy.Group'>", 'NoneType')),
                      ('subvar-b', 'tree:empty-url',
                       ('raise', 'AssertionError', "types mismatch: <class 'equiv.SubVariable'> != <class 'ceos_alos2.hierarchy.Group'>", 'NoneType')),
                      ('subvar-b', 'tree:vars',
                       ('raise', 'AssertionError', "types mismatch: <class 'equiv.SubVariable'> != <class 'ceos_alos2.hierarchy.Group'>", 'NoneType')),
                      ('subvar-b', 'tree:vars-b',
                       ('raise', 'AssertionError', "types mismatch: <class 'equiv.SubVariable'> != <class 'ceos_alos2.hierarchy.Group'>", 'NoneType')),
                      ('subvar-b', 'tree:one-a',
                       ('raise', 'AssertionError', "types mismatch: <class 'equiv.SubVariable'> != <class 'ceos_alos2.hierarchy.Group'>", 'NoneType')),
                      ('subvar-b', 'tree:two',
                       ('raise', 'AssertionError', "types mismatch: <class 'equiv.SubVariable'> != <class 'ceos_alos2.hierarchy.Group'>", 'NoneType')),
                      ('subvar-b', 'tree:two-b',
                       ('raise', 'AssertionError', "types mismatch: <class 'equiv.SubVariable'> != <class 'ceos_alos2.hierarchy.Group'>", 'NoneType')),
                      ('subvar-b', 'tree:two-c',
                       ('raise', 'AssertionError', "types mismatch: <class 'equiv.SubVariable'> != <class 'ceos_alos2.hierarchy.Group'>", 'NoneType')),
                      ('subvar-b', 'tree:arrays',
                       ('raise', 'AssertionError', "types mismatch: <class 'equiv.SubVariable'> != <class 'ceos_alos2.hierarchy.Group'>", 'NoneType')),
                      ('subvar-b', 'tree:arrays-b',
                       ('raise', 'AssertionError', "types mismatch: <class 'equiv.SubVariable'> != <class 'ceos_alos2.hierarchy.Group'>", 'NoneType')),
                      ('subvar-b', 'tree:sub',
                       ('raise', 'AssertionError', "types mismatch: <class 'equiv.SubVariable'> != <class 'equiv.SubGroup'>", 'NoneType')),
                      ('subvar-b', 'tree:sub-b',
                       ('raise', 'AssertionError', "types mismatch: <class 'equiv.SubVariable'> != <class 'equiv.SubGroup'>", 'NoneType')),
                      ('subvar-b', 'var',
                       ('raise', 'AssertionError', "types mismatch: <class 'equiv.SubVariable'> != <class 'ceos_alos2.hierarchy.Variable'>", 'NoneType')),
                      ('subvar-b', 'var-b',
                       ('raise', 'AssertionError', "types mismatch: <class 'equiv.SubVariable'> != <class 'ceos_alos2.hierarchy.Variable'>", 'NoneType')),
                      ('subvar-b', 'var-dims',
                       ('raise', 'AssertionError', "types mismatch: <class 'equiv.SubVariable'> != <class 'ceos_alos2.hierarchy.Variable'>", 'NoneType')),
                      ('subvar-b', 'var-attrs',
                       ('raise', 'AssertionError', "types mismatch: <class 'equiv.SubVariable'> != <class 'ceos_alos2.hierarchy.Variable'>", 'NoneType')),
                      ('subvar-b', 'var-dtype',
                       ('raise', 'AssertionError', "types mismatch: <class 'equiv.SubVariable'> != <class 'ceos_alos2.hierarchy.Variable'>", 'NoneType')),
                      ('subvar-b', 'var-array',
                       ('raise', 'AssertionError', "types mismatch: <class 'equiv.SubVariable'> != <class 'ceos_alos2.hierarchy.Variable'>", 'NoneType')),
                      ('subvar-b', 'var-array-b',
                       ('raise', 'AssertionError', "types mismatch: <class 'equiv.SubVariable'> != <class 'ceos_alos2.hierarchy.Variable'>", 'NoneType')),
                      ('subvar-b', 'subvar',
                       ('raise', 'AssertionError', 'Left and right Variable objects are not equal\n  Differing data:\n      L int8  2\n      R int8  1',
                        'NoneType')),
                      ('subvar-b', 'subvar-b', ('ok', 'NoneType', 'None')),
                      ('subvar-b', 'array',
                       ('raise', 'AssertionError', "types mismatch: <class 'equiv.SubVariable'> != <class 'ceos_alos2.array.Array'>", 'NoneType')),
                      ('subvar-b', 'array-dtype',
                       ('raise', 'AssertionError', "types mismatch: <class 'equiv.SubVariable'> != <class 'ceos_alos2.array.Array'>", 'NoneType')),
                      ('subvar-b', 'array-url',
                       ('raise', 'AssertionError', "types mismatch: <class 'equiv.SubVariable'> != <class 'ceos_alos2.array.Array'>", 'NoneType')),
                      ('subvar-b', 'array-path',
                       ('raise', 'AssertionError', "types mismatch: <class 'equiv.SubVariable'> != <class 'ceos_alos2.array.Array'>", 'NoneType')),
                      ('subvar-b', 'array-file',
                       ('raise', 'AssertionError', "types mismatch: <class 'equiv.SubVariable'> != <class 'ceos_alos2.array.Array'>", 'NoneType')),
                      ('subvar-b', 'array-ranges',
                       ('raise', 'AssertionError', "types mismatch: <class 'equiv.SubVariable'> != <class 'ceos_alos2.array.Array'>", 'NoneType')),
                      ('subvar-b', 'array-rpc',
                       ('raise', 'AssertionError', "types mismatch: <class 'equiv.SubVariable'> != <class 'ceos_alos2.array.Array'>", 'NoneType')),
                      ('subvar-b', 'array-type-code',
                       ('raise', 'AssertionError', "types mismatch: <class 'equiv.SubVariable'> != <class 'ceos_alos2.array.Array'>", 'NoneType')),
                      ('subvar-b', 'subarray',
                       ('raise', 'AssertionError', "types mismatch: <class 'equiv.SubVariable'> != <class 'equiv.SubArray'>", 'NoneType')),
                      ('subvar-b', 'int', ('raise', 'AssertionError', "types mismatch: <class 'equiv.SubVariable'> != <class 'int'>", 'NoneType')),
                      ('subvar-b', 'int-b', ('raise', 'AssertionError', "types mismatch: <class 'equiv.SubVariable'> != <class 'int'>", 'NoneType')),
                      ('subvar-b', 'float', ('raise', 'AssertionError', "types mismatch: <class 'equiv.SubVariable'> != <class 'float'>", 'NoneType')),
                      ('subvar-b', 'str', ('raise', 'AssertionError', "types mismatch: <class 'equiv.SubVariable'> != <class 'str'>", 'NoneType')),
                      ('subvar-b', 'none', ('raise', 'AssertionError', "types mismatch: <class 'equiv.SubVariable'> != <class 'NoneType'>", 'NoneType')),
                      ('subvar-b', 'dict', ('raise', 'AssertionError', "types mismatch: <class 'equiv.SubVariable'> != <class 'dict'>", 'NoneType')),
                      ('subvar-b', 'list', ('raise', 'AssertionError', "types mismatch: <class 'equiv.SubVariable'> != <class 'list'>", 'NoneType')),
                      ('subvar-b', 'ndarray',
                       ('raise', 'AssertionError', "types mismatch: <class 'equiv.SubVariable'> != <class 'numpy.ndarray'>", 'NoneType')),
                      ('subvar-b', 'ndarray-b',
                       ('raise', 'AssertionError', "types mismatch: <class 'equiv.SubVariable'> != <class 'numpy.ndarray'>", 'NoneType')),
                      ('subvar-b', 'np-int', ('raise', 'AssertionError', "types mismatch: <class 'equiv.SubVariable'> != <class 'numpy.int8'>", 'NoneType')),
                      ('subvar-b', 'type', ('raise', 'AssertionError', "types mismatch: <class 'equiv.SubVariable'> != <class 'abc.ABCMeta'>", 'NoneType')),
                      ('subvar-b', 'bool', ('raise', 'AssertionError', "types mismatch: <class 'equiv.SubVariable'> != <class 'bool'>", 'NoneType')),
                      ('array', 'tree:empty',
                       ('raise', 'AssertionError', "types mismatch: <class 'ceos_alos2.array.Array'> != <class 'ceos_alos2.hierarchy.Group'>", 'NoneType')),
                      ('array', 'tree:empty-url',
                       ('raise', 'AssertionError', "types mismatch: <class 'ceos_alos2.array.Array'> != <class 'ceos_alos2.hierarchy.Group'>", 'NoneType')),
                      ('array', 'tree:vars',
                       ('raise', 'AssertionError', "types mismatch: <class 'ceos_alos2.array.Array'> != <class 'ceos_alos2.hierarchy.Group'>", 'NoneType')),
                      ('array', 'tree:vars-b',
                       ('raise', 'AssertionError', "types mismatch: <class 'ceos_alos2.array.Array'> != <class 'ceos_alos2.hierarchy.Group'>", 'NoneType')),
                      ('array', 'tree:one-a',
                       ('raise', 'AssertionError', "types mismatch: <class 'ceos_alos2.array.Array'> != <class 'ceos_alos2.hierarchy.Group'>", 'NoneType')),
                      ('array', 'tree:two',
                       ('raise', 'AssertionError', "types mismatch: <class 'ceos_alos2.array.Array'> != <class 'ceos_alos2.hierarchy.Group'>", 'NoneType')),
                      ('array', 'tree:two-b',
                       ('raise', 'AssertionError', "types mismatch: <class 'ceos_alos2.array.Array'> != <class 'ceos_alos2.hierarchy.Group'>", 'NoneType')),
                      ('array', 'tree:two-c',
                       ('raise', 'AssertionError', "types mismatch: <class 'ceos_alos2.array.Array'> != <class 'ceos_alos2.hierarchy.Group'>", 'NoneType')),
                      ('array', 'tree:arrays',
                       ('raise', 'AssertionError', "types mismatch: <class 'ceos_alos2.array.Array'> != <class 'ceos_alos2.hierarchy.Group'>", 'NoneType')),
                      ('array', 'tree:arrays-b',
                       ('raise', 'AssertionError', "types mismatch: <class 'ceos_alos2.array.Array'> != <class 'ceos_alos2.hierarchy.Group'>", 'NoneType')),
                      ('array', 'tree:sub',
                       ('raise', 'AssertionError', "types mismatch: <class 'ceos_alos2.array.Array'> != <class 'equiv.SubGroup'>", 'NoneType')),
                      ('array', 'tree:sub-b',
                       ('raise', 'AssertionError', "types mismatch: <class 'ceos_alos2.array.Array'> != <class 'equiv.SubGroup'>", 'NoneType')),
                      ('array', 'var',
                       ('raise', 'AssertionError', "types mismatch: <class 'ceos_alos2.array.Array'> != <class 'ceos_alos2.hierarchy.Variable'>", 'NoneType')),
                      ('array', 'var-b',
                       ('raise', 'AssertionError', "types mismatch: <class 'ceos_alos2.array.Array'> != <class 'ceos_alos2.hierarchy.Variable'>", 'NoneType')),
                      ('array', 'var-dims',
                       ('raise', 'AssertionError', "types mismatch: <class 'ceos_alos2.array.Array'> != <class 'ceos_alos2.hierarchy.Variable'>", 'NoneType')),
                      ('array', 'var-attrs',
                       ('raise', 'AssertionError', "types mismatch: <class 'ceos_alos2.array.Array'> != <class 'ceos_alos2.hierarchy.Variable'>", 'NoneType')),
                      ('array', 'var-dtype',
                       ('raise', 'AssertionError', "types mismatch: <class 'ceos_alos2.array.Array'> != <class 'ceos_alos2.hierarchy.Variable'>", 'NoneType')),
                      ('array', 'var-array',
                       ('raise', 'AssertionError', "types mismatch: <class 'ceos_alos2.array.Array'> != <class 'ceos_alos2.hierarchy.Variable'>", 'NoneType')),
                      ('array', 'var-array-b',
                       ('raise', 'AssertionError', "types mismatch: <class 'ceos_alos2.array.Array'> != <class 'ceos_alos2.hierarchy.Variable'>", 'NoneType')),
                      ('array', 'subvar',
                       ('raise', 'AssertionError', "types mismatch: <class 'ceos_alos2.array.Array'> != <class 'equiv.SubVariable'>", 'NoneType')),
                      ('array', 'subvar-b',
                       ('raise', 'AssertionError', "types mismatch: <class 'ceos_alos2.array.Array'> != <class 'equiv.SubVariable'>", 'NoneType')),
                      ('array', 'array', ('ok', 'NoneType', 'None')),
                      ('array', 'array-dtype', ('raise', 'AssertionError', 'Differing dtypes:\n  int16 != int8', 'NoneType')),
                      ('array', 'array-url', ('raise', 'AssertionError', 'Differing urls:\n  L url  file\n  R url  file2', 'NoneType')),
                      ('array', 'array-path', ('raise', 'AssertionError', 'Differing filesystem:\n  L path  /path/to\n  R path  /other', 'NoneType')),
                      ('array', 'array-file',
                       ('raise', 'AssertionError', "Differing filesystem:\n  L protocol  memory\n  R protocol  ('file', 'local')", 'NoneType')),
                      ('array', 'array-ranges',
                       ('raise', 'AssertionError',
                        'Differing byte ranges:\n'
                        '  L line 1  (5, 10)\n'
                        '  R line 1  (0, 1)\n'
                        '  L line 2  (15, 20)\n'
                        '  R line 2  (2, 3)\n'
                        '  L line 3  (25, 30)\n'
                        '  R line 3  (3, 4)\n'
                        '  L line 4  (35, 40)\n'
                        '  R line 4  None',
                        'NoneType')),
                      ('array', 'array-rpc',
                       ('raise', 'AssertionError', 'Differing chunksizes:\n  L records_per_chunk  2\n  R records_per_chunk  3', 'NoneType')),
                      ('array', 'array-type-code', ('raise', 'AssertionError', 'Differing type code:\n  L type_code  IU2\n  R type_code  C*8', 'NoneType')),
                      ('array', 'subarray',
                       ('raise', 'AssertionError', "types mismatch: <class 'ceos_alos2.array.Array'> != <class 'equiv.SubArray'>", 'NoneType')),
                      ('array', 'int', ('raise', 'AssertionError', "types mismatch: <class 'ceos_alos2.array.Array'> != <class 'int'>", 'NoneType')),
                      ('array', 'int-b', ('raise', 'AssertionError', "types mismatch: <class 'ceos_alos2.array.Array'> != <class 'int'>", 'NoneType')),
                      ('array', 'float', ('raise', 'AssertionError', "types mismatch: <class 'ceos_alos2.array.Array'> != <class 'float'>", 'NoneType')),
                      ('array', 'str', ('raise', 'AssertionError', "types mismatch: <class 'ceos_alos2.array.Array'> != <class 'str'>", 'NoneType')),
                      ('array', 'none', ('raise', 'AssertionError', "types mismatch: <class 'ceos_alos2.array.Array'> != <class 'NoneType'>", 'NoneType')),
                      ('array', 'dict', ('raise', 'AssertionError', "types mismatch: <class 'ceos_alos2.array.Array'> != <class 'dict'>", 'NoneType')),
                      ('array', 'list', ('raise', 'AssertionError', "types mismatch: <class 'ceos_alos2.array.Array'> != <class 'list'>", 'NoneType')),
                      ('array', 'ndarray',
                       ('raise', 'AssertionError', "types mismatch: <class 'ceos_alos2.array.Array'> != <class 'numpy.ndarray'>", 'NoneType')),
                      ('array', 'ndarray-b',
                       ('raise', 'AssertionError', "types mismatch: <class 'ceos_alos2.array.Array'> != <class 'numpy.ndarray'>", 'NoneType')),
                      ('array', 'np-int', ('raise', 'AssertionError', "types mismatch: <class 'ceos_alos2.array.Array'> != <class 'numpy.int8'>", 'NoneType')),
                      ('array', 'type', ('raise', 'AssertionError', "types mismatch: <class 'ceos_alos2.array.Array'> != <class 'abc.ABCMeta'>", 'NoneType')),
                      ('array', 'bool', ('raise', 'AssertionError', "types mismatch: <class 'ceos_alos2.array.Array'> != <class 'bool'>", 'NoneType')),
                      ('array-dtype', 'tree:empty',
                       ('raise', 'AssertionError', "types mismatch: <class 'ceos_alos2.array.Array'> != <class 'ceos_alos2.hierarchy.Group'>", 'NoneType')),
                      ('array-dtype', 'tree:empty-url',
                       ('raise', 'AssertionError', "types mismatch: <class 'ceos_alos2.array.Array'> != <class 'ceos_alos2.hierarchy.Group'>", 'NoneType')),
                      ('array-dtype', 'tree:vars',
                       ('raise', 'AssertionError', "types mismatch: <class 'ceos_alos2.array.Array'> != <class 'ceos_alos2.hierarchy.Group'>", 'NoneType')),
                      ('array-dtype', 'tree:vars-b',
                       ('raise', 'AssertionError', "types mismatch: <class 'ceos_alos2.array.Array'> != <class 'ceos_alos2.hierarchy.Group'>", 'NoneType')),
                      ('array-dtype', 'tree:one-a',
                       ('raise', 'AssertionError', "types mismatch: <class 'ceos_alos2.array.Array'> != <class 'ceos_alos2.hierarchy.Group'>", 'NoneType')),
                      ('array-dtype', 'tree:two',
                       ('raise', 'AssertionError', "types mismatch: <class 'ceos_alos2.array.Array'> != <class 'ceos_alos2.hierarchy.Group'>", 'NoneType')),
                      ('array-dtype', 'tree:two-b',
                       ('raise', 'AssertionError', "types mismatch: <class 'ceos_alos2.array.Array'> != <class 'ceos_alos2.hierarchy.Group'>", 'NoneType')),
                      ('array-dtype', 'tree:two-c',
                       ('raise', 'AssertionError', "types mismatch: <class 'ceos_alos2.array.Array'> != <class 'ceos_alos2.hierarchy.Group'>", 'NoneType')),
                      ('array-dtype', 'tree:arrays',
                       ('raise', 'AssertionError', "types mismatch: <class 'ceos_alos2.array.Array'> != <class 'ceos_alos2.hierarchy.Group'>", 'NoneType')),
                      ('array-dtype', 'tree:arrays-b',
                       ('raise', 'AssertionError', "types mismatch: <class 'ceos_alos2.array.Array'> != <class 'ceos_alos2.hierarchy.Group'>", 'NoneType')),
                      ('array-dtype', 'tree:sub',
                       ('raise', 'AssertionError', "types mismatch: <class 'ceos_alos2.array.Array'> != <class 'equiv.SubGroup'>", 'NoneType')),
                      ('array-dtype', 'tree:sub-b',
                       ('raise', 'AssertionError', "types mismatch: <class 'ceos_alos2.array.Array'> != <class 'equiv.SubGroup'>", 'NoneType')),
                      ('array-dtype', 'var',
                       ('raise', 'AssertionError', "types mismatch: <class 'ceos_alos2.array.Array'> != <class 'ceos_alos2.hierarchy.Variable'>", 'NoneType')),
                      ('array-dtype', 'var-b',
                       ('raise', 'AssertionError', "types mismatch: <class 'ceos_alos2.array.Array'> != <class 'ceos_alos2.hierarchy.Variable'>", 'NoneType')),
                      ('array-dtype', 'var-dims',
                       ('raise', 'AssertionError', "types mismatch: <class 'ceos_alos2.array.Array'> != <class 'ceos_alos2.hierarchy.Variable'>", 'NoneType')),
                      ('array-dtype', 'var-attrs',
                       ('raise', 'AssertionError', "types mismatch: <class 'ceos_alos2.array.Array'> != <class 'ceos_alos2.hierarchy.Variable'>", 'NoneType')),
                      ('array-dtype', 'var-dtype',
                       ('raise', 'AssertionError', "types mismatch: <class 'ceos_alos2.array.Array'> != <class 'ceos_alos2.hierarchy.Variable'>", 'NoneType')),
                      ('array-dtype', 'var-array',
                       ('raise', 'AssertionError', "types mismatch: <class 'ceos_alos2.array.Array'> != <class 'ceos_alos2.hierarchy.Variable'>", 'NoneType')),
                      ('array-dtype', 'var-array-b',
                       ('raise', 'AssertionError', "types mismatch: <class 'ceos_alos2.array.Array'> != <class 'ceos_alos2.hierarchy.Variable'>", 'NoneType')),
                      ('array-dtype', 'subvar',
                       ('raise', 'AssertionError', "types mismatch: <class 'ceos_alos2.array.Array'> != <class 'equiv.SubVariable'>", 'NoneType')),
                      ('array-dtype', 'subvar-b',
                       ('raise', 'AssertionError', "types mismatch: <class 'ceos_alos2.array.Array'> != <class 'equiv.SubVariable'>", 'NoneType')),
                      ('array-dtype', 'array', ('raise', 'AssertionError', 'Differing dtypes:\n  int8 != int16', 'NoneType')),
                      ('array-dtype', 'array-dtype', ('ok', 'NoneType', 'None')),
                      ('array-dtype', 'array-url',
                       ('raise', 'AssertionError', 'Differing urls:\n  L url  file\n  R url  file2\nDiffering dtypes:\n  int8 != int16', 'NoneType')),
                      ('array-dtype', 'array-path',
                       ('raise', 'AssertionError', 'Differing filesystem:\n  L path  /path/to\n  R path  /other\nDiffering dtypes:\n  int8 != int16',
                        'NoneType')),
                      ('array-dtype', 'array-file',
                       ('raise', 'AssertionError',
                        "Differing filesystem:\n  L protocol  memory\n  R protocol  ('file', 'local')\nDiffering dtypes:\n  int8 != int16", 'NoneType')),
                      ('array-dtype', 'array-ranges',
                       ('raise', 'AssertionError',
                        'Differing byte ranges:\n'
                        '  L line 1  (5, 10)\n'
                        '  R line 1  (0, 1)\n'
                        '  L line 2  (15, 20)\n'
                        '  R line 2  (2, 3)\n'
                        '  L line 3  (25, 30)\n'
                        '  R line 3  (3, 4)\n'
                        '  L line 4  (35, 40)\n'
                        '  R line 4  None\n'
                        'Differing dtypes:\n'
                        '  int8 != int16',
                        'NoneType')),
                      ('array-dtype', 'array-rpc',
                       ('raise', 'AssertionError',
                        'Differing dtypes:\n  int8 != int16\nDiffering chunksizes:\n  L records_per_chunk  2\n  R records_per_chunk  3', 'NoneType')),
                      ('array-dtype', 'array-type-code',
                       ('raise', 'AssertionError', 'Differing dtypes:\n  int8 != int16\nDiffering type code:\n  L type_code  IU2\n  R type_code  C*8',
                        'NoneType')),
                      ('array-dtype', 'subarray',
                       ('raise', 'AssertionError', "types mismatch: <class 'ceos_alos2.array.Array'> != <class 'equiv.SubArray'>", 'NoneType')),
                      ('array-dtype', 'int', ('raise', 'AssertionError', "types mismatch: <class 'ceos_alos2.array.Array'> != <class 'int'>", 'NoneType')),
                      ('array-dtype', 'int-b', ('raise', 'AssertionError', "types mismatch: <class 'ceos_alos2.array.Array'> != <class 'int'>", 'NoneType')),
                      ('array-dtype', 'float', ('raise', 'AssertionError', "types mismatch: <class 'ceos_alos2.array.Array'> != <class 'float'>", 'NoneType')),
                      ('array-dtype', 'str', ('raise', 'AssertionError', "types mismatch: <class 'ceos_alos2.array.Array'> != <class 'str'>", 'NoneType')),
                      ('array-dtype', 'none',
                       ('raise', 'AssertionError', "types mismatch: <class 'ceos_alos2.array.Array'> != <class 'NoneType'>", 'NoneType')),
                      ('array-dtype', 'dict', ('raise', 'AssertionError', "types mismatch: <class 'ceos_alos2.array.Array'> != <class 'dict'>", 'NoneType')),
                      ('array-dtype', 'list', ('raise', 'AssertionError', "types mismatch: <class 'ceos_alos2.array.Array'> != <class 'list'>", 'NoneType')),
                      ('array-dtype', 'ndarray',
                       ('raise', 'AssertionError', "types mismatch: <class 'ceos_alos2.array.Array'> != <class 'numpy.ndarray'>", 'NoneType')),
                      ('array-dtype', 'ndarray-b',
                       ('raise', 'AssertionError', "types mismatch: <class 'ceos_alos2.array.Array'> != <class 'numpy.ndarray'>", 'NoneType')),
                      ('array-dtype', 'np-int',
                       ('raise', 'AssertionError', "types mismatch: <class 'ceos_alos2.array.Array'> != <class 'numpy.int8'>", 'NoneType')),
                      ('array-dtype', 'type',
                       ('raise', 'AssertionError', "types mismatch: <class 'ceos_alos2.array.Array'> != <class 'abc.ABCMeta'>", 'NoneType')),
                      ('array-dtype', 'bool', ('raise', 'AssertionError', "types mismatch: <class 'ceos_alos2.array.Array'> != <class 'bool'>", 'NoneType')),
                      ('array-url', 'tree:empty',
                       ('raise', 'AssertionError', "types mismatch: <class 'ceos_alos2.array.Array'> != <class 'ceos_alos2.hierarchy.Group'>", 'NoneType')),
                      ('array-url', 'tree:empty-url',
                       ('raise', 'AssertionError', "types mismatch: <class 'ceos_alos2.array.Array'> != <class 'ceos_alos2.hierarchy.Group'>", 'NoneType')),
                      ('array-url', 'tree:vars',
                       ('raise', 'AssertionError', "types mismatch: <class 'ceos_alos2.array.Array'> != <class 'ceos_alos2.hierarchy.Group'>", 'NoneType')),
                      ('array-url', 'tree:vars-b',
                       ('raise', 'AssertionError', "types mismatch: <class 'ceos_alos2.array.Array'> != <class 'ceos_alos2.hierarchy.Group'>", 'NoneType')),
                      ('array-url', 'tree:one-a',
                       ('raise', 'AssertionError', "types mismatch: <class 'ceos_alos2.array.Array'> != <class 'ceos_alos2.hierarchy.Group'>", 'NoneType')),
                      ('array-url', 'tree:two',
                       ('raise', 'AssertionError', "types mismatch: <class 'ceos_alos2.array.Array'> != <class 'ceos_alos2.hierarchy.Group'>", 'NoneType')),
                      ('array-url', 'tree:two-b',
                       ('raise', 'AssertionError', "types mismatch: <class 'ceos_alos2.array.Array'> != <class 'ceos_alos2.hierarchy.Group'>", 'NoneType')),
                      ('array-url', 'tree:two-c',
                       ('raise', 'AssertionError', "types mismatch: <class 'ceos_alos2.array.Array'> != <class 'ceos_alos2.hierarchy.Group'>", 'NoneType')),
                      ('array-url', 'tree:arrays',
                       ('raise', 'AssertionError', "types mismatch: <class 'ceos_alos2.array.Array'> != <class 'ceos_alos2.hierarchy.Group'>", 'NoneType')),
                      ('array-url', 'tree:arrays-b',
                       ('raise', 'AssertionError', "types mismatch: <class 'ceos_alos2.array.Array'> != <class 'ceos_alos2.hierarchy.Group'>", 'NoneType')),
                      ('array-url', 'tree:sub',
                       ('raise', 'AssertionError', "types mismatch: <class 'ceos_alos2.array.Array'> != <class 'equiv.SubGroup'>", 'NoneType')),
                      ('array-url', 'tree:sub-b',
                       ('raise', 'AssertionError', "types mismatch: <class 'ceos_alos2.array.Array'> != <class 'equiv.SubGroup'>", 'NoneType')),
                      ('array-url', 'var',
                       ('raise', 'AssertionError', "types mismatch: <class 'ceos_alos2.array.Array'> != <class 'ceos_alos2.hierarchy.Variable'>", 'NoneType')),
                      ('array-url', 'var-b',
                       ('raise', 'AssertionError', "types mismatch: <class 'ceos_alos2.array.Array'> != <class 'ceos_alos2.hierarchy.Variable'>", 'NoneType')),
                      ('array-url', 'var-dims',
                       ('raise', 'AssertionError', "types mismatch: <class 'ceos_alos2.array.Array'> != <class 'ceos_alos2.hierarchy.Variable'>", 'NoneType')),
                      ('array-url', 'var-attrs',
                       ('raise', 'AssertionError', "types mismatch: <class 'ceos_alos2.array.Array'> != <class 'ceos_alos2.hierarchy.Variable'>", 'NoneType')),
                      ('array-url', 'var-dtype',
                       ('raise', 'AssertionError', "types mismatch: <class 'ceos_alos2.array.Array'> != <class 'ceos_alos2.hierarchy.Variable'>", 'NoneType')),
                      ('array-url', 'var-array',
                       ('raise', 'AssertionError', "types mismatch: <class 'ceos_alos2.array.Array'> != <class 'ceos_alos2.hierarchy.Variable'>", 'NoneType')),
                      ('array-url', 'var-array-b',
                       ('raise', 'AssertionError', "types mismatch: <class 'ceos_alos2.array.Array'> != <class 'ceos_alos2.hierarchy.Variable'>", 'NoneType')),
                      ('array-url', 'subvar',
                       ('raise', 'AssertionError', "types mismatch: <class 'ceos_alos2.array.Array'> != <class 'equiv.SubVariable'>", 'NoneType')),
                      ('array-url', 'subvar-b',
                       ('raise', 'AssertionError', "types mismatch: <class 'ceos_alos2.array.Array'> != <class 'equiv.SubVariable'>", 'NoneType')),
                      ('array-url', 'array', ('raise', 'AssertionError', 'Differing urls:\n  L url  file2\n  R url  file', 'NoneType')),
                      ('array-url', 'array-dtype',
                       ('raise', 'AssertionError', 'Differing urls:\n  L url  file2\n  R url  file\nDiffering dtypes:\n  int16 != int8', 'NoneType')),
                      ('array-url', 'array-url', ('ok', 'NoneType', 'None')),
                      ('array-url', 'array-path',
                       ('raise', 'AssertionError',
                        'Differing filesystem:\n  L path  /path/to\n  R path  /other\nDiffering urls:\n  L url  file2\n  R url  file', 'NoneType')),
                      ('array-url', 'array-file',
                       ('raise', 'AssertionError',
                        "Differing filesystem:\n  L protocol  memory\n  R protocol  ('file', 'local')\nDiffering urls:\n  L url  file2\n  R url  file",
                        'NoneType')),
                      ('array-url', 'array-ranges',
                       ('raise', 'AssertionError',
                        'Differing urls:\n'
                        '  L url  file2\n'
                        '  R url  file\n'
                        'Differing byte ranges:\n'
                        '  L line 1  (5, 10)\n'
                        '  R line 1  (0, 1)\n'
                        '  L line 2  (15, 20)\n'
                        '  R line 2  (2, 3)\n'
                        '  L line 3  (25, 30)\n'
                        '  R line 3  (3, 4)\n'
                        '  L line 4  (35, 40)\n'
                        '  R line 4  None',
                        'NoneType')),
                      ('array-url', 'array-rpc',
                       ('raise', 'AssertionError',
                        'Differing urls:\n  L url  file2\n  R url  file\nDiffering chunksizes:\n  L records_per_chunk  2\n  R records_per_chunk  3',
                        'NoneType')),
                      ('array-url', 'array-type-code',
                       ('raise', 'AssertionError',
                        'Differing urls:\n  L url  file2\n  R url  file\nDiffering type code:\n  L type_code  IU2\n  R type_code  C*8', 'NoneType')),
                      ('array-url', 'subarray',
                       ('raise', 'AssertionError', "types mismatch: <class 'ceos_alos2.array.Array'> != <class 'equiv.SubArray'>", 'NoneType')),
                      ('array-url', 'int', ('raise', 'AssertionError', "types mismatch: <class 'ceos_alos2.array.Array'> != <class 'int'>", 'NoneType')),
                      ('array-url', 'int-b', ('raise', 'AssertionError', "types mismatch: <class 'ceos_alos2.array.Array'> != <class 'int'>", 'NoneType')),
                      ('array-url', 'float', ('raise', 'AssertionError', "types mismatch: <class 'ceos_alos2.array.Array'> != <class 'float'>", 'NoneType')),
                      ('array-url', 'str', ('raise', 'AssertionError', "types mismatch: <class 'ceos_alos2.array.Array'> != <class 'str'>", 'NoneType')),
                      ('array-url', 'none', ('raise', 'AssertionError', "types mismatch: <class 'ceos_alos2.array.Array'> != <class 'NoneType'>", 'NoneType')),
                      ('array-url', 'dict', ('raise', 'AssertionError', "types mismatch: <class 'ceos_alos2.array.Array'> != <class 'dict'>", 'NoneType')),
                      ('array-url', 'list', ('raise', 'AssertionError', "types mismatch: <class 'ceos_alos2.array.Array'> != <class 'list'>", 'NoneType')),
                      ('array-url', 'ndarray',
                       ('raise', 'AssertionError', "types mismatch: <class 'ceos_alos2.array.Array'> != <class 'numpy.ndarray'>", 'NoneType')),
                      ('array-url', 'ndarray-b',
                       ('raise', 'AssertionError', "types mismatch: <class 'ceos_alos2.array.Array'> != <class 'numpy.ndarray'>", 'NoneType')),
                      ('array-url', 'np-int',
                       ('raise', 'AssertionError', "types mismatch: <class 'ceos_alos2.array.Array'> != <class 'numpy.int8'>", 'NoneType')),
                      ('array-url', 'type',
                       ('raise', 'AssertionError', "types mismatch: <class 'ceos_alos2.array.Array'> != <class 'abc.ABCMeta'>", 'NoneType')),
                      ('array-url', 'bool', ('raise', 'AssertionError', "types mismatch: <class 'ceos_alos2.array.Array'> != <class 'bool'>", 'NoneType')),
                      ('array-path', 'tree:empty',
                       ('raise', 'AssertionError', "types mismatch: <class 'ceos_alos2.array.Array'> != <class 'ceos_alos2.hierarchy.Group'>", 'NoneType')),
                      ('array-path', 'tree:empty-url',
                       ('raise', 'AssertionError', "types mismatch: <class 'ceos_alos2.array.Array'> != <class 'ceos_alos2.hierarchy.Group'>", 'NoneType')),
                      ('array-path', 'tree:vars',
                       ('raise', 'AssertionError', "types mismatch: <class 'ceos_alos2.array.Array'> != <class 'ceos_alos2.hierarchy.Group'>", 'NoneType')),
                      ('array-path', 'tree:vars-b',
                       ('raise', 'AssertionError', "types mismatch: <class 'ceos_alos2.array.Array'> != <class 'ceos_alos2.hierarchy.Group'>", 'NoneType')),
                      ('array-path', 'tree:one-a',
                       ('raise', 'AssertionError', "types mismatch: <class 'ceos_alos2.array.Array'> != <class 'ceos_alos2.hierarchy.Group'>", 'NoneType')),
                      ('array-path', 'tree:two',
                       ('raise', 'AssertionError', "types mismatch: <class 'ceos_alos2.array.Array'> != <class 'ceos_alos2.hierarchy.Group'>", 'NoneType')),
                      ('array-path', 'tree:two-b',
                       ('raise', 'AssertionError', "types mismatch: <class 'ceos_alos2.array.Array'> != <class 'ceos_alos2.hierarchy.Group'>", 'NoneType')),
                      ('array-path', 'tree:two-c',
                       ('raise', 'AssertionError', "types mismatch: <class 'ceos_alos2.array.Array'> != <class 'ceos_alos2.hierarchy.Group'>", 'NoneType')),
                      ('array-path', 'tree:arrays',
                       ('raise', 'AssertionError', "types mismatch: <class 'ceos_alos2.array.Array'> != <class 'ceos_alos2.hierarchy.Group'>", 'NoneType')),
                      ('array-path', 'tree:arrays-b',
                       ('raise', 'AssertionError', "types mismatch: <class 'ceos_alos2.array.Array'> != <class 'ceos_alos2.hierarchy.Group'>", 'NoneType')),
                      ('array-path', 'tree:sub',
                       ('raise', 'AssertionError', "types mismatch: <class 'ceos_alos2.array.Array'> != <class 'equiv.SubGroup'>", 'NoneType')),
                      ('array-path', 'tree:sub-b',
                       ('raise', 'AssertionError', "types mismatch: <class 'ceos_alos2.array.Array'> != <class 'equiv.SubGroup'>", 'NoneType')),
                      ('array-path', 'var',
                       ('raise', 'AssertionError', "types mismatch: <class 'ceos_alos2.array.Array'> != <class 'ceos_alos2.hierarchy.Variable'>", 'NoneType')),
                      ('array-path', 'var-b',
                       ('raise', 'AssertionError', "types mismatch: <class 'ceos_alos2.array.Array'> != <class 'ceos_alos2.hierarchy.Variable'>", 'NoneType')),
                      ('array-path', 'var-dims',
                       ('raise', 'AssertionError', "types mismatch: <class 'ceos_alos2.array.Array'> != <class 'ceos_alos2.hierarchy.Variable'>", 'NoneType')),
                      ('array-path', 'var-attrs',
                       ('raise', 'AssertionError', "types mismatch: <class 'ceos_alos2.array.Array'> != <class 'ceos_alos2.hierarchy.Variable'>", 'NoneType')),
                      ('array-path', 'var-dtype',
                       ('raise', 'AssertionError', "types mismatch: <class 'ceos_alos2.array.Array'> != <class 'ceos_alos2.hierarchy.Variable'>", 'NoneType')),
                      ('array-path', 'var-array',
                       ('raise', 'AssertionError', "types mismatch: <class 'ceos_alos2.array.Array'> != <class 'ceos_alos2.hierarchy.Variable'>", 'NoneType')),
                      ('array-path', 'var-array-b',
                       ('raise', 'AssertionError', "types mismatch: <class 'ceos_alos2.array.Array'> != <class 'ceos_alos2.hierarchy.Variable'>", 'NoneType')),
                      ('array-path', 'subvar',
                       ('raise', 'AssertionError', "types mismatch: <class 'ceos_alos2.array.Array'> != <class 'equiv.SubVariable'>", 'NoneType')),
                      ('array-path', 'subvar-b',
                       ('raise', 'AssertionError', "types mismatch: <class 'ceos_alos2.array.Array'> != <class 'equiv.SubVariable'>", 'NoneType')),
                      ('array-path', 'array', ('raise', 'AssertionError', 'Differing filesystem:\n  L path  /other\n  R path  /path/to', 'NoneType')),
                      ('array-path', 'array-dtype',
                       ('raise', 'AssertionError', 'Differing filesystem:\n  L path  /other\n  R path  /path/to\nDiffering dtypes:\n  int16 != int8',
                        'NoneType')),
                      ('array-path', 'array-url',
                       ('raise', 'AssertionError',
                        'Differing filesystem:\n  L path  /other\n  R path  /path/to\nDiffering urls:\n  L url  file\n  R url  file2', 'NoneType')),
                      ('array-path', 'array-path', ('ok', 'NoneType', 'None')),
                      ('array-path', 'array-file',
                       ('raise', 'AssertionError',
                        "Differing filesystem:\n  L protocol  memory\n  R protocol  ('file', 'local')\n  L path  /other\n  R path  /path/to", 'NoneType')),
                      ('array-path', 'array-ranges',
                       ('raise', 'AssertionError',
                        'Differing filesystem:\n'
                        '  L path  /other\n'
                        '  R path  /path/to\n'
                        'Differing byte ranges:\n'
                        '  L line 1  (5, 10)\n'
                        '  R line 1  (0, 1)\n'
                        '  L line 2  (15, 20)\n'
                        '  R line 2  (2, 3)\n'
                        '  L line 3  (25, 30)\n'
                        '  R line 3  (3, 4)\n'
                        '  L line 4  (35, 40)\n'
                        '  R line 4  None',
                        'NoneType')),
                      ('array-path', 'array-rpc',
                       ('raise', 'AssertionError',
                        'Differing filesystem:\n'
                        '  L path  /other\n'
                        '  R path  /path/to\n'
                        'Differing chunksizes:\n'
                        '  L records_per_chunk  2\n'
                        '  R records_per_chunk  3',
                        'NoneType')),
                      ('array-path', 'array-type-code',
                       ('raise', 'AssertionError',
                        'Differing filesystem:\n  L path  /other\n  R path  /path/to\nDiffering type code:\n  L type_code  IU2\n  R type_code  C*8',
                        'NoneType')),
                      ('array-path', 'subarray',
                       ('raise', 'AssertionError', "types mismatch: <class 'ceos_alos2.array.Array'> != <class 'equiv.SubArray'>", 'NoneType')),
                      ('array-path', 'int', ('raise', 'AssertionError', "types mismatch: <class 'ceos_alos2.array.Array'> != <class 'int'>", 'NoneType')),
                      ('array-path', 'int-b', ('raise', 'AssertionError', "types mismatch: <class 'ceos_alos2.array.Array'> != <class 'int'>", 'NoneType')),
                      ('array-path', 'float', ('raise', 'AssertionError', "types mismatch: <class 'ceos_alos2.array.Array'> != <class 'float'>", 'NoneType')),
                      ('array-path', 'str', ('raise', 'AssertionError', "types mismatch: <class 'ceos_alos2.array.Array'> != <class 'str'>", 'NoneType')),
                      ('array-path', 'none', ('raise', 'AssertionError', "types mismatch: <class 'ceos_alos2.array.Array'> != <class 'NoneType'>", 'NoneType')),
                      ('array-path', 'dict', ('raise', 'AssertionError', "types mismatch: <class 'ceos_alos2.array.Array'> != <class 'dict'>", 'NoneType')),
                      ('array-path', 'list', ('raise', 'AssertionError', "types mismatch: <class 'ceos_alos2.array.Array'> != <class 'list'>", 'NoneType')),
                      ('array-path', 'ndarray',
                       ('raise', 'AssertionError', "types mismatch: <class 'ceos_alos2.array.Array'> != <class 'numpy.ndarray'>", 'NoneType')),
                      ('array-path', 'ndarray-b',
                       ('raise', 'AssertionError', "types mismatch: <class 'ceos_alos2.array.Array'> != <class 'numpy.ndarray'>", 'NoneType')),
                      ('array-path', 'np-int',
                       ('raise', 'AssertionError', "types mismatch: <class 'ceos_alos2.array.Array'> != <class 'numpy.int8'>", 'NoneType')),
                      ('array-path', 'type',
                       ('raise', 'AssertionError', "types mismatch: <class 'ceos_alos2.array.Array'> != <class 'abc.ABCMeta'>", 'NoneType')),
                      ('array-path', 'bool', ('raise', 'AssertionError', "types mismatch: <class 'ceos_alos2.array.Array'> != <class 'bool'>", 'NoneType')),
                      ('array-file', 'tree:empty',
                       ('raise', 'AssertionError', "types mismatch: <class 'ceos_alos2.array.Array'> != <class 'ceos_alos2.hierarchy.Group'>", 'NoneType')),
                      ('array-file', 'tree:empty-url',
                       ('raise', 'AssertionError', "types mismatch: <class 'ceos_alos2.array.Array'> != <class 'ceos_alos2.hierarchy.Group'>", 'NoneType')),
                      ('array-file', 'tree:vars',
                       ('raise', 'AssertionError', "types mismatch: <class 'ceos_alos2.array.Array'> != <class 'ceos_alos2.hierarchy.Group'>", 'NoneType')),
                      ('array-file', 'tree:vars-b',
                       ('raise', 'AssertionError', "types mismatch: <class 'ceos_alos2.array.Array'> != <class 'ceos_alos2.hierarchy.Group'>", 'NoneType')),
                      ('array-file', 'tree:one-a',
                       ('raise', 'AssertionError', "types mismatch: <class 'ceos_alos2.array.Array'> != <class 'ceos_alos2.hierarchy.Group'>", 'NoneType')),
                      ('array-file', 'tree:two',
                       ('raise', 'AssertionError', "types mismatch: <class 'ceos_alos2.array.Array'> != <class 'ceos_alos2.hierarchy.Group'>", 'NoneType')),
                      ('array-file', 'tree:two-b',
                       ('raise', 'AssertionError', "types mismatch: <class 'ceos_alos2.array.Array'> != <class 'ceos_alos2.hierarchy.Group'>", 'NoneType')),
                      ('array-file', 'tree:two-c',
                       ('raise', 'AssertionError', "types mismatch: <class 'ceos_alos2.array.Array'> != <class 'ceos_alos2.hierarchy.Group'>", 'NoneType')),
                      ('array-file', 'tree:arrays',
                       ('raise', 'AssertionError', "types mismatch: <class 'ceos_alos2.array.Array'> != <class 'ceos_alos2.hierarchy.Group'>", 'NoneType')),
                      ('array-file', 'tree:arrays-b',
                       ('raise', 'AssertionError', "types mismatch: <class 'ceos_alos2.array.Array'> != <class 'ceos_alos2.hierarchy.Group'>", 'NoneType')),
                      ('array-file', 'tree:sub',
                       ('raise', 'AssertionError', "types mismatch: <class 'ceos_alos2.array.Array'> != <class 'equiv.SubGroup'>", 'NoneType')),
                      ('array-file', 'tree:sub-b',
                       ('raise', 'AssertionError', "types mismatch: <class 'ceos_alos2.array.Array'> != <class 'equiv.SubGroup'>", 'NoneType')),
                      ('array-file', 'var',
                       ('raise', 'AssertionError', "types mismatch: <class 'ceos_alos2.array.Array'> != <class 'ceos_alos2.hierarchy.Variable'>", 'NoneType')),
                      ('array-file', 'var-b',
                       ('raise', 'AssertionError', "types mismatch: <class 'ceos_alos2.array.Array'> != <class 'ceos_alos2.hierarchy.Variable'>", 'NoneType')),
                      ('array-file', 'var-dims',
                       ('raise', 'AssertionError', "types mismatch: <class 'ceos_alos2.array.Array'> != <class 'ceos_alos2.hierarchy.Variable'>", 'NoneType')),
                      ('array-file', 'var-attrs',
                       ('raise', 'AssertionError', "types mismatch: <class 'ceos_alos2.array.Array'> != <class 'ceos_alos2.hierarchy.Variable'>", 'NoneType')),
                      ('array-file', 'var-dtype',
                       ('raise', 'AssertionError', "types mismatch: <class 'ceos_alos2.array.Array'> != <class 'ceos_alos2.hierarchy.Variable'>", 'NoneType')),
                      ('array-file', 'var-array',
                       ('raise', 'AssertionError', "types mismatch: <class 'ceos_alos2.array.Array'> != <class 'ceos_alos2.hierarchy.Variable'>", 'NoneType')),
                      ('array-file', 'var-array-b',
                       ('raise', 'AssertionError', "types mismatch: <class 'ceos_alos2.array.Array'> != <class 'ceos_alos2.hierarchy.Variable'>", 'NoneType')),
                      ('array-file', 'subvar',
                       ('raise', 'AssertionError', "types mismatch: <class 'ceos_alos2.array.Array'> != <class 'equiv.SubVariable'>", 'NoneType')),
                      ('array-file', 'subvar-b',
                       ('raise', 'AssertionError', "types mismatch: <class 'ceos_alos2.array.Array'> != <class 'equiv.SubVariable'>", 'NoneType')),
                      ('array-file', 'array',
                       ('raise', 'AssertionError', "Differing filesystem:\n  L protocol  ('file', 'local')\n  R protocol  memory", 'NoneType')),
                      ('array-file', 'array-dtype',
                       ('raise', 'AssertionError',
                        "Differing filesystem:\n  L protocol  ('file', 'local')\n  R protocol  memory\nDiffering dtypes:\n  int16 != int8", 'NoneType')),
                      ('array-file', 'array-url',
                       ('raise', 'AssertionError',
                        "Differing filesystem:\n  L protocol  ('file', 'local')\n  R protocol  memory\nDiffering urls:\n  L url  file\n  R url  file2",
                        'NoneType')),
                      ('array-file', 'array-path',
                       ('raise', 'AssertionError',
                        "Differing filesystem:\n  L protocol  ('file', 'local')\n  R protocol  memory\n  L path  /path/to\n  R path  /other", 'NoneType')),
                      ('array-file', 'array-file', ('ok', 'NoneType', 'None')),
                      ('array-file', 'array-ranges',
                       ('raise', 'AssertionError',
                        'Differing filesystem:\n'
                        "  L protocol  ('file', 'local')\n"
                        '  R protocol  memory\n'
                        'Differing byte ranges:\n'
                        '  L line 1  (5, 10)\n'
                        '  R line 1  (0, 1)\n'
                        '  L line 2  (15, 20)\n'
                        '  R line 2  (2, 3)\n'
                        '  L line 3  (25, 30)\n'
                        '  R line 3  (3, 4)\n'
                        '  L line 4  (35, 40)\n'
                        '  R line 4  None',
                        'NoneType')),
                      ('array-file', 'array-rpc',
                       ('raise', 'AssertionError',
                        'Differing filesystem:\n'
                        "  L protocol  ('file', 'local')\n"
                        '  R protocol  memory\n'
                        'Differing chunksizes:\n'
                        '  L records_per_chunk  2\n'
                        '  R records_per_chunk  3',
                        'NoneType')),
                      ('array-file', 'array-type-code',
                       ('raise', 'AssertionError',
                        'Differing filesystem:\n'
                        "  L protocol  ('file', 'local')\n"
                        '  R protocol  memory\n'
                        'Differing type code:\n'
                        '  L type_code  IU2\n'
                        '  R type_code  C*8',
                        'NoneType')),
                      ('array-file', 'subarray',
                       ('raise', 'AssertionError', "types mismatch: <class 'ceos_alos2.array.Array'> != <class 'equiv.SubArray'>", 'NoneType')),
                      ('array-file', 'int', ('raise', 'AssertionError', "types mismatch: <class 'ceos_alos2.array.Array'> != <class 'int'>", 'NoneType')),
                      ('array-file', 'int-b', ('raise', 'AssertionError', "types mismatch: <class 'ceos_alos2.array.Array'> != <class 'int'>", 'NoneType')),
                      ('array-file', 'float', ('raise', 'AssertionError', "types mismatch: <class 'ceos_alos2.array.Array'> != <class 'float'>", 'NoneType')),
                      ('array-file', 'str', ('raise', 'AssertionError', "types mismatch: <class 'ceos_alos2.array.Array'> != <class 'str'>", 'NoneType')),
                      ('array-file', 'none', ('raise', 'AssertionError', "types mismatch: <class 'ceos_alos2.array.Array'> != <class 'NoneType'>", 'NoneType')),
                      ('array-file', 'dict', ('raise', 'AssertionError', "types mismatch: <class 'ceos_alos2.array.Array'> != <class 'dict'>", 'NoneType')),
                      ('array-file', 'list', ('raise', 'AssertionError', "types mismatch: <class 'ceos_alos2.array.Array'> != <class 'list'>", 'NoneType')),
                      ('array-file', 'ndarray',
                       ('raise', 'AssertionError', "types mismatch: <class 'ceos_alos2.array.Array'> != <class 'numpy.ndarray'>", 'NoneType')),
                      ('array-file', 'ndarray-b',
                       ('raise', 'AssertionError', "types mismatch: <class 'ceos_alos2.array.Array'> != <class 'numpy.ndarray'>", 'NoneType')),
                      ('array-file', 'np-int',
                       ('raise', 'AssertionError', "types mismatch: <class 'ceos_alos2.array.Array'> != <class 'numpy.int8'>", 'NoneType')),
                      ('array-file', 'type',
                       ('raise', 'AssertionError', "types mismatch: <class 'ceos_alos2.array.Array'> != <class 'abc.ABCMeta'>", 'NoneType')),
                      ('array-file', 'bool', ('raise', 'AssertionError', "types mismatch: <class 'ceos_alos2.array.Array'> != <class 'bool'>", 'NoneType')),
                      ('array-ranges', 'tree:empty',
                       ('raise', 'AssertionError', "types mismatch: <class 'ceos_alos2.array.Array'> != <class 'ceos_alos2.hierarchy.Group'>", 'NoneType')),
                      ('array-ranges', 'tree:empty-url',
                       ('raise', 'AssertionError', "types mismatch: <class 'ceos_alos2.array.Array'> != <class 'ceos_alos2.hierarchy.Group'>", 'NoneType')),
                      ('array-ranges', 'tree:vars',
                       ('raise', 'AssertionError', "types mismatch: <class 'ceos_alos2.array.Array'> != <class 'ceos_alos2.hierarchy.Group'>", 'NoneType')),
                      ('array-ranges', 'tree:vars-b',
                       ('raise', 'AssertionError', "types mismatch: <class 'ceos_alos2.array.Array'> != <class 'ceos_alos2.hierarchy.Group'>", 'NoneType')),
                      ('array-ranges', 'tree:one-a',
                       ('raise', 'AssertionError', "types mismatch: <class 'ceos_alos2.array.Array'> != <class 'ceos_alos2.hierarchy.Group'>", 'NoneType')),
                      ('array-ranges', 'tree:two',
                       ('raise', 'AssertionError', "types mismatch: <class 'ceos_alos2.array.Array'> != <class 'ceos_alos2.hierarchy.Group'>", 'NoneType')),
                      ('array-ranges', 'tree:two-b',
                       ('raise', 'AssertionError', "types mismatch: <class 'ceos_alos2.array.Array'> != <class 'ceos_alos2.hierarchy.Group'>", 'NoneType')),
                      ('array-ranges', 'tree:two-c',
                       ('raise', 'AssertionError', "types mismatch: <class 'ceos_alos2.array.Array'> != <class 'ceos_alos2.hierarchy.Group'>", 'NoneType')),
                      ('array-ranges', 'tree:arrays',
                       ('raise', 'AssertionError', "types mismatch: <class 'ceos_alos2.array.Array'> != <class 'ceos_alos2.hierarchy.Group'>", 'NoneType')),
                      ('array-ranges', 'tree:arrays-b',
                       ('raise', 'AssertionError', "types mismatch: <class 'ceos_alos2.array.Array'> != <class 'ceos_alos2.hierarchy.Group'>", 'NoneType')),
                      ('array-ranges', 'tree:sub',
                       ('raise', 'AssertionError', "types mismatch: <class 'ceos_alos2.array.Array'> != <class 'equiv.SubGroup'>", 'NoneType')),
                      ('array-ranges', 'tree:sub-b',
                       ('raise', 'AssertionError', "types mismatch: <class 'ceos_alos2.array.Array'> != <class 'equiv.SubGroup'>", 'NoneType')),
                      ('array-ranges', 'var',
                       ('raise', 'AssertionError', "types mismatch: <class 'ceos_alos2.array.Array'> != <class 'ceos_alos2.hierarchy.Variable'>", 'NoneType')),
                      ('array-ranges', 'var-b',
                       ('raise', 'AssertionError', "types mismatch: <class 'ceos_alos2.array.Array'> != <class 'ceos_alos2.hierarchy.Variable'>", 'NoneType')),
                      ('array-ranges', 'var-dims',
                       ('raise', 'AssertionError', "types mismatch: <class 'ceos_alos2.array.Array'> != <class 'ceos_alos2.hierarchy.Variable'>", 'NoneType')),
                      ('array-ranges', 'var-attrs',
                       ('raise', 'AssertionError', "types mismatch: <class 'ceos_alos2.array.Array'> != <class 'ceos_alos2.hierarchy.Variable'>", 'NoneType')),
                      ('array-ranges', 'var-dtype',
                       ('raise', 'AssertionError', "types mismatch: <class 'ceos_alos2.array.Array'> != <class 'ceos_alos2.hierarchy.Variable'>", 'NoneType')),
                      ('array-ranges', 'var-array',
                       ('raise', 'AssertionError', "types mismatch: <class 'ceos_alos2.array.Array'> != <class 'ceos_alos2.hierarchy.Variable'>", 'NoneType')),
                      ('array-ranges', 'var-array-b',
                       ('raise', 'AssertionError', "types mismatch: <class 'ceos_alos2.array.Array'> != <class 'ceos_alos2.hierarchy.Variable'>", 'NoneType')),
                      ('array-ranges', 'subvar',
                       ('raise', 'AssertionError', "types mismatch: <class 'ceos_alos2.array.Array'> != <class 'equiv.SubVariable'>", 'NoneType')),
                      ('array-ranges', 'subvar-b',
                       ('raise', 'AssertionError', "types mismatch: <class 'ceos_alos2.array.Array'> != <class 'equiv.SubVariable'>", 'NoneType')),
                      ('array-ranges', 'array',
                       ('raise', 'AssertionError',
                        'Differing byte ranges:\n'
                        '  L line 1  (0, 1)\n'
                        '  R line 1  (5, 10)\n'
                        '  L line 2  (2, 3)\n'
                        '  R line 2  (15, 20)\n'
                        '  L line 3  (3, 4)\n'
                        '  R line 3  (25, 30)\n'
                        '  L line 4  None\n'
                        '  R line 4  (35, 40)',
                        'NoneType')),
                      ('array-ranges', 'array-dtype',
                       ('raise', 'AssertionError',
                        'Differing byte ranges:\n'
                        '  L line 1  (0, 1)\n'
                        '  R line 1  (5, 10)\n'
                        '  L line 2  (2, 3)\n'
                        '  R line 2  (15, 20)\n'
                        '  L line 3  (3, 4)\n'
                        '  R line 3  (25, 30)\n'
                        '  L line 4  None\n'
                        '  R line 4  (35, 40)\n'
                        'Differing dtypes:\n'
                        '  int16 != int8',
                        'NoneType')),
                      ('array-ranges', 'array-url',
                       ('raise', 'AssertionError',
                        'Differing urls:\n'
                        '  L url  file\n'
                        '  R url  file2\n'
                        'Differing byte ranges:\n'
                        '  L line 1  (0, 1)\n'
                        '  R line 1  (5, 10)\n'
                        '  L line 2  (2, 3)\n'
                        '  R line 2  (15, 20)\n'
                        '  L line 3  (3, 4)\n'
                        '  R line 3  (25, 30)\n'
                        '  L line 4  None\n'
                        '  R line 4  (35, 40)',
                        'NoneType')),
                      ('array-ranges', 'array-path',
                       ('raise', 'AssertionError',
                        'Differing filesystem:\n'
                        '  L path  /path/to\n'
                        '  R path  /other\n'
                        'Differing byte ranges:\n'
                        '  L line 1  (0, 1)\n'
                        '  R line 1  (5, 10)\n'
                        '  L line 2  (2, 3)\n'
                        '  R line 2  (15, 20)\n'
                        '  L line 3  (3, 4)\n'
                        '  R line 3  (25, 30)\n'
                        '  L line 4  None\n'
                        '  R line 4  (35, 40)',
                        'NoneType')),
                      ('array-ranges', 'array-file',
                       ('raise', 'AssertionError',
                        'Differing filesystem:\n'
                        '  L protocol  memory\n'
                        "  R protocol  ('file', 'local')\n"
                        'Differing byte ranges:\n'
                        '  L line 1  (0, 1)\n'
                        '  R line 1  (5, 10)\n'
                        '  L line 2  (2, 3)\n'
                        '  R line 2  (15, 20)\n'
                        '  L line 3  (3, 4)\n'
                        '  R line 3  (25, 30)\n'
                        '  L line 4  None\n'
                        '  R line 4  (35, 40)',
                        'NoneType')),
                      ('array-ranges', 'array-ranges', ('ok', 'NoneType', 'None')),
                      ('array-ranges', 'array-rpc',
                       ('raise', 'AssertionError',
                        'Differing byte ranges:\n'
                        '  L line 1  (0, 1)\n'
                        '  R line 1  (5, 10)\n'
                        '  L line 2  (2, 3)\n'
                        '  R line 2  (15, 20)\n'
                        '  L line 3  (3, 4)\n'
                        '  R line 3  (25, 30)\n'
                        '  L line 4  None\n'
                        '  R line 4  (35, 40)\n'
                        'Differing chunksizes:\n'
                        '  L records_per_chunk  2\n'
                        '  R records_per_chunk  3',
                        'NoneType')),
                      ('array-ranges', 'array-type-code',
                       ('raise', 'AssertionError',
                        'Differing byte ranges:\n'
                        '  L line 1  (0, 1)\n'
                        '  R line 1  (5, 10)\n'
                        '  L line 2  (2, 3)\n'
                        '  R line 2  (15, 20)\n'
                        '  L line 3  (3, 4)\n'
                        '  R line 3  (25, 30)\n'
                        '  L line 4  None\n'
                        '  R line 4  (35, 40)\n'
                        'Differing type code:\n'
                        '  L type_code  IU2\n'
                        '  R type_code  C*8',
                        'NoneType')),
                      ('array-ranges', 'subarray',
                       ('raise', 'AssertionError', "types mismatch: <class 'ceos_alos2.array.Array'> != <class 'equiv.SubArray'>", 'NoneType')),
                      ('array-ranges', 'int', ('raise', 'AssertionError', "types mismatch: <class 'ceos_alos2.array.Array'> != <class 'int'>", 'NoneType')),
                      ('array-ranges', 'int-b', ('raise', 'AssertionError', "types mismatch: <class 'ceos_alos2.array.Array'> != <class 'int'>", 'NoneType')),
                      ('array-ranges', 'float', ('raise', 'AssertionError', "types mismatch: <class 'ceos_alos2.array.Array'> != <class 'float'>", 'NoneType')),
                      ('array-ranges', 'str', ('raise', 'AssertionError', "types mismatch: <class 'ceos_alos2.array.Array'> != <class 'str'>", 'NoneType')),
                      ('array-ranges', 'none',
                       ('raise', 'AssertionError', "types mismatch: <class 'ceos_alos2.array.Array'> != <class 'NoneType'>", 'NoneType')),
                      ('array-ranges', 'dict', ('raise', 'AssertionError', "types mismatch: <class 'ceos_alos2.array.Array'> != <class 'dict'>", 'NoneType')),
                      ('array-ranges', 'list', ('raise', 'AssertionError', "types mismatch: <class 'ceos_alos2.array.Array'> != <class 'list'>", 'NoneType')),
                      ('array-ranges', 'ndarray',
                       ('raise', 'AssertionError', "types mismatch: <class 'ceos_alos2.array.Array'> != <class 'numpy.ndarray'>", 'NoneType')),
                      ('array-ranges', 'ndarray-b',
                       ('raise', 'AssertionError', "types mismatch: <class 'ceos_alos2.array.Array'> != <class 'numpy.ndarray'>", 'NoneType')),
                      ('array-ranges', 'np-int',
                       ('raise', 'AssertionError', "types mismatch: <class 'ceos_alos2.array.Array'> != <class 'numpy.int8'>", 'NoneType')),
                      ('array-ranges', 'type',
                       ('raise', 'AssertionError', "types mismatch: <class 'ceos_alos2.array.Array'> != <class 'abc.ABCMeta'>", 'NoneType')),
                      ('array-ranges', 'bool', ('raise', 'AssertionError', "types mismatch: <class 'ceos_alos2.array.Array'> != <class 'bool'>", 'NoneType')),
                      ('array-rpc', 'tree:empty',
                       ('raise', 'AssertionError', "types mismatch: <class 'ceos_alos2.array.Array'> != <class 'ceos_alos2.hierarchy.Group'>", 'NoneType')),
                      ('array-rpc', 'tree:empty-url',
                       ('raise', 'AssertionError', "types mismatch: <class 'ceos_alos2.array.Array'> != <class 'ceos_alos2.hierarchy.Group'>", 'NoneType')),
                      ('array-rpc', 'tree:vars',
                       ('raise', 'AssertionError', "types mismatch: <class 'ceos_alos2.array.Array'> != <class 'ceos_alos2.hierarchy.Group'>", 'NoneType')),
                      ('array-rpc', 'tree:vars-b',
                       ('raise', 'AssertionError', "types mismatch: <class 'ceos_alos2.array.Array'> != <class 'ceos_alos2.hierarchy.Group'>", 'NoneType')),
                      ('array-rpc', 'tree:one-a',
                       ('raise', 'AssertionError', "types mismatch: <class 'ceos_alos2.array.Array'> != <class 'ceos_alos2.hierarchy.Group'>", 'NoneType')),
                      ('array-rpc', 'tree:two',
                       ('raise', 'AssertionError', "types mismatch: <class 'ceos_alos2.array.Array'> != <class 'ceos_alos2.hierarchy.Group'>", 'NoneType')),
                      ('array-rpc', 'tree:two-b',
                       ('raise', 'AssertionError', "types mismatch: <class 'ceos_alos2.array.Array'> != <class 'ceos_alos2.hierarchy.Group'>", 'NoneType')),
                      ('array-rpc', 'tree:two-c',
                       ('raise', 'AssertionError', "types mismatch: <class 'ceos_alos2.array.Array'> != <class 'ceos_alos2.hierarchy.Group'>", 'NoneType')),
                      ('array-rpc', 'tree:arrays',
                       ('raise', 'AssertionError', "types mismatch: <class 'ceos_alos2.array.Array'> != <class 'ceos_alos2.hierarchy.Group'>", 'NoneType')),
                      ('array-rpc', 'tree:arrays-b',
                       ('raise', 'AssertionError', "types mismatch: <class 'ceos_alos2.array.Array'> != <class 'ceos_alos2.hierarchy.Group'>", 'NoneType')),
                      ('array-rpc', 'tree:sub',
                       ('raise', 'AssertionError', "types mismatch: <class 'ceos_alos2.array.Array'> != <class 'equiv.SubGroup'>", 'NoneType')),
                      ('array-rpc', 'tree:sub-b',
                       ('raise', 'AssertionError', "types mismatch: <class 'ceos_alos2.array.Array'> != <class 'equiv.SubGroup'>", 'NoneType')),
                      ('array-rpc', 'var',
                       ('raise', 'AssertionError', "types mismatch: <class 'ceos_alos2.array.Array'> != <class 'ceos_alos2.hierarchy.Variable'>", 'NoneType')),
                      ('array-rpc', 'var-b',
                       ('raise', 'AssertionError', "types mismatch: <class 'ceos_alos2.array.Array'> != <class 'ceos_alos2.hierarchy.Variable'>", 'NoneType')),
                      ('array-rpc', 'var-dims',
                       ('raise', 'AssertionError', "types mismatch: <class 'ceos_alos2.array.Array'> != <class 'ceos_alos2.hierarchy.Variable'>", 'NoneType')),
                      ('array-rpc', 'var-attrs',
                       ('raise', 'AssertionError', "types mismatch: <class 'ceos_alos2.array.Array'> != <class 'ceos_alos2.hierarchy.Variable'>", 'NoneType')),
                      ('array-rpc', 'var-dtype',
                       ('raise', 'AssertionError', "types mismatch: <class 'ceos_alos2.array.Array'> != <class 'ceos_alos2.hierarchy.Variable'>", 'NoneType')),
                      ('array-rpc', 'var-array',
                       ('raise', 'AssertionError', "types mismatch: <class 'ceos_alos2.array.Array'> != <class 'ceos_alos2.hierarchy.Variable'>", 'NoneType')),
                      ('array-rpc', 'var-array-b',
                       ('raise', 'AssertionError', "types mismatch: <class 'ceos_alos2.array.Array'> != <class 'ceos_alos2.hierarchy.Variable'>", 'NoneType')),
                      ('array-rpc', 'subvar',
                       ('raise', 'AssertionError', "types mismatch: <class 'ceos_alos2.array.Array'> != <class 'equiv.SubVariable'>", 'NoneType')),
                      ('array-rpc', 'subvar-b',
                       ('raise', 'AssertionError', "types mismatch: <class 'ceos_alos2.array.Array'> != <class 'equiv.SubVariable'>", 'NoneType')),
                      ('array-rpc', 'array',
                       ('raise', 'AssertionError', 'Differing chunksizes:\n  L records_per_chunk  3\n  R records_per_chunk  2', 'NoneType')),
                      ('array-rpc', 'array-dtype',
                       ('raise', 'AssertionError',
                        'Differing dtypes:\n  int16 != int8\nDiffering chunksizes:\n  L records_per_chunk  3\n  R records_per_chunk  2', 'NoneType')),
                      ('array-rpc', 'array-url',
                       ('raise', 'AssertionError',
                        'Differing urls:\n  L url  file\n  R url  file2\nDiffering chunksizes:\n  L records_per_chunk  3\n  R records_per_chunk  2',
                        'NoneType')),
                      ('array-rpc', 'array-path',
                       ('raise', 'AssertionError',
                        'Differing filesystem:\n'
                        '  L path  /path/to\n'
                        '  R path  /other\n'
                        'Differing chunksizes:\n'
                        '  L records_per_chunk  3\n'
                        '  R records_per_chunk  2',
                        'NoneType')),
                      ('array-rpc', 'array-file',
                       ('raise', 'AssertionError',
                        'Differing filesystem:\n'
                        '  L protocol  memory\n'
                        "  R protocol  ('file', 'local')\n"
                        'Differing chunksizes:\n'
                        '  L records_per_chunk  3\n'
                        '  R records_per_chunk  2',
                        'NoneType')),
                      ('array-rpc', 'array-ranges',
                       ('raise', 'AssertionError',
                        'Differing byte ranges:\n'
                        '  L line 1  (5, 10)\n'
                        '  R line 1  (0, 1)\n'
                        '  L line 2  (15, 20)\n'
                        '  R line 2  (2, 3)\n'
                        '  L line 3  (25, 30)\n'
                        '  R line 3  (3, 4)\n'
                        '  L line 4  (35, 40)\n'
                        '  R line 4  None\n'
                        'Differing chunksizes:\n'
                        '  L records_per_chunk  3\n'
                        '  R records_per_chunk  2',
                        'NoneType')),
                      ('array-rpc', 'array-rpc', ('ok', 'NoneType', 'None')),
                      ('array-rpc', 'array-type-code',
                       ('raise', 'AssertionError',
                        'Differing type code:\n'
                        '  L type_code  IU2\n'
                        '  R type_code  C*8\n'
                        'Differing chunksizes:\n'
                        '  L records_per_chunk  3\n'
                        '  R records_per_chunk  2',
                        'NoneType')),
                      ('array-rpc', 'subarray',
                       ('raise', 'AssertionError', "types mismatch: <class 'ceos_alos2.array.Array'> != <class 'equiv.SubArray'>", 'NoneType')),
                      ('array-rpc', 'int', ('raise', 'AssertionError', "types mismatch: <class 'ceos_alos2.array.Array'> != <class 'int'>", 'NoneType')),
                      ('array-rpc', 'int-b', ('raise', 'AssertionError', "types mismatch: <class 'ceos_alos2.array.Array'> != <class 'int'>", 'NoneType')),
                      ('array-rpc', 'float', ('raise', 'AssertionError', "types mismatch: <class 'ceos_alos2.array.Array'> != <class 'float'>", 'NoneType')),
                      ('array-rpc', 'str', ('raise', 'AssertionError', "types mismatch: <class 'ceos_alos2.array.Array'> != <class 'str'>", 'NoneType')),
                      ('array-rpc', 'none', ('raise', 'AssertionError', "types mismatch: <class 'ceos_alos2.array.Array'> != <class 'NoneType'>", 'NoneType')),
                      ('array-rpc', 'dict', ('raise', 'AssertionError', "types mismatch: <class 'ceos_alos2.array.Array'> != <class 'dict'>", 'NoneType')),
                      ('array-rpc', 'list', ('raise', 'AssertionError', "types mismatch: <class 'ceos_alos2.array.Array'> != <class 'list'>", 'NoneType')),
                      ('array-rpc', 'ndarray',
                       ('raise', 'AssertionError', "types mismatch: <class 'ceos_alos2.array.Array'> != <class 'numpy.ndarray'>", 'NoneType')),
                      ('array-rpc', 'ndarray-b',
                       ('raise', 'AssertionError', "types mismatch: <class 'ceos_alos2.array.Array'> != <class 'numpy.ndarray'>", 'NoneType')),
                      ('array-rpc', 'np-int',
                       ('raise', 'AssertionError', "types mismatch: <class 'ceos_alos2.array.Array'> != <class 'numpy.int8'>", 'NoneType')),
                      ('array-rpc', 'type',
                       ('raise', 'AssertionError', "types mismatch: <class 'ceos_alos2.array.Array'> != <class 'abc.ABCMeta'>", 'NoneType')),
                      ('array-rpc', 'bool', ('raise', 'AssertionError', "types mismatch: <class 'ceos_alos2.array.Array'> != <class 'bool'>", 'NoneType')),
                      ('array-type-code', 'tree:empty',
                       ('raise', 'AssertionError', "types mismatch: <class 'ceos_alos2.array.Array'> != <class 'ceos_alos2.hierarchy.Group'>", 'NoneType')),
                      ('array-type-code', 'tree:empty-url',
                       ('raise', 'AssertionError', "types mismatch: <class 'ceos_alos2.array.Array'> != <class 'ceos_alos2.hierarchy.Group'>", 'NoneType')),
                      ('array-type-code', 'tree:vars',
                       ('raise', 'AssertionError', "types mismatch: <class 'ceos_alos2.array.Array'> != <class 'ceos_alos2.hierarchy.Group'>", 'NoneType')),
                      ('array-type-code', 'tree:vars-b',
                       ('raise', 'AssertionError', "types mismatch: <class 'ceos_alos2.array.Array'> != <class 'ceos_alos2.hierarchy.Group'>", 'NoneType')),
                      ('array-type-code', 'tree:one-a',
                       ('raise', 'AssertionError', "types mismatch: <class 'ceos_alos2.array.Array'> != <class 'ceos_alos2.hierarchy.Group'>", 'NoneType')),
                      ('array-type-code', 'tree:two',
                       ('raise', 'AssertionError', "types mismatch: <class 'ceos_alos2.array.Array'> != <class 'ceos_alos2.hierarchy.Group'>", 'NoneType')),
                      ('array-type-code', 'tree:two-b',
                       ('raise', 'AssertionError', "types mismatch: <class 'ceos_alos2.array.Array'> != <class 'ceos_alos2.hierarchy.Group'>", 'NoneType')),
                      ('array-type-code', 'tree:two-c',
                       ('raise', 'AssertionError', "types mismatch: <class 'ceos_alos2.array.Array'> != <class 'ceos_alos2.hierarchy.Group'>", 'NoneType')),
                      ('array-type-code', 'tree:arrays',
                       ('raise', 'AssertionError', "types mismatch: <class 'ceos_alos2.array.Array'> != <class 'ceos_alos2.hierarchy.Group'>", 'NoneType')),
                      ('array-type-code', 'tree:arrays-b',
                       ('raise', 'AssertionError', "types mismatch: <class 'ceos_alos2.array.Array'> != <class 'ceos_alos2.hierarchy.Group'>", 'NoneType')),
                      ('array-type-code', 'tree:sub',
                       ('raise', 'AssertionError', "types mismatch: <class 'ceos_alos2.array.Array'> != <class 'equiv.SubGroup'>", 'NoneType')),
                      ('array-type-code', 'tree:sub-b',
                       ('raise', 'AssertionError', "types mismatch: <class 'ceos_alos2.array.Array'> != <class 'equiv.SubGroup'>", 'NoneType')),
                      ('array-type-code', 'var',
                       ('raise', 'AssertionError', "types mismatch: <class 'ceos_alos2.array.Array'> != <class 'ceos_alos2.hierarchy.Variable'>", 'NoneType')),
                      ('array-type-code', 'var-b',
                       ('raise', 'AssertionError', "types mismatch: <class 'ceos_alos2.array.Array'> != <class 'ceos_alos2.hierarchy.Variable'>", 'NoneType')),
                      ('array-type-code', 'var-dims',
                       ('raise', 'AssertionError', "types mismatch: <class 'ceos_alos2.array.Array'> != <class 'ceos_alos2.hierarchy.Variable'>", 'NoneType')),
                      ('array-type-code', 'var-attrs',
                       ('raise', 'AssertionError', "types mismatch: <class 'ceos_alos2.array.Array'> != <class 'ceos_alos2.hierarchy.Variable'>", 'NoneType')),
                      ('array-type-code', 'var-dtype',
                       ('raise', 'AssertionError', "types mismatch: <class 'ceos_alos2.array.Array'> != <class 'ceos_alos2.hierarchy.Variable'>", 'NoneType')),
                      ('array-type-code', 'var-array',
                       ('raise', 'AssertionError', "types mismatch: <class 'ceos_alos2.array.Array'> != <class 'ceos_alos2.hierarchy.Variable'>", 'NoneType')),
                      ('array-type-code', 'var-array-b',
                       ('raise', 'AssertionError', "types mismatch: <class 'ceos_alos2.array.Array'> != <class 'ceos_alos2.hierarchy.Variable'>", 'NoneType')),
                      ('array-type-code', 'subvar',
                       ('raise', 'AssertionError', "types mismatch: <class 'ceos_alos2.array.Array'> != <class 'equiv.SubVariable'>", 'NoneType')),
                      ('array-type-code', 'subvar-b',
                       ('raise', 'AssertionError', "types mismatch: <class 'ceos_alos2.array.Array'> != <class 'equiv.SubVariable'>", 'NoneType')),
                      ('array-type-code', 'array', ('raise', 'AssertionError', 'Differing type code:\n  L type_code  C*8\n  R type_code  IU2', 'NoneType')),
                      ('array-type-code', 'array-dtype',
                       ('raise', 'AssertionError', 'Differing dtypes:\n  int16 != int8\nDiffering type code:\n  L type_code  C*8\n  R type_code  IU2',
                        'NoneType')),
                      ('array-type-code', 'array-url',
                       ('raise', 'AssertionError',
                        'Differing urls:\n  L url  file\n  R url  file2\nDiffering type code:\n  L type_code  C*8\n  R type_code  IU2', 'NoneType')),
                      ('array-type-code', 'array-path',
                       ('raise', 'AssertionError',
                        'Differing filesystem:\n  L path  /path/to\n  R path  /other\nDiffering type code:\n  L type_code  C*8\n  R type_code  IU2',
                        'NoneType')),
                      ('array-type-code', 'array-file',
                       ('raise', 'AssertionError',
                        'Differing filesystem:\n'
                        '  L protocol  memory\n'
                        "  R protocol  ('file', 'local')\n"
                        'Differing type code:\n'
                        '  L type_code  C*8\n'
                        '  R type_code  IU2',
                        'NoneType')),
                      ('array-type-code', 'array-ranges',
                       ('raise', 'AssertionError',
                        'Differing byte ranges:\n'
                        '  L line 1  (5, 10)\n'
                        '  R line 1  (0, 1)\n'
                        '  L line 2  (15, 20)\n'
                        '  R line 2  (2, 3)\n'
                        '  L line 3  (25, 30)\n'
                        '  R line 3  (3, 4)\n'
                        '  L line 4  (35, 40)\n'
                        '  R line 4  None\n'
                        'Differing type code:\n'
                        '  L type_code  C*8\n'
                        '  R type_code  IU2',
                        'NoneType')),
                      ('array-type-code', 'array-rpc',
                       ('raise', 'AssertionError',
                        'Differing type code:\n'
                        '  L type_code  C*8\n'
                        '  R type_code  IU2\n'
                        'Differing chunksizes:\n'
                        '  L records_per_chunk  2\n'
                        '  R records_per_chunk  3',
                        'NoneType')),
                      ('array-type-code', 'array-type-code', ('ok', 'NoneType', 'None')),
                      ('array-type-code', 'subarray',
                       ('raise', 'AssertionError', "types mismatch: <class 'ceos_alos2.array.Array'> != <class 'equiv.SubArray'>", 'NoneType')),
                      ('array-type-code', 'int', ('raise', 'AssertionError', "types mismatch: <class 'ceos_alos2.array.Array'> != <class 'int'>", 'NoneType')),
                      ('array-type-code', 'int-b',
                       ('raise', 'AssertionError', "types mismatch: <class 'ceos_alos2.array.Array'> != <class 'int'>", 'NoneType')),
                      ('array-type-code', 'float',
                       ('raise', 'AssertionError', "types mismatch: <class 'ceos_alos2.array.Array'> != <class 'float'>", 'NoneType')),
                      ('array-type-code', 'str', ('raise', 'AssertionError', "types mismatch: <class 'ceos_alos2.array.Array'> != <class 'str'>", 'NoneType')),
                      ('array-type-code', 'none',
                       ('raise', 'AssertionError', "types mismatch: <class 'ceos_alos2.array.Array'> != <class 'NoneType'>", 'NoneType')),
                      ('array-type-code', 'dict',
                       ('raise', 'AssertionError', "types mismatch: <class 'ceos_alos2.array.Array'> != <class 'dict'>", 'NoneType')),
                      ('array-type-code', 'list',
                       ('raise', 'AssertionError', "types mismatch: <class 'ceos_alos2.array.Array'> != <class 'list'>", 'NoneType')),
                      ('array-type-code', 'ndarray',
                       ('raise', 'AssertionError', "types mismatch: <class 'ceos_alos2.array.Array'> != <class 'numpy.ndarray'>", 'NoneType')),
                      ('array-type-code', 'ndarray-b',
                       ('raise', 'AssertionError', "types mismatch: <class 'ceos_alos2.array.Array'> != <class 'numpy.ndarray'>", 'NoneType')),
                      ('array-type-code', 'np-int',
                       ('raise', 'AssertionError', "types mismatch: <class 'ceos_alos2.array.Array'> != <class 'numpy.int8'>", 'NoneType')),
                      ('array-type-code', 'type',
                       ('raise', 'AssertionError', "types mismatch: <class 'ceos_alos2.array.Array'> != <class 'abc.ABCMeta'>", 'NoneType')),
                      ('array-type-code', 'bool',
                       ('raise', 'AssertionError', "types mismatch: <class 'ceos_alos2.array.Array'> != <class 'bool'>", 'NoneType')),
                      ('subarray', 'tree:empty',
                       ('raise', 'AssertionError', "types mismatch: <class 'equiv.SubArray'> != <class 'ceos_alos2.hierarchy.Group'>", 'NoneType')),
                      ('subarray', 'tree:empty-url',
                       ('raise', 'AssertionError', "types mismatch: <class 'equiv.SubArray'> != <class 'ceos_alos2.hierarchy.Group'>", 'NoneType')),
                      ('subarray', 'tree:vars',
                       ('raise', 'AssertionError', "types mismatch: <class 'equiv.SubArray'> != <class 'ceos_alos2.hierarchy.Group'>", 'NoneType')),
                      ('subarray', 'tree:vars-b',
                       ('raise', 'AssertionError', "types mismatch: <class 'equiv.SubArray'> != <class 'ceos_alos2.hierarchy.Group'>", 'NoneType')),
                      ('subarray', 'tree:one-a',
                       ('raise', 'AssertionError', "types mismatch: <class 'equiv.SubArray'> != <class 'ceos_alos2.hierarchy.Group'>", 'NoneType')),
                      ('subarray', 'tree:two',
                       ('raise', 'AssertionError', "types mismatch: <class 'equiv.SubArray'> != <class 'ceos_alos2.hierarchy.Group'>", 'NoneType')),
                      ('subarray', 'tree:two-b',
                       ('raise', 'AssertionError', "types mismatch: <class 'equiv.SubArray'> != <class 'ceos_alos2.hierarchy.Group'>", 'NoneType')),
                      ('subarray', 'tree:two-c',
                       ('raise', 'AssertionError', "types mismatch: <class 'equiv.SubArray'> != <class 'ceos_alos2.hierarchy.Group'>", 'NoneType')),
                      ('subarray', 'tree:arrays',
                       ('raise', 'AssertionError', "types mismatch: <class 'equiv.SubArray'> != <class 'ceos_alos2.hierarchy.Group'>", 'NoneType')),
                      ('subarray', 'tree:arrays-b',
                       ('raise', 'AssertionError', "types mismatch: <class 'equiv.SubArray'> != <class 'ceos_alos2.hierarchy.Group'>", 'NoneType')),
                      ('subarray', 'tree:sub', ('raise', 'AssertionError', "types mismatch: <class 'equiv.SubArray'> != <class 'equiv.SubGroup'>", 'NoneType')),
                      ('subarray', 'tree:sub-b',
                       ('raise', 'AssertionError', "types mismatch: <class 'equiv.SubArray'> != <class 'equiv.SubGroup'>", 'NoneType')),
                      ('subarray', 'var',
                       ('raise', 'AssertionError', "types mismatch: <class 'equiv.SubArray'> != <class 'ceos_alos2.hierarchy.Variable'>", 'NoneType')),
                      ('subarray', 'var-b',
                       ('raise', 'AssertionError', "types mismatch: <class 'equiv.SubArray'> != <class 'ceos_alos2.hierarchy.Variable'>", 'NoneType')),
                      ('subarray', 'var-dims',
                       ('raise', 'AssertionError', "types mismatch: <class 'equiv.SubArray'> != <class 'ceos_alos2.hierarchy.Variable'>", 'NoneType')),
                      ('subarray', 'var-attrs',
                       ('raise', 'AssertionError', "types mismatch: <class 'equiv.SubArray'> != <class 'ceos_alos2.hierarchy.Variable'>", 'NoneType')),
                      ('subarray', 'var-dtype',
                       ('raise', 'AssertionError', "types mismatch: <class 'equiv.SubArray'> != <class 'ceos_alos2.hierarchy.Variable'>", 'NoneType')),
                      ('subarray', 'var-array',
                       ('raise', 'AssertionError', "types mismatch: <class 'equiv.SubArray'> != <class 'ceos_alos2.hierarchy.Variable'>", 'NoneType')),
                      ('subarray', 'var-array-b',
                       ('raise', 'AssertionError', "types mismatch: <class 'equiv.SubArray'> != <class 'ceos_alos2.hierarchy.Variable'>", 'NoneType')),
                      ('subarray', 'subvar',
                       ('raise', 'AssertionError', "types mismatch: <class 'equiv.SubArray'> != <class 'equiv.SubVariable'>", 'NoneType')),
                      ('subarray', 'subvar-b',
                       ('raise', 'AssertionError', "types mismatch: <class 'equiv.SubArray'> != <class 'equiv.SubVariable'>", 'NoneType')),
                      ('subarray', 'array',
                       ('raise', 'AssertionError', "types mismatch: <class 'equiv.SubArray'> != <class 'ceos_alos2.array.Array'>", 'NoneType')),
                      ('subarray', 'array-dtype',
                       ('raise', 'AssertionError', "types mismatch: <class 'equiv.SubArray'> != <class 'ceos_alos2.array.Array'>", 'NoneType')),
                      ('subarray', 'array-url',
                       ('raise', 'AssertionError', "types mismatch: <class 'equiv.SubArray'> != <class 'ceos_alos2.array.Array'>", 'NoneType')),
                      ('subarray', 'array-path',
                       ('raise', 'AssertionError', "types mismatch: <class 'equiv.SubArray'> != <class 'ceos_alos2.array.Array'>", 'NoneType')),
                      ('subarray', 'array-file',
                       ('raise', 'AssertionError', "types mismatch: <class 'equiv.SubArray'> != <class 'ceos_alos2.array.Array'>", 'NoneType')),
                      ('subarray', 'array-ranges',
                       ('raise', 'AssertionError', "types mismatch: <class 'equiv.SubArray'> != <class 'ceos_alos2.array.Array'>", 'NoneType')),
                      ('subarray', 'array-rpc',
                       ('raise', 'AssertionError', "types mismatch: <class 'equiv.SubArray'> != <class 'ceos_alos2.array.Array'>", 'NoneType')),
                      ('subarray', 'array-type-code',
                       ('raise', 'AssertionError', "types mismatch: <class 'equiv.SubArray'> != <class 'ceos_alos2.array.Array'>", 'NoneType')),
                      ('subarray', 'subarray', ('ok', 'NoneType', 'None')),
                      ('subarray', 'int', ('raise', 'AssertionError', "types mismatch: <class 'equiv.SubArray'> != <class 'int'>", 'NoneType')),
                      ('subarray', 'int-b', ('raise', 'AssertionError', "types mismatch: <class 'equiv.SubArray'> != <class 'int'>", 'NoneType')),
                      ('subarray', 'float', ('raise', 'AssertionError', "types mismatch: <class 'equiv.SubArray'> != <class 'float'>", 'NoneType')),
                      ('subarray', 'str', ('raise', 'AssertionError', "types mismatch: <class 'equiv.SubArray'> != <class 'str'>", 'NoneType')),
                      ('subarray', 'none', ('raise', 'AssertionError', "types mismatch: <class 'equiv.SubArray'> != <class 'NoneType'>", 'NoneType')),
                      ('subarray', 'dict', ('raise', 'AssertionError', "types mismatch: <class 'equiv.SubArray'> != <class 'dict'>", 'NoneType')),
                      ('subarray', 'list', ('raise', 'AssertionError', "types mismatch: <class 'equiv.SubArray'> != <class 'list'>", 'NoneType')),
                      ('subarray', 'ndarray', ('raise', 'AssertionError', "types mismatch: <class 'equiv.SubArray'> != <class 'numpy.ndarray'>", 'NoneType')),
                      ('subarray', 'ndarray-b', ('raise', 'AssertionError', "types mismatch: <class 'equiv.SubArray'> != <class 'numpy.ndarray'>", 'NoneType')),
                      ('subarray', 'np-int', ('raise', 'AssertionError', "types mismatch: <class 'equiv.SubArray'> != <class 'numpy.int8'>", 'NoneType')),
                      ('subarray', 'type', ('raise', 'AssertionError', "types mismatch: <class 'equiv.SubArray'> != <class 'abc.ABCMeta'>", 'NoneType')),
                      ('subarray', 'bool', ('raise', 'AssertionError', "types mismatch: <class 'equiv.SubArray'> != <class 'bool'>", 'NoneType')),
                      ('int', 'tree:empty', ('raise', 'AssertionError', "types mismatch: <class 'int'> != <class 'ceos_alos2.hierarchy.Group'>", 'NoneType')),
                      ('int', 'tree:empty-url',
                       ('raise', 'AssertionError', "types mismatch: <class 'int'> != <class 'ceos_alos2.hierarchy.Group'>", 'NoneType')),
                      ('int', 'tree:vars', ('raise', 'AssertionError', "types mismatch: <class 'int'> != <class 'ceos_alos2.hierarchy.Group'>", 'NoneType')),
                      ('int', 'tree:vars-b', ('raise', 'AssertionError', "types mismatch: <class 'int'> != <class 'ceos_alos2.hierarchy.Group'>", 'NoneType')),
                      ('int', 'tree:one-a', ('raise', 'AssertionError', "types mismatch: <class 'int'> != <class 'ceos_alos2.hierarchy.Group'>", 'NoneType')),
                      ('int', 'tree:two', ('raise', 'AssertionError', "types mismatch: <class 'int'> != <class 'ceos_alos2.hierarchy.Group'>", 'NoneType')),
                      ('int', 'tree:two-b', ('raise', 'AssertionError', "types mismatch: <class 'int'> != <class 'ceos_alos2.hierarchy.Group'>", 'NoneType')),
                      ('int', 'tree:two-c', ('raise', 'AssertionError', "types mismatch: <class 'int'> != <class 'ceos_alos2.hierarchy.Group'>", 'NoneType')),
                      ('int', 'tree:arrays', ('raise', 'AssertionError', "types mismatch: <class 'int'> != <class 'ceos_alos2.hierarchy.Group'>", 'NoneType')),
                      ('int', 'tree:arrays-b',
                       ('raise', 'AssertionError', "types mismatch: <class 'int'> != <class 'ceos_alos2.hierarchy.Group'>", 'NoneType')),
                      ('int', 'tree:sub', ('raise', 'AssertionError', "types mismatch: <class 'int'> != <class 'equiv.SubGroup'>", 'NoneType')),
                      ('int', 'tree:sub-b', ('raise', 'AssertionError', "types mismatch: <class 'int'> != <class 'equiv.SubGroup'>", 'NoneType')),
                      ('int', 'var', ('raise', 'AssertionError', "types mismatch: <class 'int'> != <class 'ceos_alos2.hierarchy.Variable'>", 'NoneType')),
                      ('int', 'var-b', ('raise', 'AssertionError', "types mismatch: <class 'int'> != <class 'ceos_alos2.hierarchy.Variable'>", 'NoneType')),
                      ('int', 'var-dims', ('raise', 'AssertionError', "types mismatch: <class 'int'> != <class 'ceos_alos2.hierarchy.Variable'>", 'NoneType')),
                      ('int', 'var-attrs', ('raise', 'AssertionError', "types mismatch: <class 'int'> != <class 'ceos_alos2.hierarchy.Variable'>", 'NoneType')),
                      ('int', 'var-dtype', ('raise', 'AssertionError', "types mismatch: <class 'int'> != <class 'ceos_alos2.hierarchy.Variable'>", 'NoneType')),
                      ('int', 'var-array', ('raise', 'AssertionError', "types mismatch: <class 'int'> != <class 'ceos_alos2.hierarchy.Variable'>", 'NoneType')),
                      ('int', 'var-array-b',
                       ('raise', 'AssertionError', "types mismatch: <class 'int'> != <class 'ceos_alos2.hierarchy.Variable'>", 'NoneType')),
                      ('int', 'subvar', ('raise', 'AssertionError', "types mismatch: <class 'int'> != <class 'equiv.SubVariable'>", 'NoneType')),
                      ('int', 'subvar-b', ('raise', 'AssertionError', "types mismatch: <class 'int'> != <class 'equiv.SubVariable'>", 'NoneType')),
                      ('int', 'array', ('raise', 'AssertionError', "types mismatch: <class 'int'> != <class 'ceos_alos2.array.Array'>", 'NoneType')),
                      ('int', 'array-dtype', ('raise', 'AssertionError', "types mismatch: <class 'int'> != <class 'ceos_alos2.array.Array'>", 'NoneType')),
                      ('int', 'array-url', ('raise', 'AssertionError', "types mismatch: <class 'int'> != <class 'ceos_alos2.array.Array'>", 'NoneType')),
                      ('int', 'array-path', ('raise', 'AssertionError', "types mismatch: <class 'int'> != <class 'ceos_alos2.array.Array'>", 'NoneType')),
                      ('int', 'array-file', ('raise', 'AssertionError', "types mismatch: <class 'int'> != <class 'ceos_alos2.array.Array'>", 'NoneType')),
                      ('int', 'array-ranges', ('raise', 'AssertionError', "types mismatch: <class 'int'> != <class 'ceos_alos2.array.Array'>", 'NoneType')),
                      ('int', 'array-rpc', ('raise', 'AssertionError', "types mismatch: <class 'int'> != <class 'ceos_alos2.array.Array'>", 'NoneType')),
                      ('int', 'array-type-code', ('raise', 'AssertionError', "types mismatch: <class 'int'> != <class 'ceos_alos2.array.Array'>", 'NoneType')),
                      ('int', 'subarray', ('raise', 'AssertionError', "types mismatch: <class 'int'> != <class 'equiv.SubArray'>", 'NoneType')),
                      ('int', 'int', ('raise', 'TypeError', 'can only compare Group and Variable and Array objects', 'NoneType')),
                      ('int', 'int-b', ('raise', 'TypeError', 'can only compare Group and Variable and Array objects', 'NoneType')),
                      ('int', 'float', ('raise', 'AssertionError', "types mismatch: <class 'int'> != <class 'float'>", 'NoneType')),
                      ('int', 'str', ('raise', 'AssertionError', "types mismatch: <class 'int'> != <class 'str'>", 'NoneType')),
                      ('int', 'none', ('raise', 'AssertionError', "types mismatch: <class 'int'> != <class 'NoneType'>", 'NoneType')),
                      ('int', 'dict', ('raise', 'AssertionError', "types mismatch: <class 'int'> != <class 'dict'>", 'NoneType')),
                      ('int', 'list', ('raise', 'AssertionError', "types mismatch: <class 'int'> != <class 'list'>", 'NoneType')),
                      ('int', 'ndarray', ('raise', 'AssertionError', "types mismatch: <class 'int'> != <class 'numpy.ndarray'>", 'NoneType')),
                      ('int', 'ndarray-b', ('raise', 'AssertionError', "types mismatch: <class 'int'> != <class 'numpy.ndarray'>", 'NoneType')),
                      ('int', 'np-int', ('raise', 'AssertionError', "types mismatch: <class 'int'> != <class 'numpy.int8'>", 'NoneType')),
                      ('int', 'type', ('raise', 'AssertionError', "types mismatch: <class 'int'> != <class 'abc.ABCMeta'>", 'NoneType')),
                      ('int', 'bool', ('raise', 'AssertionError', "types mismatch: <class 'int'> != <class 'bool'>", 'NoneType')),
                      ('int-b', 'tree:empty', ('raise', 'AssertionError', "types mismatch: <class 'int'> != <class 'ceos_alos2.hierarchy.Group'>", 'NoneType')),
                      ('int-b', 'tree:empty-url',
                       ('raise', 'AssertionError', "types mismatch: <class 'int'> != <class 'ceos_alos2.hierarchy.Group'>", 'NoneType')),
                      ('int-b', 'tree:vars', ('raise', 'AssertionError', "types mismatch: <class 'int'> != <class 'ceos_alos2.hierarchy.Group'>", 'NoneType')),
                      ('int-b', 'tree:vars-b',
                       ('raise', 'AssertionError', "types mismatch: <class 'int'> != <class 'ceos_alos2.hierarchy.Group'>", 'NoneType')),
                      ('int-b', 'tree:one-a', ('raise', 'AssertionError', "types mismatch: <class 'int'> != <class 'ceos_alos2.hierarchy.Group'>", 'NoneType')),
                      ('int-b', 'tree:two', ('raise', 'AssertionError', "types mismatch: <class 'int'> != <class 'ceos_alos2.hierarchy.Group'>", 'NoneType')),
                      ('int-b', 'tree:two-b', ('raise', 'AssertionError', "types mismatch: <class 'int'> != <class 'ceos_alos2.hierarchy.Group'>", 'NoneType')),
                      ('int-b', 'tree:two-c', ('raise', 'AssertionError', "types mismatch: <class 'int'> != <class 'ceos_alos2.hierarchy.Group'>", 'NoneType')),
                      ('int-b', 'tree:arrays',
                       ('raise', 'AssertionError', "types mismatch: <class 'int'> != <class 'ceos_alos2.hierarchy.Group'>", 'NoneType')),
                      ('int-b', 'tree:arrays-b',
                       ('raise', 'AssertionError', "types mismatch: <class 'int'> != <class 'ceos_alos2.hierarchy.Group'>", 'NoneType')),
                      ('int-b', 'tree:sub', ('raise', 'AssertionError', "types mismatch: <class 'int'> != <class 'equiv.SubGroup'>", 'NoneType')),
                      ('int-b', 'tree:sub-b', ('raise', 'AssertionError', "types mismatch: <class 'int'> != <class 'equiv.SubGroup'>", 'NoneType')),
                      ('int-b', 'var', ('raise', 'AssertionError', "types mismatch: <class 'int'> != <class 'ceos_alos2.hierarchy.Variable'>", 'NoneType')),
                      ('int-b', 'var-b', ('raise', 'AssertionError', "types mismatch: <class 'int'> != <class 'ceos_alos2.hierarchy.Variable'>", 'NoneType')),
                      ('int-b', 'var-dims',
                       ('raise', 'AssertionError', "types mismatch: <class 'int'> != <class 'ceos_alos2.hierarchy.Variable'>", 'NoneType')),
                      ('int-b', 'var-attrs',
                       ('raise', 'AssertionError', "types mismatch: <class 'int'> != <class 'ceos_alos2.hierarchy.Variable'>", 'NoneType')),
                      ('int-b', 'var-dtype',
                       ('raise', 'AssertionError', "types mismatch: <class 'int'> != <class 'ceos_alos2.hierarchy.Variable'>", 'NoneType')),
                      ('int-b', 'var-array',
                       ('raise', 'AssertionError', "types mismatch: <class 'int'> != <class 'ceos_alos2.hierarchy.Variable'>", 'NoneType')),
                      ('int-b', 'var-array-b',
                       ('raise', 'AssertionError', "types mismatch: <class 'int'> != <class 'ceos_alos2.hierarchy.Variable'>", 'NoneType')),
                      ('int-b', 'subvar', ('raise', 'AssertionError', "types mismatch: <class 'int'> != <class 'equiv.SubVariable'>", 'NoneType')),
                      ('int-b', 'subvar-b', ('raise', 'AssertionError', "types mismatch: <class 'int'> != <class 'equiv.SubVariable'>", 'NoneType')),
                      ('int-b', 'array', ('raise', 'AssertionError', "types mismatch: <class 'int'> != <class 'ceos_alos2.array.Array'>", 'NoneType')),
                      ('int-b', 'array-dtype', ('raise', 'AssertionError', "types mismatch: <class 'int'> != <class 'ceos_alos2.array.Array'>", 'NoneType')),
                      ('int-b', 'array-url', ('raise', 'AssertionError', "types mismatch: <class 'int'> != <class 'ceos_alos2.array.Array'>", 'NoneType')),
                      ('int-b', 'array-path', ('raise', 'AssertionError', "types mismatch: <class 'int'> != <class 'ceos_alos2.array.Array'>", 'NoneType')),
                      ('int-b', 'array-file', ('raise', 'AssertionError', "types mismatch: <class 'int'> != <class 'ceos_alos2.array.Array'>", 'NoneType')),
                      ('int-b', 'array-ranges', ('raise', 'AssertionError', "types mismatch: <class 'int'> != <class 'ceos_alos2.array.Array'>", 'NoneType')),
                      ('int-b', 'array-rpc', ('raise', 'AssertionError', "types mismatch: <class 'int'> != <class 'ceos_alos2.array.Array'>", 'NoneType')),
                      ('int-b', 'array-type-code',
                       ('raise', 'AssertionError', "types mismatch: <class 'int'> != <class 'ceos_alos2.array.Array'>", 'NoneType')),
                      ('int-b', 'subarray', ('raise', 'AssertionError', "types mismatch: <class 'int'> != <class 'equiv.SubArray'>", 'NoneType')),
                      ('int-b', 'int', ('raise', 'TypeError', 'can only compare Group and Variable and Array objects', 'NoneType')),
                      ('int-b', 'int-b', ('raise', 'TypeError', 'can only compare Group and Variable and Array objects', 'NoneType')),
                      ('int-b', 'float', ('raise', 'AssertionError', "types mismatch: <class 'int'> != <class 'float'>", 'NoneType')),
                      ('int-b', 'str', ('raise', 'AssertionError', "types mismatch: <class 'int'> != <class 'str'>", 'NoneType')),
                      ('int-b', 'none', ('raise', 'AssertionError', "types mismatch: <class 'int'> != <class 'NoneType'>", 'NoneType')),
                      ('int-b', 'dict', ('raise', 'AssertionError', "types mismatch: <class 'int'> != <class 'dict'>", 'NoneType')),
                      ('int-b', 'list', ('raise', 'AssertionError', "types mismatch: <class 'int'> != <class 'list'>", 'NoneType')),
                      ('int-b', 'ndarray', ('raise', 'AssertionError', "types mismatch: <class 'int'> != <class 'numpy.ndarray'>", 'NoneType')),
                      ('int-b', 'ndarray-b', ('raise', 'AssertionError', "types mismatch: <class 'int'> != <class 'numpy.ndarray'>", 'NoneType')),
                      ('int-b', 'np-int', ('raise', 'AssertionError', "types mismatch: <class 'int'> != <class 'numpy.int8'>", 'NoneType')),
                      ('int-b', 'type', ('raise', 'AssertionError', "types mismatch: <class 'int'> != <class 'abc.ABCMeta'>", 'NoneType')),
                      ('int-b', 'bool', ('raise', 'AssertionError', "types mismatch: <class 'int'> != <class 'bool'>", 'NoneType')),
                      ('float', 'tree:empty',
                       ('raise', 'AssertionError', "types mismatch: <class 'float'> != <class 'ceos_alos2.hierarchy.Group'>", 'NoneType')),
                      ('float', 'tree:empty-url',
                       ('raise', 'AssertionError', "types mismatch: <class 'float'> != <class 'ceos_alos2.hierarchy.Group'>", 'NoneType')),
                      ('float', 'tree:vars',
                       ('raise', 'AssertionError', "types mismatch: <class 'float'> != <class 'ceos_alos2.hierarchy.Group'>", 'NoneType')),
                      ('float', 'tree:vars-b',
                       ('raise', 'AssertionError', "types mismatch: <class 'float'> != <class 'ceos_alos2.hierarchy.Group'>", 'NoneType')),
                      ('float', 'tree:one-a',
                       ('raise', 'AssertionError', "types mismatch: <class 'float'> != <class 'ceos_alos2.hierarchy.Group'>", 'NoneType')),
                      ('float', 'tree:two', ('raise', 'AssertionError', "types mismatch: <class 'float'> != <class 'ceos_alos2.hierarchy.Group'>", 'NoneType')),
                      ('float', 'tree:two-b',
                       ('raise', 'AssertionError', "types mismatch: <class 'float'> != <class 'ceos_alos2.hierarchy.Group'>", 'NoneType')),
                      ('float', 'tree:two-c',
                       ('raise', 'AssertionError', "types mismatch: <class 'float'> != <class 'ceos_alos2.hierarchy.Group'>", 'NoneType')),
                      ('float', 'tree:arrays',
                       ('raise', 'AssertionError', "types mismatch: <class 'float'> != <class 'ceos_alos2.hierarchy.Group'>", 'NoneType')),
                      ('float', 'tree:arrays-b',
                       ('raise', 'AssertionError', "types mismatch: <class 'float'> != <class 'ceos_alos2.hierarchy.Group'>", 'NoneType')),
                      ('float', 'tree:sub', ('raise', 'AssertionError', "types mismatch: <class 'float'> != <class 'equiv.SubGroup'>", 'NoneType')),
                      ('float', 'tree:sub-b', ('raise', 'AssertionError', "types mismatch: <class 'float'> != <class 'equiv.SubGroup'>", 'NoneType')),
                      ('float', 'var', ('raise', 'AssertionError', "types mismatch: <class 'float'> != <class 'ceos_alos2.hierarchy.Variable'>", 'NoneType')),
                      ('float', 'var-b', ('raise', 'AssertionError', "types mismatch: <class 'float'> != <class 'ceos_alos2.hierarchy.Variable'>", 'NoneType')),
                      ('float', 'var-dims',
                       ('raise', 'AssertionError', "types mismatch: <class 'float'> != <class 'ceos_alos2.hierarchy.Variable'>", 'NoneType')),
                      ('float', 'var-attrs',
                       ('raise', 'AssertionError', "types mismatch: <class 'float'> != <class 'ceos_alos2.hierarchy.Variable'>", 'NoneType')),
                      ('float', 'var-dtype',
                       ('raise', 'AssertionError', "types mismatch: <class 'float'> != <class 'ceos_alos2.hierarchy.Variable'>", 'NoneType')),
                      ('float', 'var-array',
                       ('raise', 'AssertionError', "types mismatch: <class 'float'> != <class 'ceos_alos2.hierarchy.Variable'>", 'NoneType')),
                      ('float', 'var-array-b',
                       ('raise', 'AssertionError', "types mismatch: <class 'float'> != <class 'ceos_alos2.hierarchy.Variable'>", 'NoneType')),
                      ('float', 'subvar', ('raise', 'AssertionError', "types mismatch: <class 'float'> != <class 'equiv.SubVariable'>", 'NoneType')),
                      ('float', 'subvar-b', ('raise', 'AssertionError', "types mismatch: <class 'float'> != <class 'equiv.SubVariable'>", 'NoneType')),
                      ('float', 'array', ('raise', 'AssertionError', "types mismatch: <class 'float'> != <class 'ceos_alos2.array.Array'>", 'NoneType')),
                      ('float', 'array-dtype', ('raise', 'AssertionError', "types mismatch: <class 'float'> != <class 'ceos_alos2.array.Array'>", 'NoneType')),
                      ('float', 'array-url', ('raise', 'AssertionError', "types mismatch: <class 'float'> != <class 'ceos_alos2.array.Array'>", 'NoneType')),
                      ('float', 'array-path', ('raise', 'AssertionError', "types mismatch: <class 'float'> != <class 'ceos_alos2.array.Array'>", 'NoneType')),
                      ('float', 'array-file', ('raise', 'AssertionError', "types mismatch: <class 'float'> != <class 'ceos_alos2.array.Array'>", 'NoneType')),
                      ('float', 'array-ranges', ('raise', 'AssertionError', "types mismatch: <class 'float'> != <class 'ceos_alos2.array.Array'>", 'NoneType')),
                      ('float', 'array-rpc', ('raise', 'AssertionError', "types mismatch: <class 'float'> != <class 'ceos_alos2.array.Array'>", 'NoneType')),
                      ('float', 'array-type-code',
                       ('raise', 'AssertionError', "types mismatch: <class 'float'> != <class 'ceos_alos2.array.Array'>", 'NoneType')),
                      ('float', 'subarray', ('raise', 'AssertionError', "types mismatch: <class 'float'> != <class 'equiv.SubArray'>", 'NoneType')),
                      ('float', 'int', ('raise', 'AssertionError', "types mismatch: <class 'float'> != <class 'int'>", 'NoneType')),
                      ('float', 'int-b', ('raise', 'AssertionError', "types mismatch: <class 'float'> != <class 'int'>", 'NoneType')),
                      ('float', 'float', ('raise', 'TypeError', 'can only compare Group and Variable and Array objects', 'NoneType')),
                      ('float', 'str', ('raise', 'AssertionError', "types mismatch: <class 'float'> != <class 'str'>", 'NoneType')),
                      ('float', 'none', ('raise', 'AssertionError', "types mismatch: <class 'float'> != <class 'NoneType'>", 'NoneType')),
                      ('float', 'dict', ('raise', 'AssertionError', "types mismatch: <class 'float'> != <class 'dict'>", 'NoneType')),
                      ('float', 'list', ('raise', 'AssertionError', "types mismatch: <class 'float'> != <class 'list'>", 'NoneType')),
                      ('float', 'ndarray', ('raise', 'AssertionError', "types mismatch: <class 'float'> != <class 'numpy.ndarray'>", 'NoneType')),
                      ('float', 'ndarray-b', ('raise', 'AssertionError', "types mismatch: <class 'float'> != <class 'numpy.ndarray'>", 'NoneType')),
                      ('float', 'np-int', ('raise', 'AssertionError', "types mismatch: <class 'float'> != <class 'numpy.int8'>", 'NoneType')),
                      ('float', 'type', ('raise', 'AssertionError', "types mismatch: <class 'float'> != <class 'abc.ABCMeta'>", 'NoneType')),
                      ('float', 'bool', ('raise', 'AssertionError', "types mismatch: <class 'float'> != <class 'bool'>", 'NoneType')),
                      ('str', 'tree:empty', ('raise', 'AssertionError', "types mismatch: <class 'str'> != <class 'ceos_alos2.hierarchy.Group'>", 'NoneType')),
                      ('str', 'tree:empty-url',
                       ('raise', 'AssertionError', "types mismatch: <class 'str'> != <class 'ceos_alos2.hierarchy.Group'>", 'NoneType')),
                      ('str', 'tree:vars', ('raise', 'AssertionError', "types mismatch: <class 'str'> != <class 'ceos_alos2.hierarchy.Group'>", 'NoneType')),
                      ('str', 'tree:vars-b', ('raise', 'AssertionError', "types mismatch: <class 'str'> != <class 'ceos_alos2.hierarchy.Group'>", 'NoneType')),
                      ('str', 'tree:one-a', ('raise', 'AssertionError', "types mismatch: <class 'str'> != <class 'ceos_alos2.hierarchy.Group'>", 'NoneType')),
                      ('str', 'tree:two', ('raise', 'AssertionError', "types mismatch: <class 'str'> != <class 'ceos_alos2.hierarchy.Group'>", 'NoneType')),
                      ('str', 'tree:two-b', ('raise', 'AssertionError', "types mismatch: <class 'str'> != <class 'ceos_alos2.hierarchy.Group'>", 'NoneType')),
                      ('str', 'tree:two-c', ('raise', 'AssertionError', "types mismatch: <class 'str'> != <class 'ceos_alos2.hierarchy.Group'>", 'NoneType')),
                      ('str', 'tree:arrays', ('raise', 'AssertionError', "types mismatch: <class 'str'> != <class 'ceos_alos2.hierarchy.Group'>", 'NoneType')),
                      ('str', 'tree:arrays-b',
                       ('raise', 'AssertionError', "types mismatch: <class 'str'> != <class 'ceos_alos2.hierarchy.Group'>", 'NoneType')),
                      ('str', 'tree:sub', ('raise', 'AssertionError', "types mismatch: <class 'str'> != <class 'equiv.SubGroup'>", 'NoneType')),
                      ('str', 'tree:sub-b', ('raise', 'AssertionError', "types mismatch: <class 'str'> != <class 'equiv.SubGroup'>", 'NoneType')),
                      ('str', 'var', ('raise', 'AssertionError', "types mismatch: <class 'str'> != <class 'ceos_alos2.hierarchy.Variable'>", 'NoneType')),
                      ('str', 'var-b', ('raise', 'AssertionError', "types mismatch: <class 'str'> != <class 'ceos_alos2.hierarchy.Variable'>", 'NoneType')),
                      ('str', 'var-dims', ('raise', 'AssertionError', "types mismatch: <class 'str'> != <class 'ceos_alos2.hierarchy.Variable'>", 'NoneType')),
                      ('str', 'var-attrs', ('raise', 'AssertionError', "types mismatch: <class 'str'> != <class 'ceos_alos2.hierarchy.Variable'>", 'NoneType')),
                      ('str', 'var-dtype', ('raise', 'AssertionError', "types mismatch: <class 'str'> != <class 'ceos_alos2.hierarchy.Variable'>", 'NoneType')),
                      ('str', 'var-array', ('raise', 'AssertionError', "types mismatch: <class 'str'> != <class 'ceos_alos2.hierarchy.Variable'>", 'NoneType')),
                      ('str', 'var-array-b',
                       ('raise', 'AssertionError', "types mismatch: <class 'str'> != <class 'ceos_alos2.hierarchy.Variable'>", 'NoneType')),
                      ('str', 'subvar', ('raise', 'AssertionError', "types mismatch: <class 'str'> != <class 'equiv.SubVariable'>", 'NoneType')),
                      ('str', 'subvar-b', ('raise', 'AssertionError', "types mismatch: <class 'str'> != <class 'equiv.SubVariable'>", 'NoneType')),
                      ('str', 'array', ('raise', 'AssertionError', "types mismatch: <class 'str'> != <class 'ceos_alos2.array.Array'>", 'NoneType')),
                      ('str', 'array-dtype', ('raise', 'AssertionError', "types mismatch: <class 'str'> != <class 'ceos_alos2.array.Array'>", 'NoneType')),
                      ('str', 'array-url', ('raise', 'AssertionError', "types mismatch: <class 'str'> != <class 'ceos_alos2.array.Array'>", 'NoneType')),
                      ('str', 'array-path', ('raise', 'AssertionError', "types mismatch: <class 'str'> != <class 'ceos_alos2.array.Array'>", 'NoneType')),
                      ('str', 'array-file', ('raise', 'AssertionError', "types mismatch: <class 'str'> != <class 'ceos_alos2.array.Array'>", 'NoneType')),
                      ('str', 'array-ranges', ('raise', 'AssertionError', "types mismatch: <class 'str'> != <class 'ceos_alos2.array.Array'>", 'NoneType')),
                      ('str', 'array-rpc', ('raise', 'AssertionError', "types mismatch: <class 'str'> != <class 'ceos_alos2.array.Array'>", 'NoneType')),
                      ('str', 'array-type-code', ('raise', 'AssertionError', "types mismatch: <class 'str'> != <class 'ceos_alos2.array.Array'>", 'NoneType')),
                      ('str', 'subarray', ('raise', 'AssertionError', "types mismatch: <class 'str'> != <class 'equiv.SubArray'>", 'NoneType')),
                      ('str', 'int', ('raise', 'AssertionError', "types mismatch: <class 'str'> != <class 'int'>", 'NoneType')),
                      ('str', 'int-b', ('raise', 'AssertionError', "types mismatch: <class 'str'> != <class 'int'>", 'NoneType')),
                      ('str', 'float', ('raise', 'AssertionError', "types mismatch: <class 'str'> != <class 'float'>", 'NoneType')),
                      ('str', 'str', ('raise', 'TypeError', 'can only compare Group and Variable and Array objects', 'NoneType')),
                      ('str', 'none', ('raise', 'AssertionError', "types mismatch: <class 'str'> != <class 'NoneType'>", 'NoneType')),
                      ('str', 'dict', ('raise', 'AssertionError', "types mismatch: <class 'str'> != <class 'dict'>", 'NoneType')),
                      ('str', 'list', ('raise', 'AssertionError', "types mismatch: <class 'str'> != <class 'list'>", 'NoneType')),
                      ('str', 'ndarray', ('raise', 'AssertionError', "types mismatch: <class 'str'> != <class 'numpy.ndarray'>", 'NoneType')),
                      ('str', 'ndarray-b', ('raise', 'AssertionError', "types mismatch: <class 'str'> != <class 'numpy.ndarray'>", 'NoneType')),
                      ('str', 'np-int', ('raise', 'AssertionError', "types mismatch: <class 'str'> != <class 'numpy.int8'>", 'NoneType')),
                      ('str', 'type', ('raise', 'AssertionError', "types mismatch: <class 'str'> != <class 'abc.ABCMeta'>", 'NoneType')),
                      ('str', 'bool', ('raise', 'AssertionError', "types mismatch: <class 'str'> != <class 'bool'>", 'NoneType')),
                      ('none', 'tree:empty',
                       ('raise', 'AssertionError', "types mismatch: <class 'NoneType'> != <class 'ceos_alos2.hierarchy.Group'>", 'NoneType')),
                      ('none', 'tree:empty-url',
                       ('raise', 'AssertionError', "types mismatch: <class 'NoneType'> != <class 'ceos_alos2.hierarchy.Group'>", 'NoneType')),
                      ('none', 'tree:vars',
                       ('raise', 'AssertionError', "types mismatch: <class 'NoneType'> != <class 'ceos_alos2.hierarchy.Group'>", 'NoneType')),
                      ('none', 'tree:vars-b',
                       ('raise', 'AssertionError', "types mismatch: <class 'NoneType'> != <class 'ceos_alos2.hierarchy.Group'>", 'NoneType')),
                      ('none', 'tree:one-a',
                       ('raise', 'AssertionError', "types mismatch: <class 'NoneType'> != <class 'ceos_alos2.hierarchy.Group'>", 'NoneType')),
                      ('none', 'tree:two',
                       ('raise', 'AssertionError', "types mismatch: <class 'NoneType'> != <class 'ceos_alos2.hierarchy.Group'>", 'NoneType')),
                      ('none', 'tree:two-b',
                       ('raise', 'AssertionError', "types mismatch: <class 'NoneType'> != <class 'ceos_alos2.hierarchy.Group'>", 'NoneType')),
                      ('none', 'tree:two-c',
                       ('raise', 'AssertionError', "types mismatch: <class 'NoneType'> != <class 'ceos_alos2.hierarchy.Group'>", 'NoneType')),
                      ('none', 'tree:arrays',
                       ('raise', 'AssertionError', "types mismatch: <class 'NoneType'> != <class 'ceos_alos2.hierarchy.Group'>", 'NoneType')),
                      ('none', 'tree:arrays-b',
                       ('raise', 'AssertionError', "types mismatch: <class 'NoneType'> != <class 'ceos_alos2.hierarchy.Group'>", 'NoneType')),
                      ('none', 'tree:sub', ('raise', 'AssertionError', "types mismatch: <class 'NoneType'> != <class 'equiv.SubGroup'>", 'NoneType')),
                      ('none', 'tree:sub-b', ('raise', 'AssertionError', "types mismatch: <class 'NoneType'> != <class 'equiv.SubGroup'>", 'NoneType')),
                      ('none', 'var', ('raise', 'AssertionError', "types mismatch: <class 'NoneType'> != <class 'ceos_alos2.hierarchy.Variable'>", 'NoneType')),
                      ('none', 'var-b',
                       ('raise', 'AssertionError', "types mismatch: <class 'NoneType'> != <class 'ceos_alos2.hierarchy.Variable'>", 'NoneType')),
                      ('none', 'var-dims',
                       ('raise', 'AssertionError', "types mismatch: <class 'NoneType'> != <class 'ceos_alos2.hierarchy.Variable'>", 'NoneType')),
                      ('none', 'var-attrs',
                       ('raise', 'AssertionError', "types mismatch: <class 'NoneType'> != <class 'ceos_alos2.hierarchy.Variable'>", 'NoneType')),
                      ('none', 'var-dtype',
                       ('raise', 'AssertionError', "types mismatch: <class 'NoneType'> != <class 'ceos_alos2.hierarchy.Variable'>", 'NoneType')),
                      ('none', 'var-array',
                       ('raise', 'AssertionError', "types mismatch: <class 'NoneType'> != <class 'ceos_alos2.hierarchy.Variable'>", 'NoneType')),
                      ('none', 'var-array-b',
                       ('raise', 'AssertionError', "types mismatch: <class 'NoneType'> != <class 'ceos_alos2.hierarchy.Variable'>", 'NoneType')),
                      ('none', 'subvar', ('raise', 'AssertionError', "types mismatch: <class 'NoneType'> != <class 'equiv.SubVariable'>", 'NoneType')),
                      ('none', 'subvar-b', ('raise', 'AssertionError', "types mismatch: <class 'NoneType'> != <class 'equiv.SubVariable'>", 'NoneType')),
                      ('none', 'array', ('raise', 'AssertionError', "types mismatch: <class 'NoneType'> != <class 'ceos_alos2.array.Array'>", 'NoneType')),
                      ('none', 'array-dtype',
                       ('raise', 'AssertionError', "types mismatch: <class 'NoneType'> != <class 'ceos_alos2.array.Array'>", 'NoneType')),
                      ('none', 'array-url', ('raise', 'AssertionError', "types mismatch: <class 'NoneType'> != <class 'ceos_alos2.array.Array'>", 'NoneType')),
                      ('none', 'array-path', ('raise', 'AssertionError', "types mismatch: <class 'NoneType'> != <class 'ceos_alos2.array.Array'>", 'NoneType')),
                      ('none', 'array-file', ('raise', 'AssertionError', "types mismatch: <class 'NoneType'> != <class 'ceos_alos2.array.Array'>", 'NoneType')),
                      ('none', 'array-ranges',
                       ('raise', 'AssertionError', "types mismatch: <class 'NoneType'> != <class 'ceos_alos2.array.Array'>", 'NoneType')),
                      ('none', 'array-rpc', ('raise', 'AssertionError', "types mismatch: <class 'NoneType'> != <class 'ceos_alos2.array.Array'>", 'NoneType')),
                      ('none', 'array-type-code',
                       ('raise', 'AssertionError', "types mismatch: <class 'NoneType'> != <class 'ceos_alos2.array.Array'>", 'NoneType')),
                      ('none', 'subarray', ('raise', 'AssertionError', "types mismatch: <class 'NoneType'> != <class 'equiv.SubArray'>", 'NoneType')),
                      ('none', 'int', ('raise', 'AssertionError', "types mismatch: <class 'NoneType'> != <class 'int'>", 'NoneType')),
                      ('none', 'int-b', ('raise', 'AssertionError', "types mismatch: <class 'NoneType'> != <class 'int'>", 'NoneType')),
                      ('none', 'float', ('raise', 'AssertionError', "types mismatch: <class 'NoneType'> != <class 'float'>", 'NoneType')),
                      ('none', 'str', ('raise', 'AssertionError', "types mismatch: <class 'NoneType'> != <class 'str'>", 'NoneType')),
                      ('none', 'none', ('raise', 'TypeError', 'can only compare Group and Variable and Array objects', 'NoneType')),
                      ('none', 'dict', ('raise', 'AssertionError', "types mismatch: <class 'NoneType'> != <class 'dict'>", 'NoneType')),
                      ('none', 'list', ('raise', 'AssertionError', "types mismatch: <class 'NoneType'> != <class 'list'>", 'NoneType')),
                      ('none', 'ndarray', ('raise', 'AssertionError', "types mismatch: <class 'NoneType'> != <class 'numpy.ndarray'>", 'NoneType')),
                      ('none', 'ndarray-b', ('raise', 'AssertionError', "types mismatch: <class 'NoneType'> != <class 'numpy.ndarray'>", 'NoneType')),
                      ('none', 'np-int', ('raise', 'AssertionError', "types mismatch: <class 'NoneType'> != <class 'numpy.int8'>", 'NoneType')),
                      ('none', 'type', ('raise', 'AssertionError', "types mismatch: <class 'NoneType'> != <class 'abc.ABCMeta'>", 'NoneType')),
                      ('none', 'bool', ('raise', 'AssertionError', "types mismatch: <class 'NoneType'> != <class 'bool'>", 'NoneType')),
                      ('dict', 'tree:empty', ('raise', 'AssertionError', "types mismatch: <class 'dict'> != <class 'ceos_alos2.hierarchy.Group'>", 'NoneType')),
                      ('dict', 'tree:empty-url',
                       ('raise', 'AssertionError', "types mismatch: <class 'dict'> != <class 'ceos_alos2.hierarchy.Group'>", 'NoneType')),
                      ('dict', 'tree:vars', ('raise', 'AssertionError', "types mismatch: <class 'dict'> != <class 'ceos_alos2.hierarchy.Group'>", 'NoneType')),
                      ('dict', 'tree:vars-b',
                       ('raise', 'AssertionError', "types mismatch: <class 'dict'> != <class 'ceos_alos2.hierarchy.Group'>", 'NoneType')),
                      ('dict', 'tree:one-a', ('raise', 'AssertionError', "types mismatch: <class 'dict'> != <class 'ceos_alos2.hierarchy.Group'>", 'NoneType')),
                      ('dict', 'tree:two', ('raise', 'AssertionError', "types mismatch: <class 'dict'> != <class 'ceos_alos2.hierarchy.Group'>", 'NoneType')),
                      ('dict', 'tree:two-b', ('raise', 'AssertionError', "types mismatch: <class 'dict'> != <class 'ceos_alos2.hierarchy.Group'>", 'NoneType')),
                      ('dict', 'tree:two-c', ('raise', 'AssertionError', "types mismatch: <class 'dict'> != <class 'ceos_alos2.hierarchy.Group'>", 'NoneType')),
                      ('dict', 'tree:arrays',
                       ('raise', 'AssertionError', "types mismatch: <class 'dict'> != <class 'ceos_alos2.hierarchy.Group'>", 'NoneType')),
                      ('dict', 'tree:arrays-b',
                       ('raise', 'AssertionError', "types mismatch: <class 'dict'> != <class 'ceos_alos2.hierarchy.Group'>", 'NoneType')),
                      ('dict', 'tree:sub', ('raise', 'AssertionError', "types mismatch: <class 'dict'> != <class 'equiv.SubGroup'>", 'NoneType')),
                      ('dict', 'tree:sub-b', ('raise', 'AssertionError', "types mismatch: <class 'dict'> != <class 'equiv.SubGroup'>", 'NoneType')),
                      ('dict', 'var', ('raise', 'AssertionError', "types mismatch: <class 'dict'> != <class 'ceos_alos2.hierarchy.Variable'>", 'NoneType')),
                      ('dict', 'var-b', ('raise', 'AssertionError', "types mismatch: <class 'dict'> != <class 'ceos_alos2.hierarchy.Variable'>", 'NoneType')),
                      ('dict', 'var-dims',
                       ('raise', 'AssertionError', "types mismatch: <class 'dict'> != <class 'ceos_alos2.hierarchy.Variable'>", 'NoneType')),
                      ('dict', 'var-attrs',
                       ('raise', 'AssertionError', "types mismatch: <class 'dict'> != <class 'ceos_alos2.hierarchy.Variable'>", 'NoneType')),
                      ('dict', 'var-dtype',
                       ('raise', 'AssertionError', "types mismatch: <class 'dict'> != <class 'ceos_alos2.hierarchy.Variable'>", 'NoneType')),
                      ('dict', 'var-array',
                       ('raise', 'AssertionError', "types mismatch: <class 'dict'> != <class 'ceos_alos2.hierarchy.Variable'>", 'NoneType')),
                      ('dict', 'var-array-b',
                       ('raise', 'AssertionError', "types mismatch: <class 'dict'> != <class 'ceos_alos2.hierarchy.Variable'>", 'NoneType')),
                      ('dict', 'subvar', ('raise', 'AssertionError', "types mismatch: <class 'dict'> != <class 'equiv.SubVariable'>", 'NoneType')),
                      ('dict', 'subvar-b', ('raise', 'AssertionError', "types mismatch: <class 'dict'> != <class 'equiv.SubVariable'>", 'NoneType')),
                      ('dict', 'array', ('raise', 'AssertionError', "types mismatch: <class 'dict'> != <class 'ceos_alos2.array.Array'>", 'NoneType')),
                      ('dict', 'array-dtype', ('raise', 'AssertionError', "types mismatch: <class 'dict'> != <class 'ceos_alos2.array.Array'>", 'NoneType')),
                      ('dict', 'array-url', ('raise', 'AssertionError', "types mismatch: <class 'dict'> != <class 'ceos_alos2.array.Array'>", 'NoneType')),
                      ('dict', 'array-path', ('raise', 'AssertionError', "types mismatch: <class 'dict'> != <class 'ceos_alos2.array.Array'>", 'NoneType')),
                      ('dict', 'array-file', ('raise', 'AssertionError', "types mismatch: <class 'dict'> != <class 'ceos_alos2.array.Array'>", 'NoneType')),
                      ('dict', 'array-ranges', ('raise', 'AssertionError', "types mismatch: <class 'dict'> != <class 'ceos_alos2.array.Array'>", 'NoneType')),
                      ('dict', 'array-rpc', ('raise', 'AssertionError', "types mismatch: <class 'dict'> != <class 'ceos_alos2.array.Array'>", 'NoneType')),
                      ('dict', 'array-type-code',
                       ('raise', 'AssertionError', "types mismatch: <class 'dict'> != <class 'ceos_alos2.array.Array'>", 'NoneType')),
                      ('dict', 'subarray', ('raise', 'AssertionError', "types mismatch: <class 'dict'> != <class 'equiv.SubArray'>", 'NoneType')),
                      ('dict', 'int', ('raise', 'AssertionError', "types mismatch: <class 'dict'> != <class 'int'>", 'NoneType')),
                      ('dict', 'int-b', ('raise', 'AssertionError', "types mismatch: <class 'dict'> != <class 'int'>", 'NoneType')),
                      ('dict', 'float', ('raise', 'AssertionError', "types mismatch: <class 'dict'> != <class 'float'>", 'NoneType')),
                      ('dict', 'str', ('raise', 'AssertionError', "types mismatch: <class 'dict'> != <class 'str'>", 'NoneType')),
                      ('dict', 'none', ('raise', 'AssertionError', "types mismatch: <class 'dict'> != <class 'NoneType'>", 'NoneType')),
                      ('dict', 'dict', ('raise', 'TypeError', 'can only compare Group and Variable and Array objects', 'NoneType')),
                      ('dict', 'list', ('raise', 'AssertionError', "types mismatch: <class 'dict'> != <class 'list'>", 'NoneType')),
                      ('dict', 'ndarray', ('raise', 'AssertionError', "types mismatch: <class 'dict'> != <class 'numpy.ndarray'>", 'NoneType')),
                      ('dict', 'ndarray-b', ('raise', 'AssertionError', "types mismatch: <class 'dict'> != <class 'numpy.ndarray'>", 'NoneType')),
                      ('dict', 'np-int', ('raise', 'AssertionError', "types mismatch: <class 'dict'> != <class 'numpy.int8'>", 'NoneType')),
                      ('dict', 'type', ('raise', 'AssertionError', "types mismatch: <class 'dict'> != <class 'abc.ABCMeta'>", 'NoneType')),
                      ('dict', 'bool', ('raise', 'AssertionError', "types mismatch: <class 'dict'> != <class 'bool'>", 'NoneType')),
                      ('list', 'tree:empty', ('raise', 'AssertionError', "types mismatch: <class 'list'> != <class 'ceos_alos2.hierarchy.Group'>", 'NoneType')),
                      ('list', 'tree:empty-url',
                       ('raise', 'AssertionError', "types mismatch: <class 'list'> != <class 'ceos_alos2.hierarchy.Group'>", 'NoneType')),
                      ('list', 'tree:vars', ('raise', 'AssertionError', "types mismatch: <class 'list'> != <class 'ceos_alos2.hierarchy.Group'>", 'NoneType')),
                      ('list', 'tree:vars-b',
                       ('raise', 'AssertionError', "types mismatch: <class 'list'> != <class 'ceos_alos2.hierarchy.Group'>", 'NoneType')),
                      ('list', 'tree:one-a', ('raise', 'AssertionError', "types mismatch: <class 'list'> != <class 'ceos_alos2.hierarchy.Group'>", 'NoneType')),
                      ('list', 'tree:two', ('raise', 'AssertionError', "types mismatch: <class 'list'> != <class 'ceos_alos2.hierarchy.Group'>", 'NoneType')),
                      ('list', 'tree:two-b', ('raise', 'AssertionError', "types mismatch: <class 'list'> != <class 'ceos_alos2.hierarchy.Group'>", 'NoneType')),
                      ('list', 'tree:two-c', ('raise', 'AssertionError', "types mismatch: <class 'list'> != <class 'ceos_alos2.hierarchy.Group'>", 'NoneType')),
                      ('list', 'tree:arrays',
                       ('raise', 'AssertionError', "types mismatch: <class 'list'> != <class 'ceos_alos2.hierarchy.Group'>", 'NoneType')),
                      ('list', 'tree:arrays-b',
                       ('raise', 'AssertionError', "types mismatch: <class 'list'> != <class 'ceos_alos2.hierarchy.Group'>", 'NoneType')),
                      ('list', 'tree:sub', ('raise', 'AssertionError', "types mismatch: <class 'list'> != <class 'equiv.SubGroup'>", 'NoneType')),
                      ('list', 'tree:sub-b', ('raise', 'AssertionError', "types mismatch: <class 'list'> != <class 'equiv.SubGroup'>", 'NoneType')),
                      ('list', 'var', ('raise', 'AssertionError', "types mismatch: <class 'list'> != <class 'ceos_alos2.hierarchy.Variable'>", 'NoneType')),
                      ('list', 'var-b', ('raise', 'AssertionError', "types mismatch: <class 'list'> != <class 'ceos_alos2.hierarchy.Variable'>", 'NoneType')),
                      ('list', 'var-dims',
                       ('raise', 'AssertionError', "types mismatch: <class 'list'> != <class 'ceos_alos2.hierarchy.Variable'>", 'NoneType')),
                      ('list', 'var-attrs',
                       ('raise', 'AssertionError', "types mismatch: <class 'list'> != <class 'ceos_alos2.hierarchy.Variable'>", 'NoneType')),
                      ('list', 'var-dtype',
                       ('raise', 'AssertionError', "types mismatch: <class 'list'> != <class 'ceos_alos2.hierarchy.Variable'>", 'NoneType')),
                      ('list', 'var-array',
                       ('raise', 'AssertionError', "types mismatch: <class 'list'> != <class 'ceos_alos2.hierarchy.Variable'>", 'NoneType')),
                      ('list', 'var-array-b',
                       ('raise', 'AssertionError', "types mismatch: <class 'list'> != <class 'ceos_alos2.hierarchy.Variable'>", 'NoneType')),
                      ('list', 'subvar', ('raise', 'AssertionError', "types mismatch: <class 'list'> != <class 'equiv.SubVariable'>", 'NoneType')),
                      ('list', 'subvar-b', ('raise', 'AssertionError', "types mismatch: <class 'list'> != <class 'equiv.SubVariable'>", 'NoneType')),
                      ('list', 'array', ('raise', 'AssertionError', "types mismatch: <class 'list'> != <class 'ceos_alos2.array.Array'>", 'NoneType')),
                      ('list', 'array-dtype', ('raise', 'AssertionError', "types mismatch: <class 'list'> != <class 'ceos_alos2.array.Array'>", 'NoneType')),
                      ('list', 'array-url', ('raise', 'AssertionError', "types mismatch: <class 'list'> != <class 'ceos_alos2.array.Array'>", 'NoneType')),
                      ('list', 'array-path', ('raise', 'AssertionError', "types mismatch: <class 'list'> != <class 'ceos_alos2.array.Array'>", 'NoneType')),
                      ('list', 'array-file', ('raise', 'AssertionError', "types mismatch: <class 'list'> != <class 'ceos_alos2.array.Array'>", 'NoneType')),
                      ('list', 'array-ranges', ('raise', 'AssertionError', "types mismatch: <class 'list'> != <class 'ceos_alos2.array.Array'>", 'NoneType')),
                      ('list', 'array-rpc', ('raise', 'AssertionError', "types mismatch: <class 'list'> != <class 'ceos_alos2.array.Array'>", 'NoneType')),
                      ('list', 'array-type-code',
                       ('raise', 'AssertionError', "types mismatch: <class 'list'> != <class 'ceos_alos2.array.Array'>", 'NoneType')),
                      ('list', 'subarray', ('raise', 'AssertionError', "types mismatch: <class 'list'> != <class 'equiv.SubArray'>", 'NoneType')),
                      ('list', 'int', ('raise', 'AssertionError', "types mismatch: <class 'list'> != <class 'int'>", 'NoneType')),
                      ('list', 'int-b', ('raise', 'AssertionError', "types mismatch: <class 'list'> != <class 'int'>", 'NoneType')),
                      ('list', 'float', ('raise', 'AssertionError', "types mismatch: <class 'list'> != <class 'float'>", 'NoneType')),
                      ('list', 'str', ('raise', 'AssertionError', "types mismatch: <class 'list'> != <class 'str'>", 'NoneType')),
                      ('list', 'none', ('raise', 'AssertionError', "types mismatch: <class 'list'> != <class 'NoneType'>", 'NoneType')),
                      ('list', 'dict', ('raise', 'AssertionError', "types mismatch: <class 'list'> != <class 'dict'>", 'NoneType')),
                      ('list', 'list', ('raise', 'TypeError', 'can only compare Group and Variable and Array objects', 'NoneType')),
                      ('list', 'ndarray', ('raise', 'AssertionError', "types mismatch: <class 'list'> != <class 'numpy.ndarray'>", 'NoneType')),
                      ('list', 'ndarray-b', ('raise', 'AssertionError', "types mismatch: <class 'list'> != <class 'numpy.ndarray'>", 'NoneType')),
                      ('list', 'np-int', ('raise', 'AssertionError', "types mismatch: <class 'list'> != <class 'numpy.int8'>", 'NoneType')),
                      ('list', 'type', ('raise', 'AssertionError', "types mismatch: <class 'list'> != <class 'abc.ABCMeta'>", 'NoneType')),
                      ('list', 'bool', ('raise', 'AssertionError', "types mismatch: <class 'list'> != <class 'bool'>", 'NoneType')),
                      ('ndarray', 'tree:empty',
                       ('raise', 'AssertionError', "types mismatch: <class 'numpy.ndarray'> != <class 'ceos_alos2.hierarchy.Group'>", 'NoneType')),
                      ('ndarray', 'tree:empty-url',
                       ('raise', 'AssertionError', "types mismatch: <class 'numpy.ndarray'> != <class 'ceos_alos2.hierarchy.Group'>", 'NoneType')),
                      ('ndarray', 'tree:vars',
                       ('raise', 'AssertionError', "types mismatch: <class 'numpy.ndarray'> != <class 'ceos_alos2.hierarchy.Group'>", 'NoneType')),
                      ('ndarray', 'tree:vars-b',
                       ('raise', 'AssertionError', "types mismatch: <class 'numpy.ndarray'> != <class 'ceos_alos2.hierarchy.Group'>", 'NoneType')),
                      ('ndarray', 'tree:one-a',
                       ('raise', 'AssertionError', "types mismatch: <class 'numpy.ndarray'> != <class 'ceos_alos2.hierarchy.Group'>", 'NoneType')),
                      ('ndarray', 'tree:two',
                       ('raise', 'AssertionError', "types mismatch: <class 'numpy.ndarray'> != <class 'ceos_alos2.hierarchy.Group'>", 'NoneType')),
                      ('ndarray', 'tree:two-b',
                       ('raise', 'AssertionError', "types mismatch: <class 'numpy.ndarray'> != <class 'ceos_alos2.hierarchy.Group'>", 'NoneType')),
                      ('ndarray', 'tree:two-c',
                       ('raise', 'AssertionError', "types mismatch: <class 'numpy.ndarray'> != <class 'ceos_alos2.hierarchy.Group'>", 'NoneType')),
                      ('ndarray', 'tree:arrays',
                       ('raise', 'AssertionError', "types mismatch: <class 'numpy.ndarray'> != <class 'ceos_alos2.hierarchy.Group'>", 'NoneType')),
                      ('ndarray', 'tree:arrays-b',
                       ('raise', 'AssertionError', "types mismatch: <class 'numpy.ndarray'> != <class 'ceos_alos2.hierarchy.Group'>", 'NoneType')),
                      ('ndarray', 'tree:sub', ('raise', 'AssertionError', "types mismatch: <class 'numpy.ndarray'> != <class 'equiv.SubGroup'>", 'NoneType')),
                      ('ndarray', 'tree:sub-b', ('raise', 'AssertionError', "types mismatch: <class 'numpy.ndarray'> != <class 'equiv.SubGroup'>", 'NoneType')),
                      ('ndarray', 'var',
                       ('raise', 'AssertionError', "types mismatch: <class 'numpy.ndarray'> != <class 'ceos_alos2.hierarchy.Variable'>", 'NoneType')),
                      ('ndarray', 'var-b',
                       ('raise', 'AssertionError', "types mismatch: <class 'numpy.ndarray'> != <class 'ceos_alos2.hierarchy.Variable'>", 'NoneType')),
                      ('ndarray', 'var-dims',
                       ('raise', 'AssertionError', "types mismatch: <class 'numpy.ndarray'> != <class 'ceos_alos2.hierarchy.Variable'>", 'NoneType')),
                      ('ndarray', 'var-attrs',
                       ('raise', 'AssertionError', "types mismatch: <class 'numpy.ndarray'> != <class 'ceos_alos2.hierarchy.Variable'>", 'NoneType')),
                      ('ndarray', 'var-dtype',
                       ('raise', 'AssertionError', "types mismatch: <class 'numpy.ndarray'> != <class 'ceos_alos2.hierarchy.Variable'>", 'NoneType')),
                      ('ndarray', 'var-array',
                       ('raise', 'AssertionError', "types mismatch: <class 'numpy.ndarray'> != <class 'ceos_alos2.hierarchy.Variable'>", 'NoneType')),
                      ('ndarray', 'var-array-b',
                       ('raise', 'AssertionError', "types mismatch: <class 'numpy.ndarray'> != <class 'ceos_alos2.hierarchy.Variable'>", 'NoneType')),
                      ('ndarray', 'subvar', ('raise', 'AssertionError', "types mismatch: <class 'numpy.ndarray'> != <class 'equiv.SubVariable'>", 'NoneType')),
                      ('ndarray', 'subvar-b',
                       ('raise', 'AssertionError', "types mismatch: <class 'numpy.ndarray'> != <class 'equiv.SubVariable'>", 'NoneType')),
                      ('ndarray', 'array',
                       ('raise', 'AssertionError', "types mismatch: <class 'numpy.ndarray'> != <class 'ceos_alos2.array.Array'>", 'NoneType')),
                      ('ndarray', 'array-dtype',
                       ('raise', 'AssertionError', "types mismatch: <class 'numpy.ndarray'> != <class 'ceos_alos2.array.Array'>", 'NoneType')),
                      ('ndarray', 'array-url',
                       ('raise', 'AssertionError', "types mismatch: <class 'numpy.ndarray'> != <class 'ceos_alos2.array.Array'>", 'NoneType')),
                      ('ndarray', 'array-path',
                       ('raise', 'AssertionError', "types mismatch: <class 'numpy.ndarray'> != <class 'ceos_alos2.array.Array'>", 'NoneType')),
                      ('ndarray', 'array-file',
                       ('raise', 'AssertionError', "types mismatch: <class 'numpy.ndarray'> != <class 'ceos_alos2.array.Array'>", 'NoneType')),
                      ('ndarray', 'array-ranges',
                       ('raise', 'AssertionError', "types mismatch: <class 'numpy.ndarray'> != <class 'ceos_alos2.array.Array'>", 'NoneType')),
                      ('ndarray', 'array-rpc',
                       ('raise', 'AssertionError', "types mismatch: <class 'numpy.ndarray'> != <class 'ceos_alos2.array.Array'>", 'NoneType')),
                      ('ndarray', 'array-type-code',
                       ('raise', 'AssertionError', "types mismatch: <class 'numpy.ndarray'> != <class 'ceos_alos2.array.Array'>", 'NoneType')),
                      ('ndarray', 'subarray', ('raise', 'AssertionError', "types mismatch: <class 'numpy.ndarray'> != <class 'equiv.SubArray'>", 'NoneType')),
                      ('ndarray', 'int', ('raise', 'AssertionError', "types mismatch: <class 'numpy.ndarray'> != <class 'int'>", 'NoneType')),
                      ('ndarray', 'int-b', ('raise', 'AssertionError', "types mismatch: <class 'numpy.ndarray'> != <class 'int'>", 'NoneType')),
                      ('ndarray', 'float', ('raise', 'AssertionError', "types mismatch: <class 'numpy.ndarray'> != <class 'float'>", 'NoneType')),
                      ('ndarray', 'str', ('raise', 'AssertionError', "types mismatch: <class 'numpy.ndarray'> != <class 'str'>", 'NoneType')),
                      ('ndarray', 'none', ('raise', 'AssertionError', "types mismatch: <class 'numpy.ndarray'> != <class 'NoneType'>", 'NoneType')),
                      ('ndarray', 'dict', ('raise', 'AssertionError', "types mismatch: <class 'numpy.ndarray'> != <class 'dict'>", 'NoneType')),
                      ('ndarray', 'list', ('raise', 'AssertionError', "types mismatch: <class 'numpy.ndarray'> != <class 'list'>", 'NoneType')),
                      ('ndarray', 'ndarray', ('raise', 'TypeError', 'can only compare Group and Variable and Array objects', 'NoneType')),
                      ('ndarray', 'ndarray-b', ('raise', 'TypeError', 'can only compare Group and Variable and Array objects', 'NoneType')),
                      ('ndarray', 'np-int', ('raise', 'AssertionError', "types mismatch: <class 'numpy.ndarray'> != <class 'numpy.int8'>", 'NoneType')),
                      ('ndarray', 'type', ('raise', 'AssertionError', "types mismatch: <class 'numpy.ndarray'> != <class 'abc.ABCMeta'>", 'NoneType')),
                      ('ndarray', 'bool', ('raise', 'AssertionError', "types mismatch: <class 'numpy.ndarray'> != <class 'bool'>", 'NoneType')),
                      ('ndarray-b', 'tree:empty',
                       ('raise', 'AssertionError', "types mismatch: <class 'numpy.ndarray'> != <class 'ceos_alos2.hierarchy.Group'>", 'NoneType')),
                      ('ndarray-b', 'tree:empty-url',
                       ('raise', 'AssertionError', "types mismatch: <class 'numpy.ndarray'> != <class 'ceos_alos2.hierarchy.Group'>", 'NoneType')),
                      ('ndarray-b', 'tree:vars',
                       ('raise', 'AssertionError', "types mismatch: <class 'numpy.ndarray'> != <class 'ceos_alos2.hierarchy.Group'>", 'NoneType')),
                      ('ndarray-b', 'tree:vars-b',
                       ('raise', 'AssertionError', "types mismatch: <class 'numpy.ndarray'> != <class 'ceos_alos2.hierarchy.Group'>", 'NoneType')),
                      ('ndarray-b', 'tree:one-a',
                       ('raise', 'AssertionError', "types mismatch: <class 'numpy.ndarray'> != <class 'ceos_alos2.hierarchy.Group'>", 'NoneType')),
                      ('ndarray-b', 'tree:two',
                       ('raise', 'AssertionError', "types mismatch: <class 'numpy.ndarray'> != <class 'ceos_alos2.hierarchy.Group'>", 'NoneType')),
                      ('ndarray-b', 'tree:two-b',
                       ('raise', 'AssertionError', "types mismatch: <class 'numpy.ndarray'> != <class 'ceos_alos2.hierarchy.Group'>", 'NoneType')),
                      ('ndarray-b', 'tree:two-c',
                       ('raise', 'AssertionError', "types mismatch: <class 'numpy.ndarray'> != <class 'ceos_alos2.hierarchy.Group'>", 'NoneType')),
                      ('ndarray-b', 'tree:arrays',
                       ('raise', 'AssertionError', "types mismatch: <class 'numpy.ndarray'> != <class 'ceos_alos2.hierarchy.Group'>", 'NoneType')),
                      ('ndarray-b', 'tree:arrays-b',
                       ('raise', 'AssertionError', "types mismatch: <class 'numpy.ndarray'> != <class 'ceos_alos2.hierarchy.Group'>", 'NoneType')),
                      ('ndarray-b', 'tree:sub', ('raise', 'AssertionError', "types mismatch: <class 'numpy.ndarray'> != <class 'equiv.SubGroup'>", 'NoneType')),
                      ('ndarray-b', 'tree:sub-b',
                       ('raise', 'AssertionError', "types mismatch: <class 'numpy.ndarray'> != <class 'equiv.SubGroup'>", 'NoneType')),
                      ('ndarray-b', 'var',
                       ('raise', 'AssertionError', "types mismatch: <class 'numpy.ndarray'> != <class 'ceos_alos2.hierarchy.Variable'>", 'NoneType')),
                      ('ndarray-b', 'var-b',
                       ('raise', 'AssertionError', "types mismatch: <class 'numpy.ndarray'> != <class 'ceos_alos2.hierarchy.Variable'>", 'NoneType')),
                      ('ndarray-b', 'var-dims',
                       ('raise', 'AssertionError', "types mismatch: <class 'numpy.ndarray'> != <class 'ceos_alos2.hierarchy.Variable'>", 'NoneType')),
                      ('ndarray-b', 'var-attrs',
                       ('raise', 'AssertionError', "types mismatch: <class 'numpy.ndarray'> != <class 'ceos_alos2.hierarchy.Variable'>", 'NoneType')),
                      ('ndarray-b', 'var-dtype',
                       ('raise', 'AssertionError', "types mismatch: <class 'numpy.ndarray'> != <class 'ceos_alos2.hierarchy.Variable'>", 'NoneType')),
                      ('ndarray-b', 'var-array',
                       ('raise', 'AssertionError', "types mismatch: <class 'numpy.ndarray'> != <class 'ceos_alos2.hierarchy.Variable'>", 'NoneType')),
                      ('ndarray-b', 'var-array-b',
                       ('raise', 'AssertionError', "types mismatch: <class 'numpy.ndarray'> != <class 'ceos_alos2.hierarchy.Variable'>", 'NoneType')),
                      ('ndarray-b', 'subvar',
                       ('raise', 'AssertionError', "types mismatch: <class 'numpy.ndarray'> != <class 'equiv.SubVariable'>", 'NoneType')),
                      ('ndarray-b', 'subvar-b',
                       ('raise', 'AssertionError', "types mismatch: <class 'numpy.ndarray'> != <class 'equiv.SubVariable'>", 'NoneType')),
                      ('ndarray-b', 'array',
                       ('raise', 'AssertionError', "types mismatch: <class 'numpy.ndarray'> != <class 'ceos_alos2.array.Array'>", 'NoneType')),
                      ('ndarray-b', 'array-dtype',
                       ('raise', 'AssertionError', "types mismatch: <class 'numpy.ndarray'> != <class 'ceos_alos2.array.Array'>", 'NoneType')),
                      ('ndarray-b', 'array-url',
                       ('raise', 'AssertionError', "types mismatch: <class 'numpy.ndarray'> != <class 'ceos_alos2.array.Array'>", 'NoneType')),
                      ('ndarray-b', 'array-path',
                       ('raise', 'AssertionError', "types mismatch: <class 'numpy.ndarray'> != <class 'ceos_alos2.array.Array'>", 'NoneType')),
                      ('ndarray-b', 'array-file',
                       ('raise', 'AssertionError', "types mismatch: <class 'numpy.ndarray'> != <class 'ceos_alos2.array.Array'>", 'NoneType')),
                      ('ndarray-b', 'array-ranges',
                       ('raise', 'AssertionError', "types mismatch: <class 'numpy.ndarray'> != <class 'ceos_alos2.array.Array'>", 'NoneType')),
                      ('ndarray-b', 'array-rpc',
                       ('raise', 'AssertionError', "types mismatch: <class 'numpy.ndarray'> != <class 'ceos_alos2.array.Array'>", 'NoneType')),
                      ('ndarray-b', 'array-type-code',
                       ('raise', 'AssertionError', "types mismatch: <class 'numpy.ndarray'> != <class 'ceos_alos2.array.Array'>", 'NoneType')),
                      ('ndarray-b', 'subarray', ('raise', 'AssertionError', "types mismatch: <class 'numpy.ndarray'> != <class 'equiv.SubArray'>", 'NoneType')),
                      ('ndarray-b', 'int', ('raise', 'AssertionError', "types mismatch: <class 'numpy.ndarray'> != <class 'int'>", 'NoneType')),
                      ('ndarray-b', 'int-b', ('raise', 'AssertionError', "types mismatch: <class 'numpy.ndarray'> != <class 'int'>", 'NoneType')),
                      ('ndarray-b', 'float', ('raise', 'AssertionError', "types mismatch: <class 'numpy.ndarray'> != <class 'float'>", 'NoneType')),
                      ('ndarray-b', 'str', ('raise', 'AssertionError', "types mismatch: <class 'numpy.ndarray'> != <class 'str'>", 'NoneType')),
                      ('ndarray-b', 'none', ('raise', 'AssertionError', "types mismatch: <class 'numpy.ndarray'> != <class 'NoneType'>", 'NoneType')),
                      ('ndarray-b', 'dict', ('raise', 'AssertionError', "types mismatch: <class 'numpy.ndarray'> != <class 'dict'>", 'NoneType')),
                      ('ndarray-b', 'list', ('raise', 'AssertionError', "types mismatch: <class 'numpy.ndarray'> != <class 'list'>", 'NoneType')),
                      ('ndarray-b', 'ndarray', ('raise', 'TypeError', 'can only compare Group and Variable and Array objects', 'NoneType')),
                      ('ndarray-b', 'ndarray-b', ('raise', 'TypeError', 'can only compare Group and Variable and Array objects', 'NoneType')),
                      ('ndarray-b', 'np-int', ('raise', 'AssertionError', "types mismatch: <class 'numpy.ndarray'> != <class 'numpy.int8'>", 'NoneType')),
                      ('ndarray-b', 'type', ('raise', 'AssertionError', "types mismatch: <class 'numpy.ndarray'> != <class 'abc.ABCMeta'>", 'NoneType')),
                      ('ndarray-b', 'bool', ('raise', 'AssertionError', "types mismatch: <class 'numpy.ndarray'> != <class 'bool'>", 'NoneType')),
                      ('np-int', 'tree:empty',
                       ('raise', 'AssertionError', "types mismatch: <class 'numpy.int8'> != <class 'ceos_alos2.hierarchy.Group'>", 'NoneType')),
                      ('np-int', 'tree:empty-url',
                       ('raise', 'AssertionError', "types mismatch: <class 'numpy.int8'> != <class 'ceos_alos2.hierarchy.Group'>", 'NoneType')),
                      ('np-int', 'tree:vars',
                       ('raise', 'AssertionError', "types mismatch: <class 'numpy.int8'> != <class 'ceos_alos2.hierarchy.Group'>", 'NoneType')),
                      ('np-int', 'tree:vars-b',
                       ('raise', 'AssertionError', "types mismatch: <class 'numpy.int8'> != <class 'ceos_alos2.hierarchy.Group'>", 'NoneType')),
                      ('np-int', 'tree:one-a',
                       ('raise', 'AssertionError', "types mismatch: <class 'numpy.int8'> != <class 'ceos_alos2.hierarchy.Group'>", 'NoneType')),
                      ('np-int', 'tree:two',
                       ('raise', 'AssertionError', "types mismatch: <class 'numpy.int8'> != <class 'ceos_alos2.hierarchy.Group'>", 'NoneType')),
                      ('np-int', 'tree:two-b',
                       ('raise', 'AssertionError', "types mismatch: <class 'numpy.int8'> != <class 'ceos_alos2.hierarchy.Group'>", 'NoneType')),
                      ('np-int', 'tree:two-c',
                       ('raise', 'AssertionError', "types mismatch: <class 'numpy.int8'> != <class 'ceos_alos2.hierarchy.Group'>", 'NoneType')),
                      ('np-int', 'tree:arrays',
                       ('raise', 'AssertionError', "types mismatch: <class 'numpy.int8'> != <class 'ceos_alos2.hierarchy.Group'>", 'NoneType')),
                      ('np-int', 'tree:arrays-b',
                       ('raise', 'AssertionError', "types mismatch: <class 'numpy.int8'> != <class 'ceos_alos2.hierarchy.Group'>", 'NoneType')),
                      ('np-int', 'tree:sub', ('raise', 'AssertionError', "types mismatch: <class 'numpy.int8'> != <class 'equiv.SubGroup'>", 'NoneType')),
                      ('np-int', 'tree:sub-b', ('raise', 'AssertionError', "types mismatch: <class 'numpy.int8'> != <class 'equiv.SubGroup'>", 'NoneType')),
                      ('np-int', 'var',
                       ('raise', 'AssertionError', "types mismatch: <class 'numpy.int8'> != <class 'ceos_alos2.hierarchy.Variable'>", 'NoneType')),
                      ('np-int', 'var-b',
                       ('raise', 'AssertionError', "types mismatch: <class 'numpy.int8'> != <class 'ceos_alos2.hierarchy.Variable'>", 'NoneType')),
                      ('np-int', 'var-dims',
                       ('raise', 'AssertionError', "types mismatch: <class 'numpy.int8'> != <class 'ceos_alos2.hierarchy.Variable'>", 'NoneType')),
                      ('np-int', 'var-attrs',
                       ('raise', 'AssertionError', "types mismatch: <class 'numpy.int8'> != <class 'ceos_alos2.hierarchy.Variable'>", 'NoneType')),
                      ('np-int', 'var-dtype',
                       ('raise', 'AssertionError', "types mismatch: <class 'numpy.int8'> != <class 'ceos_alos2.hierarchy.Variable'>", 'NoneType')),
                      ('np-int', 'var-array',
                       ('raise', 'AssertionError', "types mismatch: <class 'numpy.int8'> != <class 'ceos_alos2.hierarchy.Variable'>", 'NoneType')),
                      ('np-int', 'var-array-b',
                       ('raise', 'AssertionError', "types mismatch: <class 'numpy.int8'> != <class 'ceos_alos2.hierarchy.Variable'>", 'NoneType')),
                      ('np-int', 'subvar', ('raise', 'AssertionError', "types mismatch: <class 'numpy.int8'> != <class 'equiv.SubVariable'>", 'NoneType')),
                      ('np-int', 'subvar-b', ('raise', 'AssertionError', "types mismatch: <class 'numpy.int8'> != <class 'equiv.SubVariable'>", 'NoneType')),
                      ('np-int', 'array', ('raise', 'AssertionError', "types mismatch: <class 'numpy.int8'> != <class 'ceos_alos2.array.Array'>", 'NoneType')),
                      ('np-int', 'array-dtype',
                       ('raise', 'AssertionError', "types mismatch: <class 'numpy.int8'> != <class 'ceos_alos2.array.Array'>", 'NoneType')),
                      ('np-int', 'array-url',
                       ('raise', 'AssertionError', "types mismatch: <class 'numpy.int8'> != <class 'ceos_alos2.array.Array'>", 'NoneType')),
                      ('np-int', 'array-path',
                       ('raise', 'AssertionError', "types mismatch: <class 'numpy.int8'> != <class 'ceos_alos2.array.Array'>", 'NoneType')),
                      ('np-int', 'array-file',
                       ('raise', 'AssertionError', "types mismatch: <class 'numpy.int8'> != <class 'ceos_alos2.array.Array'>", 'NoneType')),
                      ('np-int', 'array-ranges',
                       ('raise', 'AssertionError', "types mismatch: <class 'numpy.int8'> != <class 'ceos_alos2.array.Array'>", 'NoneType')),
                      ('np-int', 'array-rpc',
                       ('raise', 'AssertionError', "types mismatch: <class 'numpy.int8'> != <class 'ceos_alos2.array.Array'>", 'NoneType')),
                      ('np-int', 'array-type-code',
                       ('raise', 'AssertionError', "types mismatch: <class 'numpy.int8'> != <class 'ceos_alos2.array.Array'>", 'NoneType')),
                      ('np-int', 'subarray', ('raise', 'AssertionError', "types mismatch: <class 'numpy.int8'> != <class 'equiv.SubArray'>", 'NoneType')),
                      ('np-int', 'int', ('raise', 'AssertionError', "types mismatch: <class 'numpy.int8'> != <class 'int'>", 'NoneType')),
                      ('np-int', 'int-b', ('raise', 'AssertionError', "types mismatch: <class 'numpy.int8'> != <class 'int'>", 'NoneType')),
                      ('np-int', 'float', ('raise', 'AssertionError', "types mismatch: <class 'numpy.int8'> != <class 'float'>", 'NoneType')),
                      ('np-int', 'str', ('raise', 'AssertionError', "types mismatch: <class 'numpy.int8'> != <class 'str'>", 'NoneType')),
                      ('np-int', 'none', ('raise', 'AssertionError', "types mismatch: <class 'numpy.int8'> != <class 'NoneType'>", 'NoneType')),
                      ('np-int', 'dict', ('raise', 'AssertionError', "types mismatch: <class 'numpy.int8'> != <class 'dict'>", 'NoneType')),
                      ('np-int', 'list', ('raise', 'AssertionError', "types mismatch: <class 'numpy.int8'> != <class 'list'>", 'NoneType')),
                      ('np-int', 'ndarray', ('raise', 'AssertionError', "types mismatch: <class 'numpy.int8'> != <class 'numpy.ndarray'>", 'NoneType')),
                      ('np-int', 'ndarray-b', ('raise', 'AssertionError', "types mismatch: <class 'numpy.int8'> != <class 'numpy.ndarray'>", 'NoneType')),
                      ('np-int', 'np-int', ('raise', 'TypeError', 'can only compare Group and Variable and Array objects', 'NoneType')),
                      ('np-int', 'type', ('raise', 'AssertionError', "types mismatch: <class 'numpy.int8'> != <class 'abc.ABCMeta'>", 'NoneType')),
                      ('np-int', 'bool', ('raise', 'AssertionError', "types mismatch: <class 'numpy.int8'> != <class 'bool'>", 'NoneType')),
                      ('type', 'tree:empty',
                       ('raise', 'AssertionError', "types mismatch: <class 'abc.ABCMeta'> != <class 'ceos_alos2.hierarchy.Group'>", 'NoneType')),
                      ('type', 'tree:empty-url',
                       ('raise', 'AssertionError', "types mismatch: <class 'abc.ABCMeta'> != <class 'ceos_alos2.hierarchy.Group'>", 'NoneType')),
                      ('type', 'tree:vars',
                       ('raise', 'AssertionError', "types mismatch: <class 'abc.ABCMeta'> != <class 'ceos_alos2.hierarchy.Group'>", 'NoneType')),
                      ('type', 'tree:vars-b',
                       ('raise', 'AssertionError', "types mismatch: <class 'abc.ABCMeta'> != <class 'ceos_alos2.hierarchy.Group'>", 'NoneType')),
                      ('type', 'tree:one-a',
                       ('raise', 'AssertionError', "types mismatch: <class 'abc.ABCMeta'> != <class 'ceos_alos2.hierarchy.Group'>", 'NoneType')),
                      ('type', 'tree:two',
                       ('raise', 'AssertionError', "types mismatch: <class 'abc.ABCMeta'> != <class 'ceos_alos2.hierarchy.Group'>", 'NoneType')),
                      ('type', 'tree:two-b',
                       ('raise', 'AssertionError', "types mismatch: <class 'abc.ABCMeta'> != <class 'ceos_alos2.hierarchy.Group'>", 'NoneType')),
                      ('type', 'tree:two-c',
                       ('raise', 'AssertionError', "types mismatch: <class 'abc.ABCMeta'> != <class 'ceos_alos2.hierarchy.Group'>", 'NoneType')),
                      ('type', 'tree:arrays',
                       ('raise', 'AssertionError', "types mismatch: <class 'abc.ABCMeta'> != <class 'ceos_alos2.hierarchy.Group'>", 'NoneType')),
                      ('type', 'tree:arrays-b',
                       ('raise', 'AssertionError', "types mismatch: <class 'abc.ABCMeta'> != <class 'ceos_alos2.hierarchy.Group'>", 'NoneType')),
                      ('type', 'tree:sub', ('raise', 'AssertionError', "types mismatch: <class 'abc.ABCMeta'> != <class 'equiv.SubGroup'>", 'NoneType')),
                      ('type', 'tree:sub-b', ('raise', 'AssertionError', "types mismatch: <class 'abc.ABCMeta'> != <class 'equiv.SubGroup'>", 'NoneType')),
                      ('type', 'var',
                       ('raise', 'AssertionError', "types mismatch: <class 'abc.ABCMeta'> != <class 'ceos_alos2.hierarchy.Variable'>", 'NoneType')),
                      ('type', 'var-b',
                       ('raise', 'AssertionError', "types mismatch: <class 'abc.ABCMeta'> != <class 'ceos_alos2.hierarchy.Variable'>", 'NoneType')),
                      ('type', 'var-dims',
                       ('raise', 'AssertionError', "types mismatch: <class 'abc.ABCMeta'> != <class 'ceos_alos2.hierarchy.Variable'>", 'NoneType')),
                      ('type', 'var-attrs',
                       ('raise', 'AssertionError', "types mismatch: <class 'abc.ABCMeta'> != <class 'ceos_alos2.hierarchy.Variable'>", 'NoneType')),
                      ('type', 'var-dtype',
                       ('raise', 'AssertionError', "types mismatch: <class 'abc.ABCMeta'> != <class 'ceos_alos2.hierarchy.Variable'>", 'NoneType')),
                      ('type', 'var-array',
                       ('raise', 'AssertionError', "types mismatch: <class 'abc.ABCMeta'> != <class 'ceos_alos2.hierarchy.Variable'>", 'NoneType')),
                      ('type', 'var-array-b',
                       ('raise', 'AssertionError', "types mismatch: <class 'abc.ABCMeta'> != <class 'ceos_alos2.hierarchy.Variable'>", 'NoneType')),
                      ('type', 'subvar', ('raise', 'AssertionError', "types mismatch: <class 'abc.ABCMeta'> != <class 'equiv.SubVariable'>", 'NoneType')),
                      ('type', 'subvar-b', ('raise', 'AssertionError', "types mismatch: <class 'abc.ABCMeta'> != <class 'equiv.SubVariable'>", 'NoneType')),
                      ('type', 'array', ('raise', 'AssertionError', "types mismatch: <class 'abc.ABCMeta'> != <class 'ceos_alos2.array.Array'>", 'NoneType')),
                      ('type', 'array-dtype',
                       ('raise', 'AssertionError', "types mismatch: <class 'abc.ABCMeta'> != <class 'ceos_alos2.array.Array'>", 'NoneType')),
                      ('type', 'array-url',
                       ('raise', 'AssertionError', "types mismatch: <class 'abc.ABCMeta'> != <class 'ceos_alos2.array.Array'>", 'NoneType')),
                      ('type', 'array-path',
                       ('raise', 'AssertionError', "types mismatch: <class 'abc.ABCMeta'> != <class 'ceos_alos2.array.Array'>", 'NoneType')),
                      ('type', 'array-file',
                       ('raise', 'AssertionError', "types mismatch: <class 'abc.ABCMeta'> != <class 'ceos_alos2.array.Array'>", 'NoneType')),
                      ('type', 'array-ranges',
                       ('raise', 'AssertionError', "types mismatch: <class 'abc.ABCMeta'> != <class 'ceos_alos2.array.Array'>", 'NoneType')),
                      ('type', 'array-rpc',
                       ('raise', 'AssertionError', "types mismatch: <class 'abc.ABCMeta'> != <class 'ceos_alos2.array.Array'>", 'NoneType')),
                      ('type', 'array-type-code',
                       ('raise', 'AssertionError', "types mismatch: <class 'abc.ABCMeta'> != <class 'ceos_alos2.array.Array'>", 'NoneType')),
                      ('type', 'subarray', ('raise', 'AssertionError', "types mismatch: <class 'abc.ABCMeta'> != <class 'equiv.SubArray'>", 'NoneType')),
                      ('type', 'int', ('raise', 'AssertionError', "types mismatch: <class 'abc.ABCMeta'> != <class 'int'>", 'NoneType')),
                      ('type', 'int-b', ('raise', 'AssertionError', "types mismatch: <class 'abc.ABCMeta'> != <class 'int'>", 'NoneType')),
                      ('type', 'float', ('raise', 'AssertionError', "types mismatch: <class 'abc.ABCMeta'> != <class 'float'>", 'NoneType')),
                      ('type', 'str', ('raise', 'AssertionError', "types mismatch: <class 'abc.ABCMeta'> != <class 'str'>", 'NoneType')),
                      ('type', 'none', ('raise', 'AssertionError', "types mismatch: <class 'abc.ABCMeta'> != <class 'NoneType'>", 'NoneType')),
                      ('type', 'dict', ('raise', 'AssertionError', "types mismatch: <class 'abc.ABCMeta'> != <class 'dict'>", 'NoneType')),
                      ('type', 'list', ('raise', 'AssertionError', "types mismatch: <class 'abc.ABCMeta'> != <class 'list'>", 'NoneType')),
                      ('type', 'ndarray', ('raise', 'AssertionError', "types mismatch: <class 'abc.ABCMeta'> != <class 'numpy.ndarray'>", 'NoneType')),
                      ('type', 'ndarray-b', ('raise', 'AssertionError', "types mismatch: <class 'abc.ABCMeta'> != <class 'numpy.ndarray'>", 'NoneType')),
                      ('type', 'np-int', ('raise', 'AssertionError', "types mismatch: <class 'abc.ABCMeta'> != <class 'numpy.int8'>", 'NoneType')),
                      ('type', 'type', ('raise', 'TypeError', 'can only compare Group and Variable and Array objects', 'NoneType')),
                      ('type', 'bool', ('raise', 'AssertionError', "types mismatch: <class 'abc.ABCMeta'> != <class 'bool'>", 'NoneType')),
                      ('bool', 'tree:empty', ('raise', 'AssertionError', "types mismatch: <class 'bool'> != <class 'ceos_alos2.hierarchy.Group'>", 'NoneType')),
                      ('bool', 'tree:empty-url',
                       ('raise', 'AssertionError', "types mismatch: <class 'bool'> != <class 'ceos_alos2.hierarchy.Group'>", 'NoneType')),
                      ('bool', 'tree:vars', ('raise', 'AssertionError', "types mismatch: <class 'bool'> != <class 'ceos_alos2.hierarchy.Group'>", 'NoneType')),
                      ('bool', 'tree:vars-b',
                       ('raise', 'AssertionError', "types mismatch: <class 'bool'> != <class 'ceos_alos2.hierarchy.Group'>", 'NoneType')),
                      ('bool', 'tree:one-a', ('raise', 'AssertionError', "types mismatch: <class 'bool'> != <class 'ceos_alos2.hierarchy.Group'>", 'NoneType')),
                      ('bool', 'tree:two', ('raise', 'AssertionError', "types mismatch: <class 'bool'> != <class 'ceos_alos2.hierarchy.Group'>", 'NoneType')),
                      ('bool', 'tree:two-b', ('raise', 'AssertionError', "types mismatch: <class 'bool'> != <class 'ceos_alos2.hierarchy.Group'>", 'NoneType')),
                      ('bool', 'tree:two-c', ('raise', 'AssertionError', "types mismatch: <class 'bool'> != <class 'ceos_alos2.hierarchy.Group'>", 'NoneType')),
                      ('bool', 'tree:arrays',
                       ('raise', 'AssertionError', "types mismatch: <class 'bool'> != <class 'ceos_alos2.hierarchy.Group'>", 'NoneType')),
                      ('bool', 'tree:arrays-b',
                       ('raise', 'AssertionError', "types mismatch: <class 'bool'> != <class 'ceos_alos2.hierarchy.Group'>", 'NoneType')),
                      ('bool', 'tree:sub', ('raise', 'AssertionError', "types mismatch: <class 'bool'> != <class 'equiv.SubGroup'>", 'NoneType')),
                      ('bool', 'tree:sub-b', ('raise', 'AssertionError', "types mismatch: <class 'bool'> != <class 'equiv.SubGroup'>", 'NoneType')),
                      ('bool', 'var', ('raise', 'AssertionError', "types mismatch: <class 'bool'> != <class 'ceos_alos2.hierarchy.Variable'>", 'NoneType')),
                      ('bool', 'var-b', ('raise', 'AssertionError', "types mismatch: <class 'bool'> != <class 'ceos_alos2.hierarchy.Variable'>", 'NoneType')),
                      ('bool', 'var-dims',
                       ('raise', 'AssertionError', "types mismatch: <class 'bool'> != <class 'ceos_alos2.hierarchy.Variable'>", 'NoneType')),
                      ('bool', 'var-attrs',
                       ('raise', 'AssertionError', "types mismatch: <class 'bool'> != <class 'ceos_alos2.hierarchy.Variable'>", 'NoneType')),
                      ('bool', 'var-dtype',
                       ('raise', 'AssertionError', "types mismatch: <class 'bool'> != <class 'ceos_alos2.hierarchy.Variable'>", 'NoneType')),
                      ('bool', 'var-array',
                       ('raise', 'AssertionError', "types mismatch: <class 'bool'> != <class 'ceos_alos2.hierarchy.Variable'>", 'NoneType')),
                      ('bool', 'var-array-b',
                       ('raise', 'AssertionError', "types mismatch: <class 'bool'> != <class 'ceos_alos2.hierarchy.Variable'>", 'NoneType')),
                      ('bool', 'subvar', ('raise', 'AssertionError', "types mismatch: <class 'bool'> != <class 'equiv.SubVariable'>", 'NoneType')),
                      ('bool', 'subvar-b', ('raise', 'AssertionError', "types mismatch: <class 'bool'> != <class 'equiv.SubVariable'>", 'NoneType')),
                      ('bool', 'array', ('raise', 'AssertionError', "types mismatch: <class 'bool'> != <class 'ceos_alos2.array.Array'>", 'NoneType')),
                      ('bool', 'array-dtype', ('raise', 'AssertionError', "types mismatch: <class 'bool'> != <class 'ceos_alos2.array.Array'>", 'NoneType')),
                      ('bool', 'array-url', ('raise', 'AssertionError', "types mismatch: <class 'bool'> != <class 'ceos_alos2.array.Array'>", 'NoneType')),
                      ('bool', 'array-path', ('raise', 'AssertionError', "types mismatch: <class 'bool'> != <class 'ceos_alos2.array.Array'>", 'NoneType')),
                      ('bool', 'array-file', ('raise', 'AssertionError', "types mismatch: <class 'bool'> != <class 'ceos_alos2.array.Array'>", 'NoneType')),
                      ('bool', 'array-ranges', ('raise', 'AssertionError', "types mismatch: <class 'bool'> != <class 'ceos_alos2.array.Array'>", 'NoneType')),
                      ('bool', 'array-rpc', ('raise', 'AssertionError', "types mismatch: <class 'bool'> != <class 'ceos_alos2.array.Array'>", 'NoneType')),
                      ('bool', 'array-type-code',
                       ('raise', 'AssertionError', "types mismatch: <class 'bool'> != <class 'ceos_alos2.array.Array'>", 'NoneType')),
                      ('bool', 'subarray', ('raise', 'AssertionError', "types mismatch: <class 'bool'> != <class 'equiv.SubArray'>", 'NoneType')),
                      ('bool', 'int', ('raise', 'AssertionError', "types mismatch: <class 'bool'> != <class 'int'>", 'NoneType')),
                      ('bool', 'int-b', ('raise', 'AssertionError', "types mismatch: <class 'bool'> != <class 'int'>", 'NoneType')),
                      ('bool', 'float', ('raise', 'AssertionError', "types mismatch: <class 'bool'> != <class 'float'>", 'NoneType')),
                      ('bool', 'str', ('raise', 'AssertionError', "types mismatch: <class 'bool'> != <class 'str'>", 'NoneType')),
                      ('bool', 'none', ('raise', 'AssertionError', "types mismatch: <class 'bool'> != <class 'NoneType'>", 'NoneType')),
                      ('bool', 'dict', ('raise', 'AssertionError', "types mismatch: <class 'bool'> != <class 'dict'>", 'NoneType')),
                      ('bool', 'list', ('raise', 'AssertionError', "types mismatch: <class 'bool'> != <class 'list'>", 'NoneType')),
                      ('bool', 'ndarray', ('raise', 'AssertionError', "types mismatch: <class 'bool'> != <class 'numpy.ndarray'>", 'NoneType')),
                      ('bool', 'ndarray-b', ('raise', 'AssertionError', "types mismatch: <class 'bool'> != <class 'numpy.ndarray'>", 'NoneType')),
                      ('bool', 'np-int', ('raise', 'AssertionError', "types mismatch: <class 'bool'> != <class 'numpy.int8'>", 'NoneType')),
                      ('bool', 'type', ('raise', 'AssertionError', "types mismatch: <class 'bool'> != <class 'abc.ABCMeta'>", 'NoneType')),
                      ('bool', 'bool', ('raise', 'TypeError', 'can only compare Group and Variable and Array objects', 'NoneType')),
                      ('dispatch', 'tree:sub', 'tree:sub-b', ('raise', 'AssertionError', '<diff_tree>', 'NoneType'), ['diff_tree']),
                      ('dispatch', 'subvar', 'subvar-b', ('raise', 'AssertionError', '<diff_variable>', 'NoneType'), ['diff_variable']),
                      ('dispatch', 'subarray', 'subarray', ('ok', 'NoneType', 'None'), []),
                      ('dispatch', 'array', 'array-url', ('raise', 'AssertionError', '<diff_array>', 'NoneType'), ['diff_array']),
                      ('dispatch', 'var', 'var-b', ('raise', 'AssertionError', '<diff_variable>', 'NoneType'), ['diff_variable']),
                      ('dispatch', 'tree:empty', 'tree:empty-url', ('raise', 'AssertionError', '<diff_tree>', 'NoneType'), ['diff_tree']),
                      ('dispatch', 'tree:vars', 'tree:vars', ('ok', 'NoneType', 'None'), []),
                      ('dispatch', 'int', 'int-b', ('raise', 'TypeError', 'can only compare Group and Variable and Array objects', 'NoneType'), [])],
 'dict_overlap': [('{}', '{}', ('ok', 'tuple', '([], [], [])')), ('{}', "{'a': 1}", ('ok', 'tuple', "(['a'], [], [])")),
                  ('{}', "{'b': 1}", ('ok', 'tuple', "(['b'], [], [])")), ('{}', "{'a': 2, 'b': 1}", ('ok', 'tuple', "(['a', 'b'], [], [])")),
                  ('{}', "{'b': 1, 'a': 2}", ('ok', 'tuple', "(['b', 'a'], [], [])")),
                  ('{}', "{'c': None, 'a': 0, 'd': []}", ('ok', 'tuple', "(['c', 'a', 'd'], [], [])")),
                  ('{}', "{'d': 1, 'c': 2, 'b': 3, 'a': 4, 'e': 5}", ('ok', 'tuple', "(['d', 'c', 'b', 'a', 'e'], [], [])")),
                  ('{}', "{1: 'x', '1': 'y', 1.5: 'z', None: 0, (1, 2): 3}", ('ok', 'tuple', "([1, '1', 1.5, None, (1, 2)], [], [])")),
                  ('{}', '{True: 1, 0: 2}', ('ok', 'tuple', '([True, 0], [], [])')), ('{}', "{1: 'int', 0.0: 'float'}", ('ok', 'tuple', '([1, 0.0], [], [])')),
                  ('{}', "{'missing_left': 1, 'common': 2, 'missing_right': 3}", ('ok', 'tuple', "(['missing_left', 'common', 'missing_right'], [], [])")),
                  ('{}', "{inf: 1, frozenset(): 2, '': 3}", ('ok', 'tuple', "([inf, frozenset(), ''], [], [])")),
                  ('{}', "OrderedDict({'z': 1, 'a': 2})", ('ok', 'tuple', "(['z', 'a'], [], [])")),
                  ('{}', "defaultdict(<class 'list'>, {'a': [], 'q': []})", ('ok', 'tuple', "(['a', 'q'], [], [])")),
                  ('{}', "Counter({'a': 2, 'b': 1, 'c': 1})", ('ok', 'tuple', "(['a', 'b', 'c'], [], [])")),
                  ("{'a': 1}", '{}', ('ok', 'tuple', "([], [], ['a'])")), ("{'a': 1}", "{'a': 1}", ('ok', 'tuple', "([], ['a'], [])")),
                  ("{'a': 1}", "{'b': 1}", ('ok', 'tuple', "(['b'], [], ['a'])")), ("{'a': 1}", "{'a': 2, 'b': 1}", ('ok', 'tuple', "(['b'], ['a'], [])")),
                  ("{'a': 1}", "{'b': 1, 'a': 2}", ('ok', 'tuple', "(['b'], ['a'], [])")),
                  ("{'a': 1}", "{'c': None, 'a': 0, 'd': []}", ('ok', 'tuple', "(['c', 'd'], ['a'], [])")),
                  ("{'a': 1}", "{'d': 1, 'c': 2, 'b': 3, 'a': 4, 'e': 5}", ('ok', 'tuple', "(['d', 'c', 'b', 'e'], ['a'], [])")),
                  ("{'a': 1}", "{1: 'x', '1': 'y', 1.5: 'z', None: 0, (1, 2): 3}", ('ok', 'tuple', "([1, '1', 1.5, None, (1, 2)], [], ['a'])")),
                  ("{'a': 1}", '{True: 1, 0: 2}', ('ok', 'tuple', "([True, 0], [], ['a'])")),
                  ("{'a': 1}", "{1: 'int', 0.0: 'float'}", ('ok', 'tuple', "([1, 0.0], [], ['a'])")),
                  ("{'a': 1}", "{'missing_left': 1, 'common': 2, 'missing_right': 3}",
                   ('ok', 'tuple', "(['missing_left', 'common', 'missing_right'], [], ['a'])")),
                  ("{'a': 1}", "{inf: 1, frozenset(): 2, '': 3}", ('ok', 'tuple', "([inf, frozenset(), ''], [], ['a'])")),
                  ("{'a': 1}", "OrderedDict({'z': 1, 'a': 2})", ('ok', 'tuple', "(['z'], ['a'], [])")),
                  ("{'a': 1}", "defaultdict(<class 'list'>, {'a': [], 'q': []})", ('ok', 'tuple', "(['q'], ['a'], [])")),
                  ("{'a': 1}", "Counter({'a': 2, 'b': 1, 'c': 1})", ('ok', 'tuple', "(['b', 'c'], ['a'], [])")),
                  ("{'b': 1}", '{}', ('ok', 'tuple', "([], [], ['b'])")), ("{'b': 1}", "{'a': 1}", ('ok', 'tuple', "(['a'], [], ['b'])")),
                  ("{'b': 1}", "{'b': 1}", ('ok', 'tuple', "([], ['b'], [])")), ("{'b': 1}", "{'a': 2, 'b': 1}", ('ok', 'tuple', "(['a'], ['b'], [])")),
                  ("{'b': 1}", "{'b': 1, 'a': 2}", ('ok', 'tuple', "(['a'], ['b'], [])")),
                  ("{'b': 1}", "{'c': None, 'a': 0, 'd': []}", ('ok', 'tuple', "(['c', 'a', 'd'], [], ['b'])")),
                  ("{'b': 1}", "{'d': 1, 'c': 2, 'b': 3, 'a': 4, 'e': 5}", ('ok', 'tuple', "(['d', 'c', 'a', 'e'], ['b'], [])")),
                  ("{'b': 1}", "{1: 'x', '1': 'y', 1.5: 'z', None: 0, (1, 2): 3}", ('ok', 'tuple', "([1, '1', 1.5, None, (1, 2)], [], ['b'])")),
                  ("{'b': 1}", '{True: 1, 0: 2}', ('ok', 'tuple', "([True, 0], [], ['b'])")),
                  ("{'b': 1}", "{1: 'int', 0.0: 'float'}", ('ok', 'tuple', "([1, 0.0], [], ['b'])")),
                  ("{'b': 1}", "{'missing_left': 1, 'common': 2, 'missing_right': 3}",
                   ('ok', 'tuple', "(['missing_left', 'common', 'missing_right'], [], ['b'])")),
                  ("{'b': 1}", "{inf: 1, frozenset(): 2, '': 3}", ('ok', 'tuple', "([inf, frozenset(), ''], [], ['b'])")),
                  ("{'b': 1}", "OrderedDict({'z': 1, 'a': 2})", ('ok', 'tuple', "(['z', 'a'], [], ['b'])")),
                  ("{'b': 1}", "defaultdict(<class 'list'>, {'a': [], 'q': []})", ('ok', 'tuple', "(['a', 'q'], [], ['b'])")),
                  ("{'b': 1}", "Counter({'a': 2, 'b': 1, 'c': 1})", ('ok', 'tuple', "(['a', 'c'], ['b'], [])")),
                  ("{'a': 2, 'b': 1}", '{}', ('ok', 'tuple', "([], [], ['a', 'b'])")), ("{'a': 2, 'b': 1}", "{'a': 1}", ('ok', 'tuple', "([], ['a'], ['b'])")),
                  ("{'a': 2, 'b': 1}", "{'b': 1}", ('ok', 'tuple', "([], ['b'], ['a'])")),
                  ("{'a': 2, 'b': 1}", "{'a': 2, 'b': 1}", ('ok', 'tuple', "([], ['a', 'b'], [])")),
                  ("{'a': 2, 'b': 1}", "{'b': 1, 'a': 2}", ('ok', 'tuple', "([], ['a', 'b'], [])")),
                  ("{'a': 2, 'b': 1}", "{'c': None, 'a': 0, 'd': []}", ('ok', 'tuple', "(['c', 'd'], ['a'], ['b'])")),
                  ("{'a': 2, 'b': 1}", "{'d': 1, 'c': 2, 'b': 3, 'a': 4, 'e': 5}", ('ok', 'tuple', "(['d', 'c', 'e'], ['a', 'b'], [])")),
                  ("{'a': 2, 'b': 1}", "{1: 'x', '1': 'y', 1.5: 'z', None: 0, (1, 2): 3}", ('ok', 'tuple', "([1, '1', 1.5, None, (1, 2)], [], ['a', 'b'])")),
                  ("{'a': 2, 'b': 1}", '{True: 1, 0: 2}', ('ok', 'tuple', "([True, 0], [], ['a', 'b'])")),
                  ("{'a': 2, 'b': 1}", "{1: 'int', 0.0: 'float'}", ('ok', 'tuple', "([1, 0.0], [], ['a', 'b'])")),
                  ("{'a': 2, 'b': 1}", "{'missing_left': 1, 'common': 2, 'missing_right': 3}",
                   ('ok', 'tuple', "(['missing_left', 'common', 'missing_right'], [], ['a', 'b'])")),
                  ("{'a': 2, 'b': 1}", "{inf: 1, frozenset(): 2, '': 3}", ('ok', 'tuple', "([inf, frozenset(), ''], [], ['a', 'b'])")),
                  ("{'a': 2, 'b': 1}", "OrderedDict({'z': 1, 'a': 2})", ('ok', 'tuple', "(['z'], ['a'], ['b'])")),
                  ("{'a': 2, 'b': 1}", "defaultdict(<class 'list'>, {'a': [], 'q': []})", ('ok', 'tuple', "(['q'], ['a'], ['b'])")),
                  ("{'a': 2, 'b': 1}", "Counter({'a': 2, 'b': 1, 'c': 1})", ('ok', 'tuple', "(['c'], ['a', 'b'], [])")),
                  ("{'b': 1, 'a': 2}", '{}', ('ok', 'tuple', "([], [], ['b', 'a'])")), ("{'b': 1, 'a': 2}", "{'a': 1}", ('ok', 'tuple', "([], ['a'], ['b'])")),
                  ("{'b': 1, 'a': 2}", "{'b': 1}", ('ok', 'tuple', "([], ['b'], ['a'])")),
                  ("{'b': 1, 'a': 2}", "{'a': 2, 'b': 1}", ('ok', 'tuple', "([], ['b', 'a'], [])")),
                  ("{'b': 1, 'a': 2}", "{'b': 1, 'a': 2}", ('ok', 'tuple', "([], ['b', 'a'], [])")),
                  ("{'b': 1, 'a': 2}", "{'c': None, 'a': 0, 'd': []}", ('ok', 'tuple', "(['c', 'd'], ['a'], ['b'])")),
                  ("{'b': 1, 'a': 2}", "{'d': 1, 'c': 2, 'b': 3, 'a': 4, 'e': 5}", ('ok', 'tuple', "(['d', 'c', 'e'], ['b', 'a'], [])")),
                  ("{'b': 1, 'a': 2}", "{1: 'x', '1': 'y', 1.5: 'z', None: 0, (1, 2): 3}", ('ok', 'tuple', "([1, '1', 1.5, None, (1, 2)], [], ['b', 'a'])")),
                  ("{'b': 1, 'a': 2}", '{True: 1, 0: 2}', ('ok', 'tuple', "([True, 0], [], ['b', 'a'])")),
                  ("{'b': 1, 'a': 2}", "{1: 'int', 0.0: 'float'}", ('ok', 'tuple', "([1, 0.0], [], ['b', 'a'])")),
                  ("{'b': 1, 'a': 2}", "{'missing_left': 1, 'common': 2, 'missing_right': 3}",
                   ('ok', 'tuple', "(['missing_left', 'common', 'missing_right'], [], ['b', 'a'])")),
                  ("{'b': 1, 'a': 2}", "{inf: 1, frozenset(): 2, '': 3}", ('ok', 'tuple', "([inf, frozenset(), ''], [], ['b', 'a'])")),
                  ("{'b': 1, 'a': 2}", "OrderedDict({'z': 1, 'a': 2})", ('ok', 'tuple', "(['z'], ['a'], ['b'])")),
                  ("{'b': 1, 'a': 2}", "defaultdict(<class 'list'>, {'a': [], 'q': []})", ('ok', 'tuple', "(['q'], ['a'], ['b'])")),
                  ("{'b': 1, 'a': 2}", "Counter({'a': 2, 'b': 1, 'c': 1})", ('ok', 'tuple', "(['c'], ['b', 'a'], [])")),
                  ("{'c': None, 'a': 0, 'd': []}", '{}', ('ok', 'tuple', "([], [], ['c', 'a', 'd'])")),
                  ("{'c': None, 'a': 0, 'd': []}", "{'a': 1}", ('ok', 'tuple', "([], ['a'], ['c', 'd'])")),
                  ("{'c': None, 'a': 0, 'd': []}", "{'b': 1}", ('ok', 'tuple', "(['b'], [], ['c', 'a', 'd'])")),
                  ("{'c': None, 'a': 0, 'd': []}", "{'a': 2, 'b': 1}", ('ok', 'tuple', "(['b'], ['a'], ['c', 'd'])")),
                  ("{'c': None, 'a': 0, 'd': []}", "{'b': 1, 'a': 2}", ('ok', 'tuple', "(['b'], ['a'], ['c', 'd'])")),
                  ("{'c': None, 'a': 0, 'd': []}", "{'c': None, 'a': 0, 'd': []}", ('ok', 'tuple', "([], ['c', 'a', 'd'], [])")),
                  ("{'c': None, 'a': 0, 'd': []}", "{'d': 1, 'c': 2, 'b': 3, 'a': 4, 'e': 5}", ('ok', 'tuple', "(['b', 'e'], ['c', 'a', 'd'], [])")),
                  ("{'c': None, 'a': 0, 'd': []}", "{1: 'x', '1': 'y', 1.5: 'z', None: 0, (1, 2): 3}",
                   ('ok', 'tuple', "([1, '1', 1.5, None, (1, 2)], [], ['c', 'a', 'd'])")),
                  ("{'c': None, 'a': 0, 'd': []}", '{True: 1, 0: 2}', ('ok', 'tuple', "([True, 0], [], ['c', 'a', 'd'])")),
                  ("{'c': None, 'a': 0, 'd': []}", "{1: 'int', 0.0: 'float'}", ('ok', 'tuple', "([1, 0.0], [], ['c', 'a', 'd'])")),
                  ("{'c': None, 'a': 0, 'd': []}", "{'missing_left': 1, 'common': 2, 'missing_right': 3}",
                   ('ok', 'tuple', "(['missing_left', 'common', 'missing_right'], [], ['c', 'a', 'd'])")),
                  ("{'c': None, 'a': 0, 'd': []}", "{inf: 1, frozenset(): 2, '': 3}", ('ok', 'tuple', "([inf, frozenset(), ''], [], ['c', 'a', 'd'])")),
                  ("{'c': None, 'a': 0, 'd': []}", "OrderedDict({'z': 1, 'a': 2})", ('ok', 'tuple', "(['z'], ['a'], ['c', 'd'])")),
                  ("{'c': None, 'a': 0, 'd': []}", "defaultdict(<class 'list'>, {'a': [], 'q': []})", ('ok', 'tuple', "(['q'], ['a'], ['c', 'd'])")),
                  ("{'c': None, 'a': 0, 'd': []}", "Counter({'a': 2, 'b': 1, 'c': 1})", ('ok', 'tuple', "(['b'], ['c', 'a'], ['d'])")),
                  ("{'d': 1, 'c': 2, 'b': 3, 'a': 4, 'e': 5}", '{}', ('ok', 'tuple', "([], [], ['d', 'c', 'b', 'a', 'e'])")),
                  ("{'d': 1, 'c': 2, 'b': 3, 'a': 4, 'e': 5}", "{'a': 1}", ('ok', 'tuple', "([], ['a'], ['d', 'c', 'b', 'e'])")),
                  ("{'d': 1, 'c': 2, 'b': 3, 'a': 4, 'e': 5}", "{'b': 1}", ('ok', 'tuple', "([], ['b'], ['d', 'c', 'a', 'e'])")),
                  ("{'d': 1, 'c': 2, 'b': 3, 'a': 4, 'e': 5}", "{'a': 2, 'b': 1}", ('ok', 'tuple', "([], ['b', 'a'], ['d', 'c', 'e'])")),
                  ("{'d': 1, 'c': 2, 'b': 3, 'a': 4, 'e': 5}", "{'b': 1, 'a': 2}", ('ok', 'tuple', "([], ['b', 'a'], ['d', 'c', 'e'])")),
                  ("{'d': 1, 'c': 2, 'b': 3, 'a': 4, 'e': 5}", "{'c': None, 'a': 0, 'd': []}", ('ok', 'tuple', "([], ['d', 'c', 'a'], ['b', 'e'])")),
                  ("{'d': 1, 'c': 2, 'b': 3, 'a': 4, 'e': 5}", "{'d': 1, 'c': 2, 'b': 3, 'a': 4, 'e': 5}",
                   ('ok', 'tuple', "([], ['d', 'c', 'b', 'a', 'e'], [])")),
                  ("{'d': 1, 'c': 2, 'b': 3, 'a': 4, 'e': 5}", "{1: 'x', '1': 'y', 1.5: 'z', None: 0, (1, 2): 3}",
                   ('ok', 'tuple', "([1, '1', 1.5, None, (1, 2)], [], ['d', 'c', 'b', 'a', 'e'])")),
                  ("{'d': 1, 'c': 2, 'b': 3, 'a': 4, 'e': 5}", '{True: 1, 0: 2}', ('ok', 'tuple', "([True, 0], [], ['d', 'c', 'b', 'a', 'e'])")),
                  ("{'d': 1, 'c': 2, 'b': 3, 'a': 4, 'e': 5}", "{1: 'int', 0.0: 'float'}", ('ok', 'tuple', "([1, 0.0], [], ['d', 'c', 'b', 'a', 'e'])")),
                  ("{'d': 1, 'c': 2, 'b': 3, 'a': 4, 'e': 5}", "{'missing_left': 1, 'common': 2, 'missing_right': 3}",
                   ('ok', 'tuple', "(['missing_left', 'common', 'missing_right'], [], ['d', 'c', 'b', 'a', 'e'])")),
                  ("{'d': 1, 'c': 2, 'b': 3, 'a': 4, 'e': 5}", "{inf: 1, frozenset(): 2, '': 3}",
                   ('ok', 'tuple', "([inf, frozenset(), ''], [], ['d', 'c', 'b', 'a', 'e'])")),
                  ("{'d': 1, 'c': 2, 'b': 3, 'a': 4, 'e': 5}", "OrderedDict({'z': 1, 'a': 2})", ('ok', 'tuple', "(['z'], ['a'], ['d', 'c', 'b', 'e'])")),
                  ("{'d': 1, 'c': 2, 'b': 3, 'a': 4, 'e': 5}", "defaultdict(<class 'list'>, {'a': [], 'q': []})",
                   ('ok', 'tuple', "(['q'], ['a'], ['d', 'c', 'b', 'e'])")),
                  ("{'d': 1, 'c': 2, 'b': 3, 'a': 4, 'e': 5}", "Counter({'a': 2, 'b': 1, 'c': 1})", ('ok', 'tuple', "([], ['c', 'b', 'a'], ['d', 'e'])")),
                  ("{1: 'x', '1': 'y', 1.5: 'z', None: 0, (1, 2): 3}", '{}', ('ok', 'tuple', "([], [], [1, '1', 1.5, None, (1, 2)])")),
                  ("{1: 'x', '1': 'y', 1.5: 'z', None: 0, (1, 2): 3}", "{'a': 1}", ('ok', 'tuple', "(['a'], [], [1, '1', 1.5, None, (1, 2)])")),
                  ("{1: 'x', '1': 'y', 1.5: 'z', None: 0, (1, 2): 3}", "{'b': 1}", ('ok', 'tuple', "(['b'], [], [1, '1', 1.5, None, (1, 2)])")),
                  ("{1: 'x', '1': 'y', 1.5: 'z', None: 0, (1, 2): 3}", "{'a': 2, 'b': 1}", ('ok', 'tuple', "(['a', 'b'], [], [1, '1', 1.5, None, (1, 2)])")),
                  ("{1: 'x', '1': 'y', 1.5: 'z', None: 0, (1, 2): 3}", "{'b': 1, 'a': 2}", ('ok', 'tuple', "(['b', 'a'], [], [1, '1', 1.5, None, (1, 2)])")),
                  ("{1: 'x', '1': 'y', 1.5: 'z', None: 0, (1, 2): 3}", "{'c': None, 'a': 0, 'd': []}",
                   ('ok', 'tuple', "(['c', 'a', 'd'], [], [1, '1', 1.5, None, (1, 2)])")),
                  ("{1: 'x', '1': 'y', 1.5: 'z', None: 0, (1, 2): 3}", "{'d': 1, 'c': 2, 'b': 3, 'a': 4, 'e': 5}",
                   ('ok', 'tuple', "(['d', 'c', 'b', 'a', 'e'], [], [1, '1', 1.5, None, (1, 2)])")),
                  ("{1: 'x', '1': 'y', 1.5: 'z', None: 0, (1, 2): 3}", "{1: 'x', '1': 'y', 1.5: 'z', None: 0, (1, 2): 3}",
                   ('ok', 'tuple', "([], [1, '1', 1.5, None, (1, 2)], [])")),
                  ("{1: 'x', '1': 'y', 1.5: 'z', None: 0, (1, 2): 3}", '{True: 1, 0: 2}', ('ok', 'tuple', "([0], [1], ['1', 1.5, None, (1, 2)])")),
                  ("{1: 'x', '1': 'y', 1.5: 'z', None: 0, (1, 2): 3}", "{1: 'int', 0.0: 'float'}", ('ok', 'tuple', "([0.0], [1], ['1', 1.5, None, (1, 2)])")),
                  ("{1: 'x', '1': 'y', 1.5: 'z', None: 0, (1, 2): 3}", "{'missing_left': 1, 'common': 2, 'missing_right': 3}",
                   ('ok', 'tuple', "(['missing_left', 'common', 'missing_right'], [], [1, '1', 1.5, None, (1, 2)])")),
                  ("{1: 'x', '1': 'y', 1.5: 'z', None: 0, (1, 2): 3}", "{inf: 1, frozenset(): 2, '': 3}",
                   ('ok', 'tuple', "([inf, frozenset(), ''], [], [1, '1', 1.5, None, (1, 2)])")),
                  ("{1: 'x', '1': 'y', 1.5: 'z', None: 0, (1, 2): 3}", "OrderedDict({'z': 1, 'a': 2})",
                   ('ok', 'tuple', "(['z', 'a'], [], [1, '1', 1.5, None, (1, 2)])")),
                  ("{1: 'x', '1': 'y', 1.5: 'z', None: 0, (1, 2): 3}", "defaultdict(<class 'list'>, {'a': [], 'q': []})",
                   ('ok', 'tuple', "(['a', 'q'], [], [1, '1', 1.5, None, (1, 2)])")),
                  ("{1: 'x', '1': 'y', 1.5: 'z', None: 0, (1, 2): 3}", "Counter({'a': 2, 'b': 1, 'c': 1})",
                   ('ok', 'tuple', "(['a', 'b', 'c'], [], [1, '1', 1.5, None, (1, 2)])")),
                  ('{True: 1, 0: 2}', '{}', ('ok', 'tuple', '([], [], [True, 0])')), ('{True: 1, 0: 2}', "{'a': 1}", ('ok', 'tuple', "(['a'], [], [True, 0])")),
                  ('{True: 1, 0: 2}', "{'b': 1}", ('ok', 'tuple', "(['b'], [], [True, 0])")),
                  ('{True: 1, 0: 2}', "{'a': 2, 'b': 1}", ('ok', 'tuple', "(['a', 'b'], [], [True, 0])")),
                  ('{True: 1, 0: 2}', "{'b': 1, 'a': 2}", ('ok', 'tuple', "(['b', 'a'], [], [True, 0])")),
                  ('{True: 1, 0: 2}', "{'c': None, 'a': 0, 'd': []}", ('ok', 'tuple', "(['c', 'a', 'd'], [], [True, 0])")),
                  ('{True: 1, 0: 2}', "{'d': 1, 'c': 2, 'b': 3, 'a': 4, 'e': 5}", ('ok', 'tuple', "(['d', 'c', 'b', 'a', 'e'], [], [True, 0])")),
                  ('{True: 1, 0: 2}', "{1: 'x', '1': 'y', 1.5: 'z', None: 0, (1, 2): 3}", ('ok', 'tuple', "(['1', 1.5, None, (1, 2)], [True], [0])")),
                  ('{True: 1, 0: 2}', '{True: 1, 0: 2}', ('ok', 'tuple', '([], [True, 0], [])')),
                  ('{True: 1, 0: 2}', "{1: 'int', 0.0: 'float'}", ('ok', 'tuple', '([], [True, 0], [])')),
                  ('{True: 1, 0: 2}', "{'missing_left': 1, 'common': 2, 'missing_right': 3}",
                   ('ok', 'tuple', "(['missing_left', 'common', 'missing_right'], [], [True, 0])")),
                  ('{True: 1, 0: 2}', "{inf: 1, frozenset(): 2, '': 3}", ('ok', 'tuple', "([inf, frozenset(), ''], [], [True, 0])")),
                  ('{True: 1, 0: 2}', "OrderedDict({'z': 1, 'a': 2})", ('ok', 'tuple', "(['z', 'a'], [], [True, 0])")),
                  ('{True: 1, 0: 2}', "defaultdict(<class 'list'>, {'a': [], 'q': []})", ('ok', 'tuple', "(['a', 'q'], [], [True, 0])")),
                  ('{True: 1, 0: 2}', "Counter({'a': 2, 'b': 1, 'c': 1})", ('ok', 'tuple', "(['a', 'b', 'c'], [], [True, 0])")),
                  ("{1: 'int', 0.0: 'float'}", '{}', ('ok', 'tuple', '([], [], [1, 0.0])')),
                  ("{1: 'int', 0.0: 'float'}", "{'a': 1}", ('ok', 'tuple', "(['a'], [], [1, 0.0])")),
                  ("{1: 'int', 0.0: 'float'}", "{'b': 1}", ('ok', 'tuple', "(['b'], [], [1, 0.0])")),
                  ("{1: 'int', 0.0: 'float'}", "{'a': 2, 'b': 1}", ('ok', 'tuple', "(['a', 'b'], [], [1, 0.0])")),
                  ("{1: 'int', 0.0: 'float'}", "{'b': 1, 'a': 2}", ('ok', 'tuple', "(['b', 'a'], [], [1, 0.0])")),
                  ("{1: 'int', 0.0: 'float'}", "{'c': None, 'a': 0, 'd': []}", ('ok', 'tuple', "(['c', 'a', 'd'], [], [1, 0.0])")),
                  ("{1: 'int', 0.0: 'float'}", "{'d': 1, 'c': 2, 'b': 3, 'a': 4, 'e': 5}", ('ok', 'tuple', "(['d', 'c', 'b', 'a', 'e'], [], [1, 0.0])")),
                  ("{1: 'int', 0.0: 'float'}", "{1: 'x', '1': 'y', 1.5: 'z', None: 0, (1, 2): 3}", ('ok', 'tuple', "(['1', 1.5, None, (1, 2)], [1], [0.0])")),
                  ("{1: 'int', 0.0: 'float'}", '{True: 1, 0: 2}', ('ok', 'tuple', '([], [1, 0.0], [])')),
                  ("{1: 'int', 0.0: 'float'}", "{1: 'int', 0.0: 'float'}", ('ok', 'tuple', '([], [1, 0.0], [])')),
                  ("{1: 'int', 0.0: 'float'}", "{'missing_left': 1, 'common': 2, 'missing_right': 3}",
                   ('ok', 'tuple', "(['missing_left', 'common', 'missing_right'], [], [1, 0.0])")),
                  ("{1: 'int', 0.0: 'float'}", "{inf: 1, frozenset(): 2, '': 3}", ('ok', 'tuple', "([inf, frozenset(), ''], [], [1, 0.0])")),
                  ("{1: 'int', 0.0: 'float'}", "OrderedDict({'z': 1, 'a': 2})", ('ok', 'tuple', "(['z', 'a'], [], [1, 0.0])")),
                  ("{1: 'int', 0.0: 'float'}", "defaultdict(<class 'list'>, {'a': [], 'q': []})", ('ok', 'tuple', "(['a', 'q'], [], [1, 0.0])")),
                  ("{1: 'int', 0.0: 'float'}", "Counter({'a': 2, 'b': 1, 'c': 1})", ('ok', 'tuple', "(['a', 'b', 'c'], [], [1, 0.0])")),
                  ("{'missing_left': 1, 'common': 2, 'missing_right': 3}", '{}', ('ok', 'tuple', "([], [], ['missing_left', 'common', 'missing_right'])")),
                  ("{'missing_left': 1, 'common': 2, 'missing_right': 3}", "{'a': 1}",
                   ('ok', 'tuple', "(['a'], [], ['missing_left', 'common', 'missing_right'])")),
                  ("{'missing_left': 1, 'common': 2, 'missing_right': 3}", "{'b': 1}",
                   ('ok', 'tuple', "(['b'], [], ['missing_left', 'common', 'missing_right'])")),
                  ("{'missing_left': 1, 'common': 2, 'missing_right': 3}", "{'a': 2, 'b': 1}",
                   ('ok', 'tuple', "(['a', 'b'], [], ['missing_left', 'common', 'missing_right'])")),
                  ("{'missing_left': 1, 'common': 2, 'missing_right': 3}", "{'b': 1, 'a': 2}",
                   ('ok', 'tuple', "(['b', 'a'], [], ['missing_left', 'common', 'missing_right'])")),
                  ("{'missing_left': 1, 'common': 2, 'missing_right': 3}", "{'c': None, 'a': 0, 'd': []}",
                   ('ok', 'tuple', "(['c', 'a', 'd'], [], ['missing_left', 'common', 'missing_right'])")),
                  ("{'missing_left': 1, 'common': 2, 'missing_right': 3}", "{'d': 1, 'c': 2, 'b': 3, 'a': 4, 'e': 5}",
                   ('ok', 'tuple', "(['d', 'c', 'b', 'a', 'e'], [], ['missing_left', 'common', 'missing_right'])")),
                  ("{'missing_left': 1, 'common': 2, 'missing_right': 3}", "{1: 'x', '1': 'y', 1.5: 'z', None: 0, (1, 2): 3}",
                   ('ok', 'tuple', "([1, '1', 1.5, None, (1, 2)], [], ['missing_left', 'common', 'missing_right'])")),
                  ("{'missing_left': 1, 'common': 2, 'missing_right': 3}", '{True: 1, 0: 2}',
                   ('ok', 'tuple', "([True, 0], [], ['missing_left', 'common', 'missing_right'])")),
                  ("{'missing_left': 1, 'common': 2, 'missing_right': 3}", "{1: 'int', 0.0: 'float'}",
                   ('ok', 'tuple', "([1, 0.0], [], ['missing_left', 'common', 'missing_right'])")),
                  ("{'missing_left': 1, 'common': 2, 'missing_right': 3}", "{'missing_left': 1, 'common': 2, 'missing_right': 3}",
                   ('ok', 'tuple', "([], ['missing_left', 'common', 'missing_right'], [])")),
                  ("{'missing_left': 1, 'common': 2, 'missing_right': 3}", "{inf: 1, frozenset(): 2, '': 3}",
                   ('ok', 'tuple', "([inf, frozenset(), ''], [], ['missing_left', 'common', 'missing_right'])")),
                  ("{'missing_left': 1, 'common': 2, 'missing_right': 3}", "OrderedDict({'z': 1, 'a': 2})",
                   ('ok', 'tuple', "(['z', 'a'], [], ['missing_left', 'common', 'missing_right'])")),
                  ("{'missing_left': 1, 'common': 2, 'missing_right': 3}", "defaultdict(<class 'list'>, {'a': [], 'q': []})",
                   ('ok', 'tuple', "(['a', 'q'], [], ['missing_left', 'common', 'missing_right'])")),
                  ("{'missing_left': 1, 'common': 2, 'missing_right': 3}", "Counter({'a': 2, 'b': 1, 'c': 1})",
                   ('ok', 'tuple', "(['a', 'b', 'c'], [], ['missing_left', 'common', 'missing_right'])")),
                  ("{inf: 1, frozenset(): 2, '': 3}", '{}', ('ok', 'tuple', "([], [], [inf, frozenset(), ''])")),
                  ("{inf: 1, frozenset(): 2, '': 3}", "{'a': 1}", ('ok', 'tuple', "(['a'], [], [inf, frozenset(), ''])")),
                  ("{inf: 1, frozenset(): 2, '': 3}", "{'b': 1}", ('ok', 'tuple', "(['b'], [], [inf, frozenset(), ''])")),
                  ("{inf: 1, frozenset(): 2, '': 3}", "{'a': 2, 'b': 1}", ('ok', 'tuple', "(['a', 'b'], [], [inf, frozenset(), ''])")),
                  ("{inf: 1, frozenset(): 2, '': 3}", "{'b': 1, 'a': 2}", ('ok', 'tuple', "(['b', 'a'], [], [inf, frozenset(), ''])")),
                  ("{inf: 1, frozenset(): 2, '': 3}", "{'c': None, 'a': 0, 'd': []}", ('ok', 'tuple', "(['c', 'a', 'd'], [], [inf, frozenset(), ''])")),
                  ("{inf: 1, frozenset(): 2, '': 3}", "{'d': 1, 'c': 2, 'b': 3, 'a': 4, 'e': 5}",
                   ('ok', 'tuple', "(['d', 'c', 'b', 'a', 'e'], [], [inf, frozenset(), ''])")),
                  ("{inf: 1, frozenset(): 2, '': 3}", "{1: 'x', '1': 'y', 1.5: 'z', None: 0, (1, 2): 3}",
                   ('ok', 'tuple', "([1, '1', 1.5, None, (1, 2)], [], [inf, frozenset(), ''])")),
                  ("{inf: 1, frozenset(): 2, '': 3}", '{True: 1, 0: 2}', ('ok', 'tuple', "([True, 0], [], [inf, frozenset(), ''])")),
                  ("{inf: 1, frozenset(): 2, '': 3}", "{1: 'int', 0.0: 'float'}", ('ok', 'tuple', "([1, 0.0], [], [inf, frozenset(), ''])")),
                  ("{inf: 1, frozenset(): 2, '': 3}", "{'missing_left': 1, 'common': 2, 'missing_right': 3}",
                   ('ok', 'tuple', "(['missing_left', 'common', 'missing_right'], [], [inf, frozenset(), ''])")),
                  ("{inf: 1, frozenset(): 2, '': 3}", "{inf: 1, frozenset(): 2, '': 3}", ('ok', 'tuple', "([], [inf, frozenset(), ''], [])")),
                  ("{inf: 1, frozenset(): 2, '': 3}", "OrderedDict({'z': 1, 'a': 2})", ('ok', 'tuple', "(['z', 'a'], [], [inf, frozenset(), ''])")),
                  ("{inf: 1, frozenset(): 2, '': 3}", "defaultdict(<class 'list'>, {'a': [], 'q': []})",
                   ('ok', 'tuple', "(['a', 'q'], [], [inf, frozenset(), ''])")),
                  ("{inf: 1, frozenset(): 2, '': 3}", "Counter({'a': 2, 'b': 1, 'c': 1})", ('ok', 'tuple', "(['a', 'b', 'c'], [], [inf, frozenset(), ''])")),
                  ("OrderedDict({'z': 1, 'a': 2})", '{}', ('ok', 'tuple', "([], [], ['z', 'a'])")),
                  ("OrderedDict({'z': 1, 'a': 2})", "{'a': 1}", ('ok', 'tuple', "([], ['a'], ['z'])")),
                  ("OrderedDict({'z': 1, 'a': 2})", "{'b': 1}", ('ok', 'tuple', "(['b'], [], ['z', 'a'])")),
                  ("OrderedDict({'z': 1, 'a': 2})", "{'a': 2, 'b': 1}", ('ok', 'tuple', "(['b'], ['a'], ['z'])")),
                  ("OrderedDict({'z': 1, 'a': 2})", "{'b': 1, 'a': 2}", ('ok', 'tuple', "(['b'], ['a'], ['z'])")),
                  ("OrderedDict({'z': 1, 'a': 2})", "{'c': None, 'a': 0, 'd': []}", ('ok', 'tuple', "(['c', 'd'], ['a'], ['z'])")),
                  ("OrderedDict({'z': 1, 'a': 2})", "{'d': 1, 'c': 2, 'b': 3, 'a': 4, 'e': 5}", ('ok', 'tuple', "(['d', 'c', 'b', 'e'], ['a'], ['z'])")),
                  ("OrderedDict({'z': 1, 'a': 2})", "{1: 'x', '1': 'y', 1.5: 'z', None: 0, (1, 2): 3}",
                   ('ok', 'tuple', "([1, '1', 1.5, None, (1, 2)], [], ['z', 'a'])")),
                  ("OrderedDict({'z': 1, 'a': 2})", '{True: 1, 0: 2}', ('ok', 'tuple', "([True, 0], [], ['z', 'a'])")),
                  ("OrderedDict({'z': 1, 'a': 2})", "{1: 'int', 0.0: 'float'}", ('ok', 'tuple', "([1, 0.0], [], ['z', 'a'])")),
                  ("OrderedDict({'z': 1, 'a': 2})", "{'missing_left': 1, 'common': 2, 'missing_right': 3}",
                   ('ok', 'tuple', "(['missing_left', 'common', 'missing_right'], [], ['z', 'a'])")),
                  ("OrderedDict({'z': 1, 'a': 2})", "{inf: 1, frozenset(): 2, '': 3}", ('ok', 'tuple', "([inf, frozenset(), ''], [], ['z', 'a'])")),
                  ("OrderedDict({'z': 1, 'a': 2})", "OrderedDict({'z': 1, 'a': 2})", ('ok', 'tuple', "([], ['z', 'a'], [])")),
                  ("OrderedDict({'z': 1, 'a': 2})", "defaultdict(<class 'list'>, {'a': [], 'q': []})", ('ok', 'tuple', "(['q'], ['a'], ['z'])")),
                  ("OrderedDict({'z': 1, 'a': 2})", "Counter({'a': 2, 'b': 1, 'c': 1})", ('ok', 'tuple', "(['b', 'c'], ['a'], ['z'])")),
                  ("defaultdict(<class 'list'>, {'a': [], 'q': []})", '{}', ('ok', 'tuple', "([], [], ['a', 'q'])")),
                  ("defaultdict(<class 'list'>, {'a': [], 'q': []})", "{'a': 1}", ('ok', 'tuple', "([], ['a'], ['q'])")),
                  ("defaultdict(<class 'list'>, {'a': [], 'q': []})", "{'b': 1}", ('ok', 'tuple', "(['b'], [], ['a', 'q'])")),
                  ("defaultdict(<class 'list'>, {'a': [], 'q': []})", "{'a': 2, 'b': 1}", ('ok', 'tuple', "(['b'], ['a'], ['q'])")),
                  ("defaultdict(<class 'list'>, {'a': [], 'q': []})", "{'b': 1, 'a': 2}", ('ok', 'tuple', "(['b'], ['a'], ['q'])")),
                  ("defaultdict(<class 'list'>, {'a': [], 'q': []})", "{'c': None, 'a': 0, 'd': []}", ('ok', 'tuple', "(['c', 'd'], ['a'], ['q'])")),
                  ("defaultdict(<class 'list'>, {'a': [], 'q': []})", "{'d': 1, 'c': 2, 'b': 3, 'a': 4, 'e': 5}",
                   ('ok', 'tuple', "(['d', 'c', 'b', 'e'], ['a'], ['q'])")),
                  ("defaultdict(<class 'list'>, {'a': [], 'q': []})", "{1: 'x', '1': 'y', 1.5: 'z', None: 0, (1, 2): 3}",
                   ('ok', 'tuple', "([1, '1', 1.5, None, (1, 2)], [], ['a', 'q'])")),
                  ("defaultdict(<class 'list'>, {'a': [], 'q': []})", '{True: 1, 0: 2}', ('ok', 'tuple', "([True, 0], [], ['a', 'q'])")),
                  ("defaultdict(<class 'list'>, {'a': [], 'q': []})", "{1: 'int', 0.0: 'float'}", ('ok', 'tuple', "([1, 0.0], [], ['a', 'q'])")),
                  ("defaultdict(<class 'list'>, {'a': [], 'q': []})", "{'missing_left': 1, 'common': 2, 'missing_right': 3}",
                   ('ok', 'tuple', "(['missing_left', 'common', 'missing_right'], [], ['a', 'q'])")),
                  ("defaultdict(<class 'list'>, {'a': [], 'q': []})", "{inf: 1, frozenset(): 2, '': 3}",
                   ('ok', 'tuple', "([inf, frozenset(), ''], [], ['a', 'q'])")),
                  ("defaultdict(<class 'list'>, {'a': [], 'q': []})", "OrderedDict({'z': 1, 'a': 2})", ('ok', 'tuple', "(['z'], ['a'], ['q'])")),
                  ("defaultdict(<class 'list'>, {'a': [], 'q': []})", "defaultdict(<class 'list'>, {'a': [], 'q': []})",
                   ('ok', 'tuple', "([], ['a', 'q'], [])")),
                  ("defaultdict(<class 'list'>, {'a': [], 'q': []})", "Counter({'a': 2, 'b': 1, 'c': 1})", ('ok', 'tuple', "(['b', 'c'], ['a'], ['q'])")),
                  ("Counter({'a': 2, 'b': 1, 'c': 1})", '{}', ('ok', 'tuple', "([], [], ['a', 'b', 'c'])")),
                  ("Counter({'a': 2, 'b': 1, 'c': 1})", "{'a': 1}", ('ok', 'tuple', "([], ['a'], ['b', 'c'])")),
                  ("Counter({'a': 2, 'b': 1, 'c': 1})", "{'b': 1}", ('ok', 'tuple', "([], ['b'], ['a', 'c'])")),
                  ("Counter({'a': 2, 'b': 1, 'c': 1})", "{'a': 2, 'b': 1}", ('ok', 'tuple', "([], ['a', 'b'], ['c'])")),
                  ("Counter({'a': 2, 'b': 1, 'c': 1})", "{'b': 1, 'a': 2}", ('ok', 'tuple', "([], ['a', 'b'], ['c'])")),
                  ("Counter({'a': 2, 'b': 1, 'c': 1})", "{'c': None, 'a': 0, 'd': []}", ('ok', 'tuple', "(['d'], ['a', 'c'], ['b'])")),
                  ("Counter({'a': 2, 'b': 1, 'c': 1})", "{'d': 1, 'c': 2, 'b': 3, 'a': 4, 'e': 5}", ('ok', 'tuple', "(['d', 'e'], ['a', 'b', 'c'], [])")),
                  ("Counter({'a': 2, 'b': 1, 'c': 1})", "{1: 'x', '1': 'y', 1.5: 'z', None: 0, (1, 2): 3}",
                   ('ok', 'tuple', "([1, '1', 1.5, None, (1, 2)], [], ['a', 'b', 'c'])")),
                  ("Counter({'a': 2, 'b': 1, 'c': 1})", '{True: 1, 0: 2}', ('ok', 'tuple', "([True, 0], [], ['a', 'b', 'c'])")),
                  ("Counter({'a': 2, 'b': 1, 'c': 1})", "{1: 'int', 0.0: 'float'}", ('ok', 'tuple', "([1, 0.0], [], ['a', 'b', 'c'])")),
                  ("Counter({'a': 2, 'b': 1, 'c': 1})", "{'missing_left': 1, 'common': 2, 'missing_right': 3}",
                   ('ok', 'tuple', "(['missing_left', 'common', 'missing_right'], [], ['a', 'b', 'c'])")),
                  ("Counter({'a': 2, 'b': 1, 'c': 1})", "{inf: 1, frozenset(): 2, '': 3}", ('ok', 'tuple', "([inf, frozenset(), ''], [], ['a', 'b', 'c'])")),
                  ("Counter({'a': 2, 'b': 1, 'c': 1})", "OrderedDict({'z': 1, 'a': 2})", ('ok', 'tuple', "(['z'], ['a'], ['b', 'c'])")),
                  ("Counter({'a': 2, 'b': 1, 'c': 1})", "defaultdict(<class 'list'>, {'a': [], 'q': []})", ('ok', 'tuple', "(['q'], ['a'], ['b', 'c'])")),
                  ("Counter({'a': 2, 'b': 1, 'c': 1})", "Counter({'a': 2, 'b': 1, 'c': 1})", ('ok', 'tuple', "([], ['a', 'b', 'c'], [])")),
                  ('None', '{}', ('raise', 'TypeError', "unsupported operand type(s) for |: 'NoneType' and 'dict'", 'NoneType')),
                  ('None', "{'a': 1}", ('raise', 'TypeError', "unsupported operand type(s) for |: 'NoneType' and 'dict'", 'NoneType')),
                  ('None', "{'b': 1}", ('raise', 'TypeError', "unsupported operand type(s) for |: 'NoneType' and 'dict'", 'NoneType')),
                  ('None', "{'a': 2, 'b': 1}", ('raise', 'TypeError', "unsupported operand type(s) for |: 'NoneType' and 'dict'", 'NoneType')),
                  ("[('a', 1)]", '{}', ('raise', 'TypeError', "unsupported operand type(s) for |: 'list' and 'dict'", 'NoneType')),
                  ("[('a', 1)]", "{'a': 1}", ('raise', 'TypeError', "unsupported operand type(s) for |: 'list' and 'dict'", 'NoneType')),
                  ("[('a', 1)]", "{'b': 1}", ('raise', 'TypeError', "unsupported operand type(s) for |: 'list' and 'dict'", 'NoneType')),
                  ("[('a', 1)]", "{'a': 2, 'b': 1}", ('raise', 'TypeError', "unsupported operand type(s) for |: 'list' and 'dict'", 'NoneType')),
                  ("'ab'", '{}', ('raise', 'TypeError', "unsupported operand type(s) for |: 'str' and 'dict'", 'NoneType')),
                  ("'ab'", "{'a': 1}", ('raise', 'TypeError', "unsupported operand type(s) for |: 'str' and 'dict'", 'NoneType')),
                  ("'ab'", "{'b': 1}", ('raise', 'TypeError', "unsupported operand type(s) for |: 'str' and 'dict'", 'NoneType')),
                  ("'ab'", "{'a': 2, 'b': 1}", ('raise', 'TypeError', "unsupported operand type(s) for |: 'str' and 'dict'", 'NoneType')),
                  ('5', '{}', ('raise', 'TypeError', "unsupported operand type(s) for |: 'int' and 'dict'", 'NoneType')),
                  ('5', "{'a': 1}", ('raise', 'TypeError', "unsupported operand type(s) for |: 'int' and 'dict'", 'NoneType')),
                  ('5', "{'b': 1}", ('raise', 'TypeError', "unsupported operand type(s) for |: 'int' and 'dict'", 'NoneType')),
                  ('5', "{'a': 2, 'b': 1}", ('raise', 'TypeError', "unsupported operand type(s) for |: 'int' and 'dict'", 'NoneType')),
                  ("{'a'}", '{}', ('raise', 'TypeError', "unsupported operand type(s) for |: 'set' and 'dict'", 'NoneType')),
                  ("{'a'}", "{'a': 1}", ('raise', 'TypeError', "unsupported operand type(s) for |: 'set' and 'dict'", 'NoneType')),
                  ("{'a'}", "{'b': 1}", ('raise', 'TypeError', "unsupported operand type(s) for |: 'set' and 'dict'", 'NoneType')),
                  ("{'a'}", "{'a': 2, 'b': 1}", ('raise', 'TypeError', "unsupported operand type(s) for |: 'set' and 'dict'", 'NoneType')),
                  ("frozenset({'a'})", '{}', ('raise', 'TypeError', "unsupported operand type(s) for |: 'frozenset' and 'dict'", 'NoneType')),
                  ("frozenset({'a'})", "{'a': 1}", ('raise', 'TypeError', "unsupported operand type(s) for |: 'frozenset' and 'dict'", 'NoneType')),
                  ("frozenset({'a'})", "{'b': 1}", ('raise', 'TypeError', "unsupported operand type(s) for |: 'frozenset' and 'dict'", 'NoneType')),
                  ("frozenset({'a'})", "{'a': 2, 'b': 1}", ('raise', 'TypeError', "unsupported operand type(s) for |: 'frozenset' and 'dict'", 'NoneType')),
                  ("mappingproxy({'a': 1, 'p': 2})", '{}', ('ok', 'tuple', "([], [], ['a', 'p'])")),
                  ("mappingproxy({'a': 1, 'p': 2})", "{'a': 1}", ('ok', 'tuple', "([], ['a'], ['p'])")),
                  ("mappingproxy({'a': 1, 'p': 2})", "{'b': 1}", ('ok', 'tuple', "(['b'], [], ['a', 'p'])")),
                  ("mappingproxy({'a': 1, 'p': 2})", "{'a': 2, 'b': 1}", ('ok', 'tuple', "(['b'], ['a'], ['p'])")),
                  ("ChainMap({'a': 1}, {'c': 2})", '{}', ('ok', 'tuple', "([], [], ['c', 'a'])")),
                  ("ChainMap({'a': 1}, {'c': 2})", "{'a': 1}", ('ok', 'tuple', "([], ['a'], ['c'])")),
                  ("ChainMap({'a': 1}, {'c': 2})", "{'b': 1}", ('ok', 'tuple', "(['b'], [], ['c', 'a'])")),
                  ("ChainMap({'a': 1}, {'c': 2})", "{'a': 2, 'b': 1}", ('ok', 'tuple', "(['b'], ['a'], ['c'])")),
                  ("Group(path='/', url=None, data={}, attrs={})", '{}',
                   ('raise', 'TypeError', "unsupported operand type(s) for |: 'Group' and 'dict'", 'NoneType')),
                  ("Group(path='/', url=None, data={}, attrs={})", "{'a': 1}",
                   ('raise', 'TypeError', "unsupported operand type(s) for |: 'Group' and 'dict'", 'NoneType')),
                  ("Group(path='/', url=None, data={}, attrs={})", "{'b': 1}",
                   ('raise', 'TypeError', "unsupported operand type(s) for |: 'Group' and 'dict'", 'NoneType')),
                  ("Group(path='/', url=None, data={}, attrs={})", "{'a': 2, 'b': 1}",
                   ('raise', 'TypeError', "unsupported operand type(s) for |: 'Group' and 'dict'", 'NoneType')),
                  ('{}', 'None', ('raise', 'TypeError', "unsupported operand type(s) for |: 'dict' and 'NoneType'", 'NoneType')),
                  ('{}', "[('a', 1)]", ('raise', 'TypeError', "unsupported operand type(s) for |: 'dict' and 'list'", 'NoneType')),
                  ('{}', "'ab'", ('raise', 'TypeError', "unsupported operand type(s) for |: 'dict' and 'str'", 'NoneType')),
                  ('{}', '5', ('raise', 'TypeError', "unsupported operand type(s) for |: 'dict' and 'int'", 'NoneType')),
                  ('{}', "{'a'}", ('raise', 'TypeError', "unsupported operand type(s) for |: 'dict' and 'set'", 'NoneType')),
                  ('{}', "frozenset({'a'})", ('raise', 'TypeError', "unsupported operand type(s) for |: 'dict' and 'frozenset'", 'NoneType')),
                  ('{}', "mappingproxy({'a': 1, 'p': 2})", ('ok', 'tuple', "(['a', 'p'], [], [])")),
                  ('{}', "ChainMap({'a': 1}, {'c': 2})", ('ok', 'tuple', "(['c', 'a'], [], [])")),
                  ('{}', "Group(path='/', url=None, data={}, attrs={})",
                   ('raise', 'TypeError', "unsupported operand type(s) for |: 'dict' and 'Group'", 'NoneType')),
                  ("{'a': 1}", 'None', ('raise', 'TypeError', "unsupported operand type(s) for |: 'dict' and 'NoneType'", 'NoneType')),
                  ("{'a': 1}", "[('a', 1)]", ('raise', 'TypeError', "unsupported operand type(s) for |: 'dict' and 'list'", 'NoneType')),
                  ("{'a': 1}", "'ab'", ('raise', 'TypeError', "unsupported operand type(s) for |: 'dict' and 'str'", 'NoneType')),
                  ("{'a': 1}", '5', ('raise', 'TypeError', "unsupported operand type(s) for |: 'dict' and 'int'", 'NoneType')),
                  ("{'a': 1}", "{'a'}", ('raise', 'TypeError', "unsupported operand type(s) for |: 'dict' and 'set'", 'NoneType')),
                  ("{'a': 1}", "frozenset({'a'})", ('raise', 'TypeError', "unsupported operand type(s) for |: 'dict' and 'frozenset'", 'NoneType')),
                  ("{'a': 1}", "mappingproxy({'a': 1, 'p': 2})", ('ok', 'tuple', "(['p'], ['a'], [])")),
                  ("{'a': 1}", "ChainMap({'a': 1}, {'c': 2})", ('ok', 'tuple', "(['c'], ['a'], [])")),
                  ("{'a': 1}", "Group(path='/', url=None, data={}, attrs={})",
                   ('raise', 'TypeError', "unsupported operand type(s) for |: 'dict' and 'Group'", 'NoneType')),
                  ("{'b': 1}", 'None', ('raise', 'TypeError', "unsupported operand type(s) for |: 'dict' and 'NoneType'", 'NoneType')),
                  ("{'b': 1}", "[('a', 1)]", ('raise', 'TypeError', "unsupported operand type(s) for |: 'dict' and 'list'", 'NoneType')),
                  ("{'b': 1}", "'ab'", ('raise', 'TypeError', "unsupported operand type(s) for |: 'dict' and 'str'", 'NoneType')),
                  ("{'b': 1}", '5', ('raise', 'TypeError', "unsupported operand type(s) for |: 'dict' and 'int'", 'NoneType')),
                  ("{'b': 1}", "{'a'}", ('raise', 'TypeError', "unsupported operand type(s) for |: 'dict' and 'set'", 'NoneType')),
                  ("{'b': 1}", "frozenset({'a'})", ('raise', 'TypeError', "unsupported operand type(s) for |: 'dict' and 'frozenset'", 'NoneType')),
                  ("{'b': 1}", "mappingproxy({'a': 1, 'p': 2})", ('ok', 'tuple', "(['a', 'p'], [], ['b'])")),
                  ("{'b': 1}", "ChainMap({'a': 1}, {'c': 2})", ('ok', 'tuple', "(['c', 'a'], [], ['b'])")),
                  ("{'b': 1}", "Group(path='/', url=None, data={}, attrs={})",
                   ('raise', 'TypeError', "unsupported operand type(s) for |: 'dict' and 'Group'", 'NoneType')),
                  ("{'a': 2, 'b': 1}", 'None', ('raise', 'TypeError', "unsupported operand type(s) for |: 'dict' and 'NoneType'", 'NoneType')),
                  ("{'a': 2, 'b': 1}", "[('a', 1)]", ('raise', 'TypeError', "unsupported operand type(s) for |: 'dict' and 'list'", 'NoneType')),
                  ("{'a': 2, 'b': 1}", "'ab'", ('raise', 'TypeError', "unsupported operand type(s) for |: 'dict' and 'str'", 'NoneType')),
                  ("{'a': 2, 'b': 1}", '5', ('raise', 'TypeError', "unsupported operand type(s) for |: 'dict' and 'int'", 'NoneType')),
                  ("{'a': 2, 'b': 1}", "{'a'}", ('raise', 'TypeError', "unsupported operand type(s) for |: 'dict' and 'set'", 'NoneType')),
                  ("{'a': 2, 'b': 1}", "frozenset({'a'})", ('raise', 'TypeError', "unsupported operand type(s) for |: 'dict' and 'frozenset'", 'NoneType')),
                  ("{'a': 2, 'b': 1}", "mappingproxy({'a': 1, 'p': 2})", ('ok', 'tuple', "(['p'], ['a'], ['b'])")),
                  ("{'a': 2, 'b': 1}", "ChainMap({'a': 1}, {'c': 2})", ('ok', 'tuple', "(['c'], ['a'], ['b'])")),
                  ("{'a': 2, 'b': 1}", "Group(path='/', url=None, data={}, attrs={})",
                   ('raise', 'TypeError', "unsupported operand type(s) for |: 'dict' and 'Group'", 'NoneType')),
                  ('None', 'None', ('raise', 'TypeError', "unsupported operand type(s) for |: 'NoneType' and 'NoneType'", 'NoneType')),
                  ('None', "[('a', 1)]", ('raise', 'TypeError', "unsupported operand type(s) for |: 'NoneType' and 'list'", 'NoneType')),
                  ('None', "'ab'", ('raise', 'TypeError', "unsupported operand type(s) for |: 'NoneType' and 'str'", 'NoneType')),
                  ('None', '5', ('raise', 'TypeError', "unsupported operand type(s) for |: 'NoneType' and 'int'", 'NoneType')),
                  ('None', "{'a'}", ('raise', 'TypeError', "unsupported operand type(s) for |: 'NoneType' and 'set'", 'NoneType')),
                  ('None', "frozenset({'a'})", ('raise', 'TypeError', "unsupported operand type(s) for |: 'NoneType' and 'frozenset'", 'NoneType')),
                  ('None', "mappingproxy({'a': 1, 'p': 2})", ('raise', 'TypeError', "unsupported operand type(s) for |: 'NoneType' and 'dict'", 'NoneType')),
                  ('None', "ChainMap({'a': 1}, {'c': 2})", ('raise', 'TypeError', "unsupported operand type(s) for |: 'NoneType' and 'ChainMap'", 'NoneType')),
                  ('None', "Group(path='/', url=None, data={}, attrs={})",
                   ('raise', 'TypeError', "unsupported operand type(s) for |: 'NoneType' and 'Group'", 'NoneType')),
                  ("[('a', 1)]", 'None', ('raise', 'TypeError', "unsupported operand type(s) for |: 'list' and 'NoneType'", 'NoneType')),
                  ("[('a', 1)]", "[('a', 1)]", ('raise', 'TypeError', "unsupported operand type(s) for |: 'list' and 'list'", 'NoneType')),
                  ("[('a', 1)]", "'ab'", ('raise', 'TypeError', "unsupported operand type(s) for |: 'list' and 'str'", 'NoneType')),
                  ("[('a', 1)]", '5', ('raise', 'TypeError', "unsupported operand type(s) for |: 'list' and 'int'", 'NoneType')),
                  ("[('a', 1)]", "{'a'}", ('raise', 'TypeError', "unsupported operand type(s) for |: 'list' and 'set'", 'NoneType')),
                  ("[('a', 1)]", "frozenset({'a'})", ('raise', 'TypeError', "unsupported operand type(s) for |: 'list' and 'frozenset'", 'NoneType')),
                  ("[('a', 1)]", "mappingproxy({'a': 1, 'p': 2})", ('raise', 'TypeError', "unsupported operand type(s) for |: 'list' and 'dict'", 'NoneType')),
                  ("[('a', 1)]", "ChainMap({'a': 1}, {'c': 2})",
                   ('raise', 'TypeError', "unsupported operand type(s) for |: 'list' and 'ChainMap'", 'NoneType')),
                  ("[('a', 1)]", "Group(path='/', url=None, data={}, attrs={})",
                   ('raise', 'TypeError', "unsupported operand type(s) for |: 'list' and 'Group'", 'NoneType')),
                  ("'ab'", 'None', ('raise', 'TypeError', "unsupported operand type(s) for |: 'str' and 'NoneType'", 'NoneType')),
                  ("'ab'", "[('a', 1)]", ('raise', 'TypeError', "unsupported operand type(s) for |: 'str' and 'list'", 'NoneType')),
                  ("'ab'", "'ab'", ('raise', 'TypeError', "unsupported operand type(s) for |: 'str' and 'str'", 'NoneType')),
                  ("'ab'", '5', ('raise', 'TypeError', "unsupported operand type(s) for |: 'str' and 'int'", 'NoneType')),
                  ("'ab'", "{'a'}", ('raise', 'TypeError', "unsupported operand type(s) for |: 'str' and 'set'", 'NoneType')),
                  ("'ab'", "frozenset({'a'})", ('raise', 'TypeError', "unsupported operand type(s) for |: 'str' and 'frozenset'", 'NoneType')),
                  ("'ab'", "mappingproxy({'a': 1, 'p': 2})", ('raise', 'TypeError', "unsupported operand type(s) for |: 'str' and 'dict'", 'NoneType')),
                  ("'ab'", "ChainMap({'a': 1}, {'c': 2})", ('raise', 'TypeError', "unsupported operand type(s) for |: 'str' and 'ChainMap'", 'NoneType')),
                  ("'ab'", "Group(path='/', url=None, data={}, attrs={})",
                   ('raise', 'TypeError', "unsupported operand type(s) for |: 'str' and 'Group'", 'NoneType')),
                  ('5', 'None', ('raise', 'TypeError', "unsupported operand type(s) for |: 'int' and 'NoneType'", 'NoneType')),
                  ('5', "[('a', 1)]", ('raise', 'TypeError', "unsupported operand type(s) for |: 'int' and 'list'", 'NoneType')),
                  ('5', "'ab'", ('raise', 'TypeError', "unsupported operand type(s) for |: 'int' and 'str'", 'NoneType')),
                  ('5', '5', ('raise', 'TypeError', "'int' object is not iterable", 'NoneType')),
                  ('5', "{'a'}", ('raise', 'TypeError', "unsupported operand type(s) for |: 'int' and 'set'", 'NoneType')),
                  ('5', "frozenset({'a'})", ('raise', 'TypeError', "unsupported operand type(s) for |: 'int' and 'frozenset'", 'NoneType')),
                  ('5', "mappingproxy({'a': 1, 'p': 2})", ('raise', 'TypeError', "unsupported operand type(s) for |: 'int' and 'dict'", 'NoneType')),
                  ('5', "ChainMap({'a': 1}, {'c': 2})", ('raise', 'TypeError', "unsupported operand type(s) for |: 'int' and 'ChainMap'", 'NoneType')),
                  ('5', "Group(path='/', url=None, data={}, attrs={})",
                   ('raise', 'TypeError', "unsupported operand type(s) for |: 'int' and 'Group'", 'NoneType')),
                  ("{'a'}", 'None', ('raise', 'TypeError', "unsupported operand type(s) for |: 'set' and 'NoneType'", 'NoneType')),
                  ("{'a'}", "[('a', 1)]", ('raise', 'TypeError', "unsupported operand type(s) for |: 'set' and 'list'", 'NoneType')),
                  ("{'a'}", "'ab'", ('raise', 'TypeError', "unsupported operand type(s) for |: 'set' and 'str'", 'NoneType')),
                  ("{'a'}", '5', ('raise', 'TypeError', "unsupported operand type(s) for |: 'set' and 'int'", 'NoneType')),
                  ("{'a'}", "{'a'}", ('ok', 'tuple', "([], ['a'], [])")), ("{'a'}", "frozenset({'a'})", ('ok', 'tuple', "([], ['a'], [])")),
                  ("{'a'}", "mappingproxy({'a': 1, 'p': 2})", ('raise', 'TypeError', "unsupported operand type(s) for |: 'set' and 'dict'", 'NoneType')),
                  ("{'a'}", "ChainMap({'a': 1}, {'c': 2})", ('raise', 'TypeError', "unsupported operand type(s) for |: 'set' and 'ChainMap'", 'NoneType')),
                  ("{'a'}", "Group(path='/', url=None, data={}, attrs={})",
                   ('raise', 'TypeError', "unsupported operand type(s) for |: 'set' and 'Group'", 'NoneType')),
                  ("frozenset({'a'})", 'None', ('raise', 'TypeError', "unsupported operand type(s) for |: 'frozenset' and 'NoneType'", 'NoneType')),
                  ("frozenset({'a'})", "[('a', 1)]", ('raise', 'TypeError', "unsupported operand type(s) for |: 'frozenset' and 'list'", 'NoneType')),
                  ("frozenset({'a'})", "'ab'", ('raise', 'TypeError', "unsupported operand type(s) for |: 'frozenset' and 'str'", 'NoneType')),
                  ("frozenset({'a'})", '5', ('raise', 'TypeError', "unsupported operand type(s) for |: 'frozenset' and 'int'", 'NoneType')),
                  ("frozenset({'a'})", "{'a'}", ('ok', 'tuple', "([], ['a'], [])")),
                  ("frozenset({'a'})", "frozenset({'a'})", ('ok', 'tuple', "([], ['a'], [])")),
                  ("frozenset({'a'})", "mappingproxy({'a': 1, 'p': 2})",
                   ('raise', 'TypeError', "unsupported operand type(s) for |: 'frozenset' and 'dict'", 'NoneType')),
                  ("frozenset({'a'})", "ChainMap({'a': 1}, {'c': 2})",
                   ('raise', 'TypeError', "unsupported operand type(s) for |: 'frozenset' and 'ChainMap'", 'NoneType')),
                  ("frozenset({'a'})", "Group(path='/', url=None, data={}, attrs={})",
                   ('raise', 'TypeError', "unsupported operand type(s) for |: 'frozenset' and 'Group'", 'NoneType')),
                  ("mappingproxy({'a': 1, 'p': 2})", 'None', ('raise', 'TypeError', "unsupported operand type(s) for |: 'dict' and 'NoneType'", 'NoneType')),
                  ("mappingproxy({'a': 1, 'p': 2})", "[('a', 1)]", ('raise', 'TypeError', "unsupported operand type(s) for |: 'dict' and 'list'", 'NoneType')),
                  ("mappingproxy({'a': 1, 'p': 2})", "'ab'", ('raise', 'TypeError', "unsupported operand type(s) for |: 'dict' and 'str'", 'NoneType')),
                  ("mappingproxy({'a': 1, 'p': 2})", '5', ('raise', 'TypeError', "unsupported operand type(s) for |: 'dict' and 'int'", 'NoneType')),
                  ("mappingproxy({'a': 1, 'p': 2})", "{'a'}", ('raise', 'TypeError', "unsupported operand type(s) for |: 'dict' and 'set'", 'NoneType')),
                  ("mappingproxy({'a': 1, 'p': 2})", "frozenset({'a'})",
                   ('raise', 'TypeError', "unsupported operand type(s) for |: 'dict' and 'frozenset'", 'NoneType')),
                  ("mappingproxy({'a': 1, 'p': 2})", "mappingproxy({'a': 1, 'p': 2})", ('ok', 'tuple', "([], ['a', 'p'], [])")),
                  ("mappingproxy({'a': 1, 'p': 2})", "ChainMap({'a': 1}, {'c': 2})", ('ok', 'tuple', "(['c'], ['a'], ['p'])")),
                  ("mappingproxy({'a': 1, 'p': 2})", "Group(path='/', url=None, data={}, attrs={})",
                   ('raise', 'TypeError', "unsupported operand type(s) for |: 'dict' and 'Group'", 'NoneType')),
                  ("ChainMap({'a': 1}, {'c': 2})", 'None', ('raise', 'TypeError', "unsupported operand type(s) for |: 'ChainMap' and 'NoneType'", 'NoneType')),
                  ("ChainMap({'a': 1}, {'c': 2})", "[('a', 1)]",
                   ('raise', 'TypeError', "unsupported operand type(s) for |: 'ChainMap' and 'list'", 'NoneType')),
                  ("ChainMap({'a': 1}, {'c': 2})", "'ab'", ('raise', 'TypeError', "unsupported operand type(s) for |: 'ChainMap' and 'str'", 'NoneType')),
                  ("ChainMap({'a': 1}, {'c': 2})", '5', ('raise', 'TypeError', "unsupported operand type(s) for |: 'ChainMap' and 'int'", 'NoneType')),
                  ("ChainMap({'a': 1}, {'c': 2})", "{'a'}", ('raise', 'TypeError', "unsupported operand type(s) for |: 'ChainMap' and 'set'", 'NoneType')),
                  ("ChainMap({'a': 1}, {'c': 2})", "frozenset({'a'})",
                   ('raise', 'TypeError', "unsupported operand type(s) for |: 'ChainMap' and 'frozenset'", 'NoneType')),
                  ("ChainMap({'a': 1}, {'c': 2})", "mappingproxy({'a': 1, 'p': 2})", ('ok', 'tuple', "(['p'], ['a'], ['c'])")),
                  ("ChainMap({'a': 1}, {'c': 2})", "ChainMap({'a': 1}, {'c': 2})", ('ok', 'tuple', "([], ['c', 'a'], [])")),
                  ("ChainMap({'a': 1}, {'c': 2})", "Group(path='/', url=None, data={}, attrs={})", ('ok', 'tuple', "([], [], ['c', 'a'])")),
                  ("Group(path='/', url=None, data={}, attrs={})", 'None',
                   ('raise', 'TypeError', "unsupported operand type(s) for |: 'Group' and 'NoneType'", 'NoneType')),
                  ("Group(path='/', url=None, data={}, attrs={})", "[('a', 1)]",
                   ('raise', 'TypeError', "unsupported operand type(s) for |: 'Group' and 'list'", 'NoneType')),
                  ("Group(path='/', url=None, data={}, attrs={})", "'ab'",
                   ('raise', 'TypeError', "unsupported operand type(s) for |: 'Group' and 'str'", 'NoneType')),
                  ("Group(path='/', url=None, data={}, attrs={})", '5',
                   ('raise', 'TypeError', "unsupported operand type(s) for |: 'Group' and 'int'", 'NoneType')),
                  ("Group(path='/', url=None, data={}, attrs={})", "{'a'}",
                   ('raise', 'TypeError', "unsupported operand type(s) for |: 'Group' and 'set'", 'NoneType')),
                  ("Group(path='/', url=None, data={}, attrs={})", "frozenset({'a'})",
                   ('raise', 'TypeError', "unsupported operand type(s) for |: 'Group' and 'frozenset'", 'NoneType')),
                  ("Group(path='/', url=None, data={}, attrs={})", "mappingproxy({'a': 1, 'p': 2})",
                   ('raise', 'TypeError', "unsupported operand type(s) for |: 'Group' and 'dict'", 'NoneType')),
                  ("Group(path='/', url=None, data={}, attrs={})", "ChainMap({'a': 1}, {'c': 2})", ('ok', 'tuple', "(['c', 'a'], [], [])")),
                  ("Group(path='/', url=None, data={}, attrs={})", "Group(path='/', url=None, data={}, attrs={})",
                   ('raise', 'TypeError', "unsupported operand type(s) for |: 'Group' and 'Group'", 'NoneType')),
                  ('defaultdict', "defaultdict(<class 'list'>, {'a': []})"), ('fresh', '([], [], [])'),
                  ('diff_mapping', '{}', '{}', 'Attributes', ('ok', 'str', "'Attributes:\\n'")),
                  ('diff_mapping', '{}', '{}', 'variables', ('ok', 'str', "'Variables:\\n'")), ('diff_mapping', '{}', '{}', 'x y', ('ok', 'str', "'X Y:\\n'")),
                  ('diff_mapping', '{}', "{'a': 1}", 'Attributes', ('ok', 'str', "'Attributes:\\n  Missing left:\\n   - a'")),
                  ('diff_mapping', '{}', "{'a': 1}", 'variables', ('ok', 'str', "'Variables:\\n  Missing left:\\n   - a'")),
                  ('diff_mapping', '{}', "{'a': 1}", 'x y', ('ok', 'str', "'X Y:\\n  Missing left:\\n   - a'")),
                  ('diff_mapping', '{}', "{'b': 1}", 'Attributes', ('ok', 'str', "'Attributes:\\n  Missing left:\\n   - b'")),
                  ('diff_mapping', '{}', "{'b': 1}", 'variables', ('ok', 'str', "'Variables:\\n  Missing left:\\n   - b'")),
                  ('diff_mapping', '{}', "{'b': 1}", 'x y', ('ok', 'str', "'X Y:\\n  Missing left:\\n   - b'")),
                  ('diff_mapping', '{}', "{'a': 2, 'b': 1}", 'Attributes', ('ok', 'str', "'Attributes:\\n  Missing left:\\n   - a\\n   - b'")),
                  ('diff_mapping', '{}', "{'a': 2, 'b': 1}", 'variables', ('ok', 'str', "'Variables:\\n  Missing left:\\n   - a\\n   - b'")),
                  ('diff_mapping', '{}', "{'a': 2, 'b': 1}", 'x y', ('ok', 'str', "'X Y:\\n  Missing left:\\n   - a\\n   - b'")),
                  ('diff_mapping', '{}', "{'b': 1, 'a': 2}", 'Attributes', ('ok', 'str', "'Attributes:\\n  Missing left:\\n   - b\\n   - a'")),
                  ('diff_mapping', '{}', "{'b': 1, 'a': 2}", 'variables', ('ok', 'str', "'Variables:\\n  Missing left:\\n   - b\\n   - a'")),
                  ('diff_mapping', '{}', "{'b': 1, 'a': 2}", 'x y', ('ok', 'str', "'X Y:\\n  Missing left:\\n   - b\\n   - a'")),
                  ('diff_mapping', '{}', "{'c': None, 'a': 0, 'd': []}", 'Attributes',
                   ('ok', 'str', "'Attributes:\\n  Missing left:\\n   - c\\n   - a\\n   - d'")),
                  ('diff_mapping', '{}', "{'c': None, 'a': 0, 'd': []}", 'variables',
                   ('ok', 'str', "'Variables:\\n  Missing left:\\n   - c\\n   - a\\n   - d'")),
                  ('diff_mapping', '{}', "{'c': None, 'a': 0, 'd': []}", 'x y', ('ok', 'str', "'X Y:\\n  Missing left:\\n   - c\\n   - a\\n   - d'")),
                  ('diff_mapping', '{}', "{'d': 1, 'c': 2, 'b': 3, 'a': 4, 'e': 5}", 'Attributes',
                   ('ok', 'str', "'Attributes:\\n  Missing left:\\n   - d\\n   - c\\n   - b\\n   - a\\n   - e'")),
                  ('diff_mapping', '{}', "{'d': 1, 'c': 2, 'b': 3, 'a': 4, 'e': 5}", 'variables',
                   ('ok', 'str', "'Variables:\\n  Missing left:\\n   - d\\n   - c\\n   - b\\n   - a\\n   - e'")),
                  ('diff_mapping', '{}', "{'d': 1, 'c': 2, 'b': 3, 'a': 4, 'e': 5}", 'x y',
                   ('ok', 'str', "'X Y:\\n  Missing left:\\n   - d\\n   - c\\n   - b\\n   - a\\n   - e'")),
                  ('diff_mapping', '{}', "{1: 'x', '1': 'y', 1.5: 'z', None: 0, (1, 2): 3}", 'Attributes',
                   ('ok', 'str', "'Attributes:\\n  Missing left:\\n   - 1\\n   - 1\\n   - 1.5\\n   - None\\n   - (1, 2)'")),
                  ('diff_mapping', '{}', "{1: 'x', '1': 'y', 1.5: 'z', None: 0, (1, 2): 3}", 'variables',
                   ('ok', 'str', "'Variables:\\n  Missing left:\\n   - 1\\n   - 1\\n   - 1.5\\n   - None\\n   - (1, 2)'")),
                  ('diff_mapping', '{}', "{1: 'x', '1': 'y', 1.5: 'z', None: 0, (1, 2): 3}", 'x y',
                   ('ok', 'str', "'X Y:\\n  Missing left:\\n   - 1\\n   - 1\\n   - 1.5\\n   - None\\n   - (1, 2)'")),
                  ('diff_mapping', "{'a': 1}", '{}', 'Attributes', ('ok', 'str', "'Attributes:\\n  Missing right:\\n   - a'")),
                  ('diff_mapping', "{'a': 1}", '{}', 'variables', ('ok', 'str', "'Variables:\\n  Missing right:\\n   - a'")),
                  ('diff_mapping', "{'a': 1}", '{}', 'x y', ('ok', 'str', "'X Y:\\n  Missing right:\\n   - a'")),
                  ('diff_mapping', "{'a': 1}", "{'a': 1}", 'Attributes', ('ok', 'str', "'Attributes:\\n'")),
                  ('diff_mapping', "{'a': 1}", "{'a': 1}", 'variables', ('ok', 'str', "'Variables:\\n'")),
                  ('diff_mapping', "{'a': 1}", "{'a': 1}", 'x y', ('ok', 'str', "'X Y:\\n'")),
                  ('diff_mapping', "{'a': 1}", "{'b': 1}", 'Attributes', ('ok', 'str', "'Attributes:\\n  Missing left:\\n   - b\\n  Missing right:\\n   - a'")),
                  ('diff_mapping', "{'a': 1}", "{'b': 1}", 'variables', ('ok', 'str', "'Variables:\\n  Missing left:\\n   - b\\n  Missing right:\\n   - a'")),
                  ('diff_mapping', "{'a': 1}", "{'b': 1}", 'x y', ('ok', 'str', "'X Y:\\n  Missing left:\\n   - b\\n  Missing right:\\n   - a'")),
                  ('diff_mapping', "{'a': 1}", "{'a': 2, 'b': 1}", 'Attributes',
                   ('ok', 'str', "'Attributes:\\n  Missing left:\\n   - b\\n  Differing attributes:\\n     L a  1\\n     R a  2'")),
                  ('diff_mapping', "{'a': 1}", "{'a': 2, 'b': 1}", 'variables',
                   ('ok', 'str', "'Variables:\\n  Missing left:\\n   - b\\n  Differing variables:\\n     L a  1\\n     R a  2'")),
                  ('diff_mapping', "{'a': 1}", "{'a': 2, 'b': 1}", 'x y',
                   ('ok', 'str', "'X Y:\\n  Missing left:\\n   - b\\n  Differing x y:\\n     L a  1\\n     R a  2'")),
                  ('diff_mapping', "{'a': 1}", "{'b': 1, 'a': 2}", 'Attributes',
                   ('ok', 'str', "'Attributes:\\n  Missing left:\\n   - b\\n  Differing attributes:\\n     L a  1\\n     R a  2'")),
                  ('diff_mapping', "{'a': 1}", "{'b': 1, 'a': 2}", 'variables',
                   ('ok', 'str', "'Variables:\\n  Missing left:\\n   - b\\n  Differing variables:\\n     L a  1\\n     R a  2'")),
                  ('diff_mapping', "{'a': 1}", "{'b': 1, 'a': 2}", 'x y',
                   ('ok', 'str', "'X Y:\\n  Missing left:\\n   - b\\n  Differing x y:\\n     L a  1\\n     R a  2'")),
                  ('diff_mapping', "{'a': 1}", "{'c': None, 'a': 0, 'd': []}", 'Attributes',
                   ('ok', 'str', "'Attributes:\\n  Missing left:\\n   - c\\n   - d\\n  Differing attributes:\\n     L a  1\\n     R a  0'")),
                  ('diff_mapping', "{'a': 1}", "{'c': None, 'a': 0, 'd': []}", 'variables',
                   ('ok', 'str', "'Variables:\\n  Missing left:\\n   - c\\n   - d\\n  Differing variables:\\n     L a  1\\n     R a  0'")),
                  ('diff_mapping', "{'a': 1}", "{'c': None, 'a': 0, 'd': []}", 'x y',
                   ('ok', 'str', "'X Y:\\n  Missing left:\\n   - c\\n   - d\\n  Differing x y:\\n     L a  1\\n     R a  0'")),
                  ('diff_mapping', "{'a': 1}", "{'d': 1, 'c': 2, 'b': 3, 'a': 4, 'e': 5}", 'Attributes',
                   ('ok', 'str', "'Attributes:\\n  Missing left:\\n   - d\\n   - c\\n   - b\\n   - e\\n  Differing attributes:\\n     L a  1\\n     R a  4'")),
                  ('diff_mapping', "{'a': 1}", "{'d': 1, 'c': 2, 'b': 3, 'a': 4, 'e': 5}", 'variables',
                   ('ok', 'str', "'Variables:\\n  Missing left:\\n   - d\\n   - c\\n   - b\\n   - e\\n  Differing variables:\\n     L a  1\\n     R a  4'")),
                  ('diff_mapping', "{'a': 1}", "{'d': 1, 'c': 2, 'b': 3, 'a': 4, 'e': 5}", 'x y',
                   ('ok', 'str', "'X Y:\\n  Missing left:\\n   - d\\n   - c\\n   - b\\n   - e\\n  Differing x y:\\n     L a  1\\n     R a  4'")),
                  ('diff_mapping', "{'a': 1}", "{1: 'x', '1': 'y', 1.5: 'z', None: 0, (1, 2): 3}", 'Attributes',
                   ('ok', 'str', "'Attributes:\\n  Missing left:\\n   - 1\\n   - 1\\n   - 1.5\\n   - None\\n   - (1, 2)\\n  Missing right:\\n   - a'")),
                  ('diff_mapping', "{'a': 1}", "{1: 'x', '1': 'y', 1.5: 'z', None: 0, (1, 2): 3}", 'variables',
                   ('ok', 'str', "'Variables:\\n  Missing left:\\n   - 1\\n   - 1\\n   - 1.5\\n   - None\\n   - (1, 2)\\n  Missing right:\\n   - a'")),
                  ('diff_mapping', "{'a': 1}", "{1: 'x', '1': 'y', 1.5: 'z', None: 0, (1, 2): 3}", 'x y',
                   ('ok', 'str', "'X Y:\\n  Missing left:\\n   - 1\\n   - 1\\n   - 1.5\\n   - None\\n   - (1, 2)\\n  Missing right:\\n   - a'")),
                  ('diff_mapping', "{'b': 1}", '{}', 'Attributes', ('ok', 'str', "'Attributes:\\n  Missing right:\\n   - b'")),
                  ('diff_mapping', "{'b': 1}", '{}', 'variables', ('ok', 'str', "'Variables:\\n  Missing right:\\n   - b'")),
                  ('diff_mapping', "{'b': 1}", '{}', 'x y', ('ok', 'str', "'X Y:\\n  Missing right:\\n   - b'")),
                  ('diff_mapping', "{'b': 1}", "{'a': 1}", 'Attributes', ('ok', 'str', "'Attributes:\\n  Missing left:\\n   - a\\n  Missing right:\\n   - b'")),
                  ('diff_mapping', "{'b': 1}", "{'a': 1}", 'variables', ('ok', 'str', "'Variables:\\n  Missing left:\\n   - a\\n  Missing right:\\n   - b'")),
                  ('diff_mapping', "{'b': 1}", "{'a': 1}", 'x y', ('ok', 'str', "'X Y:\\n  Missing left:\\n   - a\\n  Missing right:\\n   - b'")),
                  ('diff_mapping', "{'b': 1}", "{'b': 1}", 'Attributes', ('ok', 'str', "'Attributes:\\n'")),
                  ('diff_mapping', "{'b': 1}", "{'b': 1}", 'variables', ('ok', 'str', "'Variables:\\n'")),
                  ('diff_mapping', "{'b': 1}", "{'b': 1}", 'x y', ('ok', 'str', "'X Y:\\n'")),
                  ('diff_mapping', "{'b': 1}", "{'a': 2, 'b': 1}", 'Attributes', ('ok', 'str', "'Attributes:\\n  Missing left:\\n   - a'")),
                  ('diff_mapping', "{'b': 1}", "{'a': 2, 'b': 1}", 'variables', ('ok', 'str', "'Variables:\\n  Missing left:\\n   - a'")),
                  ('diff_mapping', "{'b': 1}", "{'a': 2, 'b': 1}", 'x y', ('ok', 'str', "'X Y:\\n  Missing left:\\n   - a'")),
                  ('diff_mapping', "{'b': 1}", "{'b': 1, 'a': 2}", 'Attributes', ('ok', 'str', "'Attributes:\\n  Missing left:\\n   - a'")),
                  ('diff_mapping', "{'b': 1}", "{'b': 1, 'a': 2}", 'variables', ('ok', 'str', "'Variables:\\n  Missing left:\\n   - a'")),
                  ('diff_mapping', "{'b': 1}", "{'b': 1, 'a': 2}", 'x y', ('ok', 'str', "'X Y:\\n  Missing left:\\n   - a'")),
                  ('diff_mapping', "{'b': 1}", "{'c': None, 'a': 0, 'd': []}", 'Attributes',
                   ('ok', 'str', "'Attributes:\\n  Missing left:\\n   - c\\n   - a\\n   - d\\n  Missing right:\\n   - b'")),
                  ('diff_mapping', "{'b': 1}", "{'c': None, 'a': 0, 'd': []}", 'variables',
                   ('ok', 'str', "'Variables:\\n  Missing left:\\n   - c\\n   - a\\n   - d\\n  Missing right:\\n   - b'")),
                  ('diff_mapping', "{'b': 1}", "{'c': None, 'a': 0, 'd': []}", 'x y',
                   ('ok', 'str', "'X Y:\\n  Missing left:\\n   - c\\n   - a\\n   - d\\n  Missing right:\\n   - b'")),
                  ('diff_mapping', "{'b': 1}", "{'d': 1, 'c': 2, 'b': 3, 'a': 4, 'e': 5}", 'Attributes',
                   ('ok', 'str', "'Attributes:\\n  Missing left:\\n   - d\\n   - c\\n   - a\\n   - e\\n  Differing attributes:\\n     L b  1\\n     R b  3'")),
                  ('diff_mapping', "{'b': 1}", "{'d': 1, 'c': 2, 'b': 3, 'a': 4, 'e': 5}", 'variables',
                   ('ok', 'str', "'Variables:\\n  Missing left:\\n   - d\\n   - c\\n   - a\\n   - e\\n  Differing variables:\\n     L b  1\\n     R b  3'")),
                  ('diff_mapping', "{'b': 1}", "{'d': 1, 'c': 2, 'b': 3, 'a': 4, 'e': 5}", 'x y',
                   ('ok', 'str', "'X Y:\\n  Missing left:\\n   - d\\n   - c\\n   - a\\n   - e\\n  Differing x y:\\n     L b  1\\n     R b  3'")),
                  ('diff_mapping', "{'b': 1}", "{1: 'x', '1': 'y', 1.5: 'z', None: 0, (1, 2): 3}", 'Attributes',
                   ('ok', 'str', "'Attributes:\\n  Missing left:\\n   - 1\\n   - 1\\n   - 1.5\\n   - None\\n   - (1, 2)\\n  Missing right:\\n   - b'")),
                  ('diff_mapping', "{'b': 1}", "{1: 'x', '1': 'y', 1.5: 'z', None: 0, (1, 2): 3}", 'variables',
                   ('ok', 'str', "'Variables:\\n  Missing left:\\n   - 1\\n   - 1\\n   - 1.5\\n   - None\\n   - (1, 2)\\n  Missing right:\\n   - b'")),
                  ('diff_mapping', "{'b': 1}", "{1: 'x', '1': 'y', 1.5: 'z', None: 0, (1, 2): 3}", 'x y',
                   ('ok', 'str', "'X Y:\\n  Missing left:\\n   - 1\\n   - 1\\n   - 1.5\\n   - None\\n   - (1, 2)\\n  Missing right:\\n   - b'")),
                  ('diff_mapping', "{'a': 2, 'b': 1}", '{}', 'Attributes', ('ok', 'str', "'Attributes:\\n  Missing right:\\n   - a\\n   - b'")),
                  ('diff_mapping', "{'a': 2, 'b': 1}", '{}', 'variables', ('ok', 'str', "'Variables:\\n  Missing right:\\n   - a\\n   - b'")),
                  ('diff_mapping', "{'a': 2, 'b': 1}", '{}', 'x y', ('ok', 'str', "'X Y:\\n  Missing right:\\n   - a\\n   - b'")),
                  ('diff_mapping', "{'a': 2, 'b': 1}", "{'a': 1}", 'Attributes',
                   ('ok', 'str', "'Attributes:\\n  Missing right:\\n   - b\\n  Differing attributes:\\n     L a  2\\n     R a  1'")),
                  ('diff_mapping', "{'a': 2, 'b': 1}", "{'a': 1}", 'variables',
                   ('ok', 'str', "'Variables:\\n  Missing right:\\n   - b\\n  Differing variables:\\n     L a  2\\n     R a  1'")),
                  ('diff_mapping', "{'a': 2, 'b': 1}", "{'a': 1}", 'x y',
                   ('ok', 'str', "'X Y:\\n  Missing right:\\n   - b\\n  Differing x y:\\n     L a  2\\n     R a  1'")),
                  ('diff_mapping', "{'a': 2, 'b': 1}", "{'b': 1}", 'Attributes', ('ok', 'str', "'Attributes:\\n  Missing right:\\n   - a'")),
                  ('diff_mapping', "{'a': 2, 'b': 1}", "{'b': 1}", 'variables', ('ok', 'str', "'Variables:\\n  Missing right:\\n   - a'")),
                  ('diff_mapping', "{'a': 2, 'b': 1}", "{'b': 1}", 'x y', ('ok', 'str', "'X Y:\\n  Missing right:\\n   - a'")),
                  ('diff_mapping', "{'a': 2, 'b': 1}", "{'a': 2, 'b': 1}", 'Attributes', ('ok', 'str', "'Attributes:\\n'")),
                  ('diff_mapping', "{'a': 2, 'b': 1}", "{'a': 2, 'b': 1}", 'variables', ('ok', 'str', "'Variables:\\n'")),
                  ('diff_mapping', "{'a': 2, 'b': 1}", "{'a': 2, 'b': 1}", 'x y', ('ok', 'str', "'X Y:\\n'")),
                  ('diff_mapping', "{'a': 2, 'b': 1}", "{'b': 1, 'a': 2}", 'Attributes', ('ok', 'str', "'Attributes:\\n'")),
                  ('diff_mapping', "{'a': 2, 'b': 1}", "{'b': 1, 'a': 2}", 'variables', ('ok', 'str', "'Variables:\\n'")),
                  ('diff_mapping', "{'a': 2, 'b': 1}", "{'b': 1, 'a': 2}", 'x y', ('ok', 'str', "'X Y:\\n'")),
                  ('diff_mapping', "{'a': 2, 'b': 1}", "{'c': None, 'a': 0, 'd': []}", 'Attributes',
                   ('ok', 'str',
                    "'Attributes:\\n  Missing left:\\n   - c\\n   - d\\n  Missing right:\\n   - b\\n  Differing attributes:\\n     L a  2\\n     R a  0'")),
                  ('diff_mapping', "{'a': 2, 'b': 1}", "{'c': None, 'a': 0, 'd': []}", 'variables',
                   ('ok', 'str',
                    "'Variables:\\n  Missing left:\\n   - c\\n   - d\\n  Missing right:\\n   - b\\n  Differing variables:\\n     L a  2\\n     R a  0'")),
                  ('diff_mapping', "{'a': 2, 'b': 1}", "{'c': None, 'a': 0, 'd': []}", 'x y',
                   ('ok', 'str', "'X Y:\\n  Missing left:\\n   - c\\n   - d\\n  Missing right:\\n   - b\\n  Differing x y:\\n     L a  2\\n     R a  0'")),
                  ('diff_mapping', "{'a': 2, 'b': 1}", "{'d': 1, 'c': 2, 'b': 3, 'a': 4, 'e': 5}", 'Attributes',
                   ('ok', 'str',
                    "'Attributes:\\n  Missing left:\\n   - d\\n   - c\\n   - e\\n  Differing attributes:\\n     L a  2\\n     R a  4\\n     L b  1\\n     R b  "
                    "3'")),
                  ('diff_mapping', "{'a': 2, 'b': 1}", "{'d': 1, 'c': 2, 'b': 3, 'a': 4, 'e': 5}", 'variables',
                   ('ok', 'str',
                    "'Variables:\\n  Missing left:\\n   - d\\n   - c\\n   - e\\n  Differing variables:\\n     L a  2\\n     R a  4\\n     L b  1\\n     R b  "
                    "3'")),
                  ('diff_mapping', "{'a': 2, 'b': 1}", "{'d': 1, 'c': 2, 'b': 3, 'a': 4, 'e': 5}", 'x y',
                   ('ok', 'str',
                    "'X Y:\\n  Missing left:\\n   - d\\n   - c\\n   - e\\n  Differing x y:\\n     L a  2\\n     R a  4\\n     L b  1\\n     R b  3'")),
                  ('diff_mapping', "{'a': 2, 'b': 1}", "{1: 'x', '1': 'y', 1.5: 'z', None: 0, (1, 2): 3}", 'Attributes',
                   ('ok', 'str',
                    "'Attributes:\\n  Missing left:\\n   - 1\\n   - 1\\n   - 1.5\\n   - None\\n   - (1, 2)\\n  Missing right:\\n   - a\\n   - b'")),
                  ('diff_mapping', "{'a': 2, 'b': 1}", "{1: 'x', '1': 'y', 1.5: 'z', None: 0, (1, 2): 3}", 'variables',
                   ('ok', 'str', "'Variables:\\n  Missing left:\\n   - 1\\n   - 1\\n   - 1.5\\n   - None\\n   - (1, 2)\\n  Missing right:\\n   - a\\n   - b'")),
                  ('diff_mapping', "{'a': 2, 'b': 1}", "{1: 'x', '1': 'y', 1.5: 'z', None: 0, (1, 2): 3}", 'x y',
                   ('ok', 'str', "'X Y:\\n  Missing left:\\n   - 1\\n   - 1\\n   - 1.5\\n   - None\\n   - (1, 2)\\n  Missing right:\\n   - a\\n   - b'")),
                  ('diff_mapping', "{'b': 1, 'a': 2}", '{}', 'Attributes', ('ok', 'str', "'Attributes:\\n  Missing right:\\n   - b\\n   - a'")),
                  ('diff_mapping', "{'b': 1, 'a': 2}", '{}', 'variables', ('ok', 'str', "'Variables:\\n  Missing right:\\n   - b\\n   - a'")),
                  ('diff_mapping', "{'b': 1, 'a': 2}", '{}', 'x y', ('ok', 'str', "'X Y:\\n  Missing right:\\n   - b\\n   - a'")),
                  ('diff_mapping', "{'b': 1, 'a': 2}", "{'a': 1}", 'Attributes',
                   ('ok', 'str', "'Attributes:\\n  Missing right:\\n   - b\\n  Differing attributes:\\n     L a  2\\n     R a  1'")),
                  ('diff_mapping', "{'b': 1, 'a': 2}", "{'a': 1}", 'variables',
                   ('ok', 'str', "'Variables:\\n  Missing right:\\n   - b\\n  Differing variables:\\n     L a  2\\n     R a  1'")),
                  ('diff_mapping', "{'b': 1, 'a': 2}", "{'a': 1}", 'x y',
                   ('ok', 'str', "'X Y:\\n  Missing right:\\n   - b\\n  Differing x y:\\n     L a  2\\n     R a  1'")),
                  ('diff_mapping', "{'b': 1, 'a': 2}", "{'b': 1}", 'Attributes', ('ok', 'str', "'Attributes:\\n  Missing right:\\n   - a'")),
                  ('diff_mapping', "{'b': 1, 'a': 2}", "{'b': 1}", 'variables', ('ok', 'str', "'Variables:\\n  Missing right:\\n   - a'")),
                  ('diff_mapping', "{'b': 1, 'a': 2}", "{'b': 1}", 'x y', ('ok', 'str', "'X Y:\\n  Missing right:\\n   - a'")),
                  ('diff_mapping', "{'b': 1, 'a': 2}", "{'a': 2, 'b': 1}", 'Attributes', ('ok', 'str', "'Attributes:\\n'")),
                  ('diff_mapping', "{'b': 1, 'a': 2}", "{'a': 2, 'b': 1}", 'variables', ('ok', 'str', "'Variables:\\n'")),
                  ('diff_mapping', "{'b': 1, 'a': 2}", "{'a': 2, 'b': 1}", 'x y', ('ok', 'str', "'X Y:\\n'")),
                  ('diff_mapping', "{'b': 1, 'a': 2}", "{'b': 1, 'a': 2}", 'Attributes', ('ok', 'str', "'Attributes:\\n'")),
                  ('diff_mapping', "{'b': 1, 'a': 2}", "{'b': 1, 'a': 2}", 'variables', ('ok', 'str', "'Variables:\\n'")),
                  ('diff_mapping', "{'b': 1, 'a': 2}", "{'b': 1, 'a': 2}", 'x y', ('ok', 'str', "'X Y:\\n'")),
                  ('diff_mapping', "{'b': 1, 'a': 2}", "{'c': None, 'a': 0, 'd': []}", 'Attributes',
                   ('ok', 'str',
                    "'Attributes:\\n  Missing left:\\n   - c\\n   - d\\n  Missing right:\\n   - b\\n  Differing attributes:\\n     L a  2\\n     R a  0'")),
                  ('diff_mapping', "{'b': 1, 'a': 2}", "{'c': None, 'a': 0, 'd': []}", 'variables',
                   ('ok', 'str',
                    "'Variables:\\n  Missing left:\\n   - c\\n   - d\\n  Missing right:\\n   - b\\n  Differing variables:\\n     L a  2\\n     R a  0'")),
                  ('diff_mapping', "{'b': 1, 'a': 2}", "{'c': None, 'a': 0, 'd': []}", 'x y',
                   ('ok', 'str', "'X Y:\\n  Missing left:\\n   - c\\n   - d\\n  Missing right:\\n   - b\\n  Differing x y:\\n     L a  2\\n     R a  0'")),
                  ('diff_mapping', "{'b': 1, 'a': 2}", "{'d': 1, 'c': 2, 'b': 3, 'a': 4, 'e': 5}", 'Attributes',
                   ('ok', 'str',
                    "'Attributes:\\n  Missing left:\\n   - d\\n   - c\\n   - e\\n  Differing attributes:\\n     L b  1\\n     R b  3\\n     L a  2\\n     R a  "
                    "4'")),
                  ('diff_mapping', "{'b': 1, 'a': 2}", "{'d': 1, 'c': 2, 'b': 3, 'a': 4, 'e': 5}", 'variables',
                   ('ok', 'str',
                    "'Variables:\\n  Missing left:\\n   - d\\n   - c\\n   - e\\n  Differing variables:\\n     L b  1\\n     R b  3\\n     L a  2\\n     R a  "
                    "4'")),
                  ('diff_mapping', "{'b': 1, 'a': 2}", "{'d': 1, 'c': 2, 'b': 3, 'a': 4, 'e': 5}", 'x y',
                   ('ok', 'str',
                    "'X Y:\\n  Missing left:\\n   - d\\n   - c\\n   - e\\n  Differing x y:\\n     L b  1\\n     R b  3\\n     L a  2\\n     R a  4'")),
                  ('diff_mapping', "{'b': 1, 'a': 2}", "{1: 'x', '1': 'y', 1.5: 'z', None: 0, (1, 2): 3}", 'Attributes',
                   ('ok', 'str',
                    "'Attributes:\\n  Missing left:\\n   - 1\\n   - 1\\n   - 1.5\\n   - None\\n   - (1, 2)\\n  Missing right:\\n   - b\\n   - a'")),
                  ('diff_mapping', "{'b': 1, 'a': 2}", "{1: 'x', '1': 'y', 1.5: 'z', None: 0, (1, 2): 3}", 'variables',
                   ('ok', 'str', "'Variables:\\n  Missing left:\\n   - 1\\n   - 1\\n   - 1.5\\n   - None\\n   - (1, 2)\\n  Missing right:\\n   - b\\n   - a'")),
                  ('diff_mapping', "{'b': 1, 'a': 2}", "{1: 'x', '1': 'y', 1.5: 'z', None: 0, (1, 2): 3}", 'x y',
                   ('ok', 'str', "'X Y:\\n  Missing left:\\n   - 1\\n   - 1\\n   - 1.5\\n   - None\\n   - (1, 2)\\n  Missing right:\\n   - b\\n   - a'")),
                  ('diff_mapping', "{'c': None, 'a': 0, 'd': []}", '{}', 'Attributes',
                   ('ok', 'str', "'Attributes:\\n  Missing right:\\n   - c\\n   - a\\n   - d'")),
                  ('diff_mapping', "{'c': None, 'a': 0, 'd': []}", '{}', 'variables',
                   ('ok', 'str', "'Variables:\\n  Missing right:\\n   - c\\n   - a\\n   - d'")),
                  ('diff_mapping', "{'c': None, 'a': 0, 'd': []}", '{}', 'x y', ('ok', 'str', "'X Y:\\n  Missing right:\\n   - c\\n   - a\\n   - d'")),
                  ('diff_mapping', "{'c': None, 'a': 0, 'd': []}", "{'a': 1}", 'Attributes',
                   ('ok', 'str', "'Attributes:\\n  Missing right:\\n   - c\\n   - d\\n  Differing attributes:\\n     L a  0\\n     R a  1'")),
                  ('diff_mapping', "{'c': None, 'a': 0, 'd': []}", "{'a': 1}", 'variables',
                   ('ok', 'str', "'Variables:\\n  Missing right:\\n   - c\\n   - d\\n  Differing variables:\\n     L a  0\\n     R a  1'")),
                  ('diff_mapping', "{'c': None, 'a': 0, 'd': []}", "{'a': 1}", 'x y',
                   ('ok', 'str', "'X Y:\\n  Missing right:\\n   - c\\n   - d\\n  Differing x y:\\n     L a  0\\n     R a  1'")),
                  ('diff_mapping', "{'c': None, 'a': 0, 'd': []}", "{'b': 1}", 'Attributes',
                   ('ok', 'str', "'Attributes:\\n  Missing left:\\n   - b\\n  Missing right:\\n   - c\\n   - a\\n   - d'")),
                  ('diff_mapping', "{'c': None, 'a': 0, 'd': []}", "{'b': 1}", 'variables',
                   ('ok', 'str', "'Variables:\\n  Missing left:\\n   - b\\n  Missing right:\\n   - c\\n   - a\\n   - d'")),
                  ('diff_mapping', "{'c': None, 'a': 0, 'd': []}", "{'b': 1}", 'x y',
                   ('ok', 'str', "'X Y:\\n  Missing left:\\n   - b\\n  Missing right:\\n   - c\\n   - a\\n   - d'")),
                  ('diff_mapping', "{'c': None, 'a': 0, 'd': []}", "{'a': 2, 'b': 1}", 'Attributes',
                   ('ok', 'str',
                    "'Attributes:\\n  Missing left:\\n   - b\\n  Missing right:\\n   - c\\n   - d\\n  Differing attributes:\\n     L a  0\\n     R a  2'")),
                  ('diff_mapping', "{'c': None, 'a': 0, 'd': []}", "{'a': 2, 'b': 1}", 'variables',
                   ('ok', 'str',
                    "'Variables:\\n  Missing left:\\n   - b\\n  Missing right:\\n   - c\\n   - d\\n  Differing variables:\\n     L a  0\\n     R a  2'")),
                  ('diff_mapping', "{'c': None, 'a': 0, 'd': []}", "{'a': 2, 'b': 1}", 'x y',
                   ('ok', 'str', "'X Y:\\n  Missing left:\\n   - b\\n  Missing right:\\n   - c\\n   - d\\n  Differing x y:\\n     L a  0\\n     R a  2'")),
                  ('diff_mapping', "{'c': None, 'a': 0, 'd': []}", "{'b': 1, 'a': 2}", 'Attributes',
                   ('ok', 'str',
                    "'Attributes:\\n  Missing left:\\n   - b\\n  Missing right:\\n   - c\\n   - d\\n  Differing attributes:\\n     L a  0\\n     R a  2'")),
                  ('diff_mapping', "{'c': None, 'a': 0, 'd': []}", "{'b': 1, 'a': 2}", 'variables',
                   ('ok', 'str',
                    "'Variables:\\n  Missing left:\\n   - b\\n  Missing right:\\n   - c\\n   - d\\n  Differing variables:\\n     L a  0\\n     R a  2'")),
                  ('diff_mapping', "{'c': None, 'a': 0, 'd': []}", "{'b': 1, 'a': 2}", 'x y',
                   ('ok', 'str', "'X Y:\\n  Missing left:\\n   - b\\n  Missing right:\\n   - c\\n   - d\\n  Differing x y:\\n     L a  0\\n     R a  2'")),
                  ('diff_mapping', "{'c': None, 'a': 0, 'd': []}", "{'c': None, 'a': 0, 'd': []}", 'Attributes', ('ok', 'str', "'Attributes:\\n'")),
                  ('diff_mapping', "{'c': None, 'a': 0, 'd': []}", "{'c': None, 'a': 0, 'd': []}", 'variables', ('ok', 'str', "'Variables:\\n'")),
                  ('diff_mapping', "{'c': None, 'a': 0, 'd': []}", "{'c': None, 'a': 0, 'd': []}", 'x y', ('ok', 'str', "'X Y:\\n'")),
                  ('diff_mapping', "{'c': None, 'a': 0, 'd': []}", "{'d': 1, 'c': 2, 'b': 3, 'a': 4, 'e': 5}", 'Attributes',
                   ('ok', 'str',
                    "'Attributes:\\n  Missing left:\\n   - b\\n   - e\\n  Differing attributes:\\n     L c  None\\n     R c  2\\n     L a  0\\n     R a  "
                    "4\\n     L d  []\\n     R d  1'")),
                  ('diff_mapping', "{'c': None, 'a': 0, 'd': []}", "{'d': 1, 'c': 2, 'b': 3, 'a': 4, 'e': 5}", 'variables',
                   ('ok', 'str',
                    "'Variables:\\n  Missing left:\\n   - b\\n   - e\\n  Differing variables:\\n     L c  None\\n     R c  2\\n     L a  0\\n     R a  "
                    "4\\n     L d  []\\n     R d  1'")),
                  ('diff_mapping', "{'c': None, 'a': 0, 'd': []}", "{'d': 1, 'c': 2, 'b': 3, 'a': 4, 'e': 5}", 'x y',
                   ('ok', 'str',
                    "'X Y:\\n  Missing left:\\n   - b\\n   - e\\n  Differing x y:\\n     L c  None\\n     R c  2\\n     L a  0\\n     R a  4\\n     L d  "
                    "[]\\n     R d  1'")),
                  ('diff_mapping', "{'c': None, 'a': 0, 'd': []}", "{1: 'x', '1': 'y', 1.5: 'z', None: 0, (1, 2): 3}", 'Attributes',
                   ('ok', 'str',
                    "'Attributes:\\n  Missing left:\\n   - 1\\n   - 1\\n   - 1.5\\n   - None\\n   - (1, 2)\\n  Missing right:\\n   - c\\n   - a\\n   - d'")),
                  ('diff_mapping', "{'c': None, 'a': 0, 'd': []}", "{1: 'x', '1': 'y', 1.5: 'z', None: 0, (1, 2): 3}", 'variables',
                   ('ok', 'str',
                    "'Variables:\\n  Missing left:\\n   - 1\\n   - 1\\n   - 1.5\\n   - None\\n   - (1, 2)\\n  Missing right:\\n   - c\\n   - a\\n   - d'")),
                  ('diff_mapping', "{'c': None, 'a': 0, 'd': []}", "{1: 'x', '1': 'y', 1.5: 'z', None: 0, (1, 2): 3}", 'x y',
                   ('ok', 'str',
                    "'X Y:\\n  Missing left:\\n   - 1\\n   - 1\\n   - 1.5\\n   - None\\n   - (1, 2)\\n  Missing right:\\n   - c\\n   - a\\n   - d'")),
                  ('diff_mapping', "{'d': 1, 'c': 2, 'b': 3, 'a': 4, 'e': 5}", '{}', 'Attributes',
                   ('ok', 'str', "'Attributes:\\n  Missing right:\\n   - d\\n   - c\\n   - b\\n   - a\\n   - e'")),
                  ('diff_mapping', "{'d': 1, 'c': 2, 'b': 3, 'a': 4, 'e': 5}", '{}', 'variables',
                   ('ok', 'str', "'Variables:\\n  Missing right:\\n   - d\\n   - c\\n   - b\\n   - a\\n   - e'")),
                  ('diff_mapping', "{'d': 1, 'c': 2, 'b': 3, 'a': 4, 'e': 5}", '{}', 'x y',
                   ('ok', 'str', "'X Y:\\n  Missing right:\\n   - d\\n   - c\\n   - b\\n   - a\\n   - e'")),
                  ('diff_mapping', "{'d': 1, 'c': 2, 'b': 3, 'a': 4, 'e': 5}", "{'a': 1}", 'Attributes',
                   ('ok', 'str', "'Attributes:\\n  Missing right:\\n   - d\\n   - c\\n   - b\\n   - e\\n  Differing attributes:\\n     L a  4\\n     R a  1'")),
                  ('diff_mapping', "{'d': 1, 'c': 2, 'b': 3, 'a': 4, 'e': 5}", "{'a': 1}", 'variables',
                   ('ok', 'str', "'Variables:\\n  Missing right:\\n   - d\\n   - c\\n   - b\\n   - e\\n  Differing variables:\\n     L a  4\\n     R a  1'")),
                  ('diff_mapping', "{'d': 1, 'c': 2, 'b': 3, 'a': 4, 'e': 5}", "{'a': 1}", 'x y',
                   ('ok', 'str', "'X Y:\\n  Missing right:\\n   - d\\n   - c\\n   - b\\n   - e\\n  Differing x y:\\n     L a  4\\n     R a  1'")),
                  ('diff_mapping', "{'d': 1, 'c': 2, 'b': 3, 'a': 4, 'e': 5}", "{'b': 1}", 'Attributes',
                   ('ok', 'str', "'Attributes:\\n  Missing right:\\n   - d\\n   - c\\n   - a\\n   - e\\n  Differing attributes:\\n     L b  3\\n     R b  1'")),
                  ('diff_mapping', "{'d': 1, 'c': 2, 'b': 3, 'a': 4, 'e': 5}", "{'b': 1}", 'variables',
                   ('ok', 'str', "'Variables:\\n  Missing right:\\n   - d\\n   - c\\n   - a\\n   - e\\n  Differing variables:\\n     L b  3\\n     R b  1'")),
                  ('diff_mapping', "{'d': 1, 'c': 2, 'b': 3, 'a': 4, 'e': 5}", "{'b': 1}", 'x y',
                   ('ok', 'str', "'X Y:\\n  Missing right:\\n   - d\\n   - c\\n   - a\\n   - e\\n  Differing x y:\\n     L b  3\\n     R b  1'")),
                  ('diff_mapping', "{'d': 1, 'c': 2, 'b': 3, 'a': 4, 'e': 5}", "{'a': 2, 'b': 1}", 'Attributes',
                   ('ok', 'str',
                    "'Attributes:\\n  Missing right:\\n   - d\\n   - c\\n   - e\\n  Differing attributes:\\n     L b  3\\n     R b  1\\n     L a  4\\n     R "
                    "a  2'")),
                  ('diff_mapping', "{'d': 1, 'c': 2, 'b': 3, 'a': 4, 'e': 5}", "{'a': 2, 'b': 1}", 'variables',
                   ('ok', 'str',
                    "'Variables:\\n  Missing right:\\n   - d\\n   - c\\n   - e\\n  Differing variables:\\n     L b  3\\n     R b  1\\n     L a  4\\n     R a  "
                    "2'")),
                  ('diff_mapping', "{'d': 1, 'c': 2, 'b': 3, 'a': 4, 'e': 5}", "{'a': 2, 'b': 1}", 'x y',
                   ('ok', 'str',
                    "'X Y:\\n  Missing right:\\n   - d\\n   - c\\n   - e\\n  Differing x y:\\n     L b  3\\n     R b  1\\n     L a  4\\n     R a  2'")),
                  ('diff_mapping', "{'d': 1, 'c': 2, 'b': 3, 'a': 4, 'e': 5}", "{'b': 1, 'a': 2}", 'Attributes',
                   ('ok', 'str',
                    "'Attributes:\\n  Missing right:\\n   - d\\n   - c\\n   - e\\n  Differing attributes:\\n     L b  3\\n     R b  1\\n     L a  4\\n     R "
                    "a  2'")),
                  ('diff_mapping', "{'d': 1, 'c': 2, 'b': 3, 'a': 4, 'e': 5}", "{'b': 1, 'a': 2}", 'variables',
                   ('ok', 'str',
                    "'Variables:\\n  Missing right:\\n   - d\\n   - c\\n   - e\\n  Differing variables:\\n     L b  3\\n     R b  1\\n     L a  4\\n     R a  "
                    "2'")),
                  ('diff_mapping', "{'d': 1, 'c': 2, 'b': 3, 'a': 4, 'e': 5}", "{'b': 1, 'a': 2}", 'x y',
                   ('ok', 'str',
                    "'X Y:\\n  Missing right:\\n   - d\\n   - c\\n   - e\\n  Differing x y:\\n     L b  3\\n     R b  1\\n     L a  4\\n     R a  2'")),
                  ('diff_mapping', "{'d': 1, 'c': 2, 'b': 3, 'a': 4, 'e': 5}", "{'c': None, 'a': 0, 'd': []}", 'Attributes',
                   ('ok', 'str',
                    "'Attributes:\\n  Missing right:\\n   - b\\n   - e\\n  Differing attributes:\\n     L d  1\\n     R d  []\\n     L c  2\\n     R c  "
                    "None\\n     L a  4\\n     R a  0'")),
                  ('diff_mapping', "{'d': 1, 'c': 2, 'b': 3, 'a': 4, 'e': 5}", "{'c': None, 'a': 0, 'd': []}", 'variables',
                   ('ok', 'str',
                    "'Variables:\\n  Missing right:\\n   - b\\n   - e\\n  Differing variables:\\n     L d  1\\n     R d  []\\n     L c  2\\n     R c  "
                    "None\\n     L a  4\\n     R a  0'")),
                  ('diff_mapping', "{'d': 1, 'c': 2, 'b': 3, 'a': 4, 'e': 5}", "{'c': None, 'a': 0, 'd': []}", 'x y',
                   ('ok', 'str',
                    "'X Y:\\n  Missing right:\\n   - b\\n   - e\\n  Differing x y:\\n     L d  1\\n     R d  []\\n     L c  2\\n     R c  None\\n     L a  "
                    "4\\n     R a  0'")),
                  ('diff_mapping', "{'d': 1, 'c': 2, 'b': 3, 'a': 4, 'e': 5}", "{'d': 1, 'c': 2, 'b': 3, 'a': 4, 'e': 5}", 'Attributes',
                   ('ok', 'str', "'Attributes:\\n'")),
                  ('diff_mapping', "{'d': 1, 'c': 2, 'b': 3, 'a': 4, 'e': 5}", "{'d': 1, 'c': 2, 'b': 3, 'a': 4, 'e': 5}", 'variables',
                   ('ok', 'str', "'Variables:\\n'")),
                  ('diff_mapping', "{'d': 1, 'c': 2, 'b': 3, 'a': 4, 'e': 5}", "{'d': 1, 'c': 2, 'b': 3, 'a': 4, 'e': 5}", 'x y', ('ok', 'str', "'X Y:\\n'")),
                  ('diff_mapping', "{'d': 1, 'c': 2, 'b': 3, 'a': 4, 'e': 5}", "{1: 'x', '1': 'y', 1.5: 'z', None: 0, (1, 2): 3}", 'Attributes',
                   ('ok', 'str',
                    "'Attributes:\\n  Missing left:\\n   - 1\\n   - 1\\n   - 1.5\\n   - None\\n   - (1, 2)\\n  Missing right:\\n   - d\\n   - c\\n   - b\\n   "
                    "- a\\n   - e'")),
                  ('diff_mapping', "{'d': 1, 'c': 2, 'b': 3, 'a': 4, 'e': 5}", "{1: 'x', '1': 'y', 1.5: 'z', None: 0, (1, 2): 3}", 'variables',
                   ('ok', 'str',
                    "'Variables:\\n  Missing left:\\n   - 1\\n   - 1\\n   - 1.5\\n   - None\\n   - (1, 2)\\n  Missing right:\\n   - d\\n   - c\\n   - b\\n   - "
                    "a\\n   - e'")),
                  ('diff_mapping', "{'d': 1, 'c': 2, 'b': 3, 'a': 4, 'e': 5}", "{1: 'x', '1': 'y', 1.5: 'z', None: 0, (1, 2): 3}", 'x y',
                   ('ok', 'str',
                    "'X Y:\\n  Missing left:\\n   - 1\\n   - 1\\n   - 1.5\\n   - None\\n   - (1, 2)\\n  Missing right:\\n   - d\\n   - c\\n   - b\\n   - "
                    "a\\n   - e'")),
                  ('diff_mapping', "{1: 'x', '1': 'y', 1.5: 'z', None: 0, (1, 2): 3}", '{}', 'Attributes',
                   ('ok', 'str', "'Attributes:\\n  Missing right:\\n   - 1\\n   - 1\\n   - 1.5\\n   - None\\n   - (1, 2)'")),
                  ('diff_mapping', "{1: 'x', '1': 'y', 1.5: 'z', None: 0, (1, 2): 3}", '{}', 'variables',
                   ('ok', 'str', "'Variables:\\n  Missing right:\\n   - 1\\n   - 1\\n   - 1.5\\n   - None\\n   - (1, 2)'")),
                  ('diff_mapping', "{1: 'x', '1': 'y', 1.5: 'z', None: 0, (1, 2): 3}", '{}', 'x y',
                   ('ok', 'str', "'X Y:\\n  Missing right:\\n   - 1\\n   - 1\\n   - 1.5\\n   - None\\n   - (1, 2)'")),
                  ('diff_mapping', "{1: 'x', '1': 'y', 1.5: 'z', None: 0, (1, 2): 3}", "{'a': 1}", 'Attributes',
                   ('ok', 'str', "'Attributes:\\n  Missing left:\\n   - a\\n  Missing right:\\n   - 1\\n   - 1\\n   - 1.5\\n   - None\\n   - (1, 2)'")),
                  ('diff_mapping', "{1: 'x', '1': 'y', 1.5: 'z', None: 0, (1, 2): 3}", "{'a': 1}", 'variables',
                   ('ok', 'str', "'Variables:\\n  Missing left:\\n   - a\\n  Missing right:\\n   - 1\\n   - 1\\n   - 1.5\\n   - None\\n   - (1, 2)'")),
                  ('diff_mapping', "{1: 'x', '1': 'y', 1.5: 'z', None: 0, (1, 2): 3}", "{'a': 1}", 'x y',
                   ('ok', 'str', "'X Y:\\n  Missing left:\\n   - a\\n  Missing right:\\n   - 1\\n   - 1\\n   - 1.5\\n   - None\\n   - (1, 2)'")),
                  ('diff_mapping', "{1: 'x', '1': 'y', 1.5: 'z', None: 0, (1, 2): 3}", "{'b': 1}", 'Attributes',
                   ('ok', 'str', "'Attributes:\\n  Missing left:\\n   - b\\n  Missing right:\\n   - 1\\n   - 1\\n   - 1.5\\n   - None\\n   - (1, 2)'")),
                  ('diff_mapping', "{1: 'x', '1': 'y', 1.5: 'z', None: 0, (1, 2): 3}", "{'b': 1}", 'variables',
                   ('ok', 'str', "'Variables:\\n  Missing left:\\n   - b\\n  Missing right:\\n   - 1\\n   - 1\\n   - 1.5\\n   - None\\n   - (1, 2)'")),
                  ('diff_mapping', "{1: 'x', '1': 'y', 1.5: 'z', None: 0, (1, 2): 3}", "{'b': 1}", 'x y',
                   ('ok', 'str', "'X Y:\\n  Missing left:\\n   - b\\n  Missing right:\\n   - 1\\n   - 1\\n   - 1.5\\n   - None\\n   - (1, 2)'")),
                  ('diff_mapping', "{1: 'x', '1': 'y', 1.5: 'z', None: 0, (1, 2): 3}", "{'a': 2, 'b': 1}", 'Attributes',
                   ('ok', 'str',
                    "'Attributes:\\n  Missing left:\\n   - a\\n   - b\\n  Missing right:\\n   - 1\\n   - 1\\n   - 1.5\\n   - None\\n   - (1, 2)'")),
                  ('diff_mapping', "{1: 'x', '1': 'y', 1.5: 'z', None: 0, (1, 2): 3}", "{'a': 2, 'b': 1}", 'variables',
                   ('ok', 'str', "'Variables:\\n  Missing left:\\n   - a\\n   - b\\n  Missing right:\\n   - 1\\n   - 1\\n   - 1.5\\n   - None\\n   - (1, 2)'")),
                  ('diff_mapping', "{1: 'x', '1': 'y', 1.5: 'z', None: 0, (1, 2): 3}", "{'a': 2, 'b': 1}", 'x y',
                   ('ok', 'str', "'X Y:\\n  Missing left:\\n   - a\\n   - b\\n  Missing right:\\n   - 1\\n   - 1\\n   - 1.5\\n   - None\\n   - (1, 2)'")),
                  ('diff_mapping', "{1: 'x', '1': 'y', 1.5: 'z', None: 0, (1, 2): 3}", "{'b': 1, 'a': 2}", 'Attributes',
                   ('ok', 'str',
                    "'Attributes:\\n  Missing left:\\n   - b\\n   - a\\n  Missing right:\\n   - 1\\n   - 1\\n   - 1.5\\n   - None\\n   - (1, 2)'")),
                  ('diff_mapping', "{1: 'x', '1': 'y', 1.5: 'z', None: 0, (1, 2): 3}", "{'b': 1, 'a': 2}", 'variables',
                   ('ok', 'str', "'Variables:\\n  Missing left:\\n   - b\\n   - a\\n  Missing right:\\n   - 1\\n   - 1\\n   - 1.5\\n   - None\\n   - (1, 2)'")),
                  ('diff_mapping', "{1: 'x', '1': 'y', 1.5: 'z', None: 0, (1, 2): 3}", "{'b': 1, 'a': 2}", 'x y',
                   ('ok', 'str', "'X Y:\\n  Missing left:\\n   - b\\n   - a\\n  Missing right:\\n   - 1\\n   - 1\\n   - 1.5\\n   - None\\n   - (1, 2)'")),
                  ('diff_mapping', "{1: 'x', '1': 'y', 1.5: 'z', None: 0, (1, 2): 3}", "{'c': None, 'a': 0, 'd': []}", 'Attributes',
                   ('ok', 'str',
                    "'Attributes:\\n  Missing left:\\n   - c\\n   - a\\n   - d\\n  Missing right:\\n   - 1\\n   - 1\\n   - 1.5\\n   - None\\n   - (1, 2)'")),
                  ('diff_mapping', "{1: 'x', '1': 'y', 1.5: 'z', None: 0, (1, 2): 3}", "{'c': None, 'a': 0, 'd': []}", 'variables',
                   ('ok', 'str',
                    "'Variables:\\n  Missing left:\\n   - c\\n   - a\\n   - d\\n  Missing right:\\n   - 1\\n   - 1\\n   - 1.5\\n   - None\\n   - (1, 2)'")),
                  ('diff_mapping', "{1: 'x', '1': 'y', 1.5: 'z', None: 0, (1, 2): 3}", "{'c': None, 'a': 0, 'd': []}", 'x y',
                   ('ok', 'str',
                    "'X Y:\\n  Missing left:\\n   - c\\n   - a\\n   - d\\n  Missing right:\\n   - 1\\n   - 1\\n   - 1.5\\n   - None\\n   - (1, 2)'")),
                  ('diff_mapping', "{1: 'x', '1': 'y', 1.5: 'z', None: 0, (1, 2): 3}", "{'d': 1, 'c': 2, 'b': 3, 'a': 4, 'e': 5}", 'Attributes',
                   ('ok', 'str',
                    "'Attributes:\\n  Missing left:\\n   - d\\n   - c\\n   - b\\n   - a\\n   - e\\n  Missing right:\\n   - 1\\n   - 1\\n   - 1.5\\n   - "
                    "None\\n   - (1, 2)'")),
                  ('diff_mapping', "{1: 'x', '1': 'y', 1.5: 'z', None: 0, (1, 2): 3}", "{'d': 1, 'c': 2, 'b': 3, 'a': 4, 'e': 5}", 'variables',
                   ('ok', 'str',
                    "'Variables:\\n  Missing left:\\n   - d\\n   - c\\n   - b\\n   - a\\n   - e\\n  Missing right:\\n   - 1\\n   - 1\\n   - 1.5\\n   - "
                    "None\\n   - (1, 2)'")),
                  ('diff_mapping', "{1: 'x', '1': 'y', 1.5: 'z', None: 0, (1, 2): 3}", "{'d': 1, 'c': 2, 'b': 3, 'a': 4, 'e': 5}", 'x y',
                   ('ok', 'str',
                    "'X Y:\\n  Missing left:\\n   - d\\n   - c\\n   - b\\n   - a\\n   - e\\n  Missing right:\\n   - 1\\n   - 1\\n   - 1.5\\n   - None\\n   - "
                    "(1, 2)'")),
                  ('diff_mapping', "{1: 'x', '1': 'y', 1.5: 'z', None: 0, (1, 2): 3}", "{1: 'x', '1': 'y', 1.5: 'z', None: 0, (1, 2): 3}", 'Attributes',
                   ('ok', 'str', "'Attributes:\\n'")),
                  ('diff_mapping', "{1: 'x', '1': 'y', 1.5: 'z', None: 0, (1, 2): 3}", "{1: 'x', '1': 'y', 1.5: 'z', None: 0, (1, 2): 3}", 'variables',
                   ('ok', 'str', "'Variables:\\n'")),
                  ('diff_mapping', "{1: 'x', '1': 'y', 1.5: 'z', None: 0, (1, 2): 3}", "{1: 'x', '1': 'y', 1.5: 'z', None: 0, (1, 2): 3}", 'x y',
                   ('ok', 'str', "'X Y:\\n'"))],
 'diff_tree': [('empty', 'empty', ('ok', 'str', "'Left and right Group objects are not equal\\n'")),
               ('empty', 'empty-url',
                ('ok', 'str',
                 "'Left and right Group objects are not equal\\n  Differing groups:\\n    Group /:\\n      Differing Url:\\n      L  None\\n      R  "
                 "memory://a'")),
               ('empty', 'empty-url-b',
                ('ok', 'str',
                 "'Left and right Group objects are not equal\\n  Differing groups:\\n    Group /:\\n      Differing Url:\\n      L  None\\n      R  "
                 "memory://b'")),
               ('empty', 'empty-path',
                ('ok', 'str',
                 "'Left and right Group objects are not equal\\n  Differing tree structure:\\n    Missing left:\\n    - /root\\n    Missing right:\\n    - "
                 "/'")),
               ('empty', 'empty-attrs',
                ('ok', 'str',
                 "'Left and right Group objects are not equal\\n  Differing groups:\\n    Group /:\\n      Attributes:\\n        Missing left:\\n         - "
                 "a'")),
               ('empty', 'empty-attrs-b',
                ('ok', 'str',
                 "'Left and right Group objects are not equal\\n  Differing groups:\\n    Group /:\\n      Attributes:\\n        Missing left:\\n         - "
                 "a\\n         - b'")),
               ('empty', 'vars',
                ('ok', 'str',
                 "'Left and right Group objects are not equal\\n  Differing groups:\\n    Group /:\\n      Variables:\\n        Missing left:\\n         - "
                 "v\\n         - w'")),
               ('empty', 'vars-b',
                ('ok', 'str',
                 "'Left and right Group objects are not equal\\n  Differing groups:\\n    Group /:\\n      Variables:\\n        Missing left:\\n         - "
                 "v\\n         - w'")),
               ('empty', 'vars-c',
                ('ok', 'str',
                 "'Left and right Group objects are not equal\\n  Differing groups:\\n    Group /:\\n      Variables:\\n        Missing left:\\n         - "
                 "w\\n         - v'")),
               ('empty', 'vars-d',
                ('ok', 'str',
                 "'Left and right Group objects are not equal\\n  Differing groups:\\n    Group /:\\n      Variables:\\n        Missing left:\\n         - "
                 "v\\n         - u'")),
               ('empty', 'one-a', ('ok', 'str', "'Left and right Group objects are not equal\\n  Differing tree structure:\\n    Missing left:\\n    - /a'")),
               ('empty', 'one-b', ('ok', 'str', "'Left and right Group objects are not equal\\n  Differing tree structure:\\n    Missing left:\\n    - /b'")),
               ('empty', 'one-ab',
                ('ok', 'str', "'Left and right Group objects are not equal\\n  Differing tree structure:\\n    Missing left:\\n    - /a\\n    - /b'")),
               ('empty', 'one-ba',
                ('ok', 'str', "'Left and right Group objects are not equal\\n  Differing tree structure:\\n    Missing left:\\n    - /b\\n    - /a'")),
               ('empty', 'one-a-attrs',
                ('ok', 'str', "'Left and right Group objects are not equal\\n  Differing tree structure:\\n    Missing left:\\n    - /a'")),
               ('empty', 'one-a-attrs-b',
                ('ok', 'str', "'Left and right Group objects are not equal\\n  Differing tree structure:\\n    Missing left:\\n    - /a'")),
               ('empty', 'one-a-url',
                ('ok', 'str',
                 "'Left and right Group objects are not equal\\n  Differing tree structure:\\n    Missing left:\\n    - /a\\n  Differing groups:\\n    Group "
                 "/:\\n      Differing Url:\\n      L  None\\n      R  memory://y'")),
               ('empty', 'two',
                ('ok', 'str',
                 "'Left and right Group objects are not equal\\n  Differing tree structure:\\n    Missing left:\\n    - /a\\n    - /a/b\\n    - /a/b/c\\n    - "
                 "/d'")),
               ('empty', 'two-b',
                ('ok', 'str',
                 "'Left and right Group objects are not equal\\n  Differing tree structure:\\n    Missing left:\\n    - /a\\n    - /a/b\\n    - /a/b/e\\n    - "
                 "/f'")),
               ('empty', 'two-c',
                ('ok', 'str',
                 "'Left and right Group objects are not equal\\n  Differing tree structure:\\n    Missing left:\\n    - /a\\n    - /a/b\\n    - /a/b/c\\n    - "
                 "/d\\n  Differing groups:\\n    Group /:\\n      Attributes:\\n        Missing left:\\n         - top'")),
               ('empty', 'mixed',
                ('ok', 'str',
                 "'Left and right Group objects are not equal\\n  Differing tree structure:\\n    Missing left:\\n    - /g\\n    - /h\\n    - /h/g\\n  "
                 "Differing groups:\\n    Group /:\\n      Variables:\\n        Missing left:\\n         - v'")),
               ('empty', 'mixed-b',
                ('ok', 'str',
                 "'Left and right Group objects are not equal\\n  Differing tree structure:\\n    Missing left:\\n    - /h\\n    - /h/g\\n    - /h/k\\n    - "
                 "/g\\n  Differing groups:\\n    Group /:\\n      Variables:\\n        Missing left:\\n         - v'")),
               ('empty', 'arrays',
                ('ok', 'str',
                 "'Left and right Group objects are not equal\\n  Differing groups:\\n    Group /:\\n      Variables:\\n        Missing left:\\n         - "
                 "data'")),
               ('empty', 'arrays-b',
                ('ok', 'str',
                 "'Left and right Group objects are not equal\\n  Differing groups:\\n    Group /:\\n      Variables:\\n        Missing left:\\n         - "
                 "data'")),
               ('empty', 'sub', ('ok', 'str', "'Left and right Group objects are not equal\\n  Differing tree structure:\\n    Missing left:\\n    - /a'")),
               ('empty', 'sub-b', ('ok', 'str', "'Left and right Group objects are not equal\\n  Differing tree structure:\\n    Missing left:\\n    - /a'")),
               ('empty', 'nested-path',
                ('ok', 'str',
                 "'Left and right Group objects are not equal\\n  Differing tree structure:\\n    Missing left:\\n    - /prefix\\n    - /prefix/a\\n    "
                 "Missing right:\\n    - /'")),
               ('empty-url', 'empty',
                ('ok', 'str',
                 "'Left and right Group objects are not equal\\n  Differing groups:\\n    Group /:\\n      Differing Url:\\n      L  memory://a\\n      R  "
                 "None'")),
               ('empty-url', 'empty-url', ('ok', 'str', "'Left and right Group objects are not equal\\n'")),
               ('empty-url', 'empty-url-b',
                ('ok', 'str',
                 "'Left and right Group objects are not equal\\n  Differing groups:\\n    Group /:\\n      Differing Url:\\n      L  memory://a\\n      R  "
                 "memory://b'")),
               ('empty-url', 'empty-path',
                ('ok', 'str',
                 "'Left and right Group objects are not equal\\n  Differing tree structure:\\n    Missing left:\\n    - /root\\n    Missing right:\\n    - "
                 "/'")),
               ('empty-url', 'empty-attrs',
                ('ok', 'str',
                 "'Left and right Group objects are not equal\\n  Differing groups:\\n    Group /:\\n      Differing Url:\\n      L  memory://a\\n      R  "
                 "None\\n      Attributes:\\n        Missing left:\\n         - a'")),
               ('empty-url', 'empty-attrs-b',
                ('ok', 'str',
                 "'Left and right Group objects are not equal\\n  Differing groups:\\n    Group /:\\n      Differing Url:\\n      L  memory://a\\n      R  "
                 "None\\n      Attributes:\\n        Missing left:\\n         - a\\n         - b'")),
               ('empty-url', 'vars',
                ('ok', 'str',
                 "'Left and right Group objects are not equal\\n  Differing groups:\\n    Group /:\\n      Differing Url:\\n      L  memory://a\\n      R  "
                 "None\\n      Variables:\\n        Missing left:\\n         - v\\n         - w'")),
               ('empty-url', 'vars-b',
                ('ok', 'str',
                 "'Left and right Group objects are not equal\\n  Differing groups:\\n    Group /:\\n      Differing Url:\\n      L  memory://a\\n      R  "
                 "None\\n      Variables:\\n        Missing left:\\n         - v\\n         - w'")),
               ('empty-url', 'vars-c',
                ('ok', 'str',
                 "'Left and right Group objects are not equal\\n  Differing groups:\\n    Group /:\\n      Differing Url:\\n      L  memory://a\\n      R  "
                 "None\\n      Variables:\\n        Missing left:\\n         - w\\n         - v'")),
               ('empty-url', 'vars-d',
                ('ok', 'str',
                 "'Left and right Group objects are not equal\\n  Differing groups:\\n    Group /:\\n      Differing Url:\\n      L  memory://a\\n      R  "
                 "None\\n      Variables:\\n        Missing left:\\n         - v\\n         - u'")),
               ('empty-url', 'one-a',
                ('ok', 'str',
                 "'Left and right Group objects are not equal\\n  Differing tree structure:\\n    Missing left:\\n    - /a\\n  Differing groups:\\n    Group "
                 "/:\\n      Differing Url:\\n      L  memory://a\\n      R  None'")),
               ('empty-url', 'one-b',
                ('ok', 'str',
                 "'Left and right Group objects are not equal\\n  Differing tree structure:\\n    Missing left:\\n    - /b\\n  Differing groups:\\n    Group "
                 "/:\\n      Differing Url:\\n      L  memory://a\\n      R  None'")),
               ('empty-url', 'one-ab',
                ('ok', 'str',
                 "'Left and right Group objects are not equal\\n  Differing tree structure:\\n    Missing left:\\n    - /a\\n    - /b\\n  Differing "
                 "groups:\\n    Group /:\\n      Differing Url:\\n      L  memory://a\\n      R  None'")),
               ('empty-url', 'one-ba',
                ('ok', 'str',
                 "'Left and right Group objects are not equal\\n  Differing tree structure:\\n    Missing left:\\n    - /b\\n    - /a\\n  Differing "
                 "groups:\\n    Group /:\\n      Differing Url:\\n      L  memory://a\\n      R  None'")),
               ('empty-url', 'one-a-attrs',
                ('ok', 'str',
                 "'Left and right Group objects are not equal\\n  Differing tree structure:\\n    Missing left:\\n    - /a\\n  Differing groups:\\n    Group "
                 "/:\\n      Differing Url:\\n      L  memory://a\\n      R  None'")),
               ('empty-url', 'one-a-attrs-b',
                ('ok', 'str',
                 "'Left and right Group objects are not equal\\n  Differing tree structure:\\n    Missing left:\\n    - /a\\n  Differing groups:\\n    Group "
                 "/:\\n      Differing Url:\\n      L  memory://a\\n      R  None'")),
               ('empty-url', 'one-a-url',
                ('ok', 'str',
                 "'Left and right Group objects are not equal\\n  Differing tree structure:\\n    Missing left:\\n    - /a\\n  Differing groups:\\n    Group "
                 "/:\\n      Differing Url:\\n      L  memory://a\\n      R  memory://y'")),
               ('empty-url', 'two',
                ('ok', 'str',
                 "'Left and right Group objects are not equal\\n  Differing tree structure:\\n    Missing left:\\n    - /a\\n    - /a/b\\n    - /a/b/c\\n    - "
                 "/d\\n  Differing groups:\\n    Group /:\\n      Differing Url:\\n      L  memory://a\\n      R  None'")),
               ('empty-url', 'two-b',
                ('ok', 'str',
                 "'Left and right Group objects are not equal\\n  Differing tree structure:\\n    Missing left:\\n    - /a\\n    - /a/b\\n    - /a/b/e\\n    - "
                 "/f\\n  Differing groups:\\n    Group /:\\n      Differing Url:\\n      L  memory://a\\n      R  None'")),
               ('empty-url', 'two-c',
                ('ok', 'str',
                 "'Left and right Group objects are not equal\\n  Differing tree structure:\\n    Missing left:\\n    - /a\\n    - /a/b\\n    - /a/b/c\\n    - "
                 '/d\\n  Differing groups:\\n    Group /:\\n      Differing Url:\\n      L  memory://a\\n      R  None\\n      Attributes:\\n        Missing '
                 "left:\\n         - top'")),
               ('empty-url', 'mixed',
                ('ok', 'str',
                 "'Left and right Group objects are not equal\\n  Differing tree structure:\\n    Missing left:\\n    - /g\\n    - /h\\n    - /h/g\\n  "
                 'Differing groups:\\n    Group /:\\n      Differing Url:\\n      L  memory://a\\n      R  None\\n      Variables:\\n        Missing '
                 "left:\\n         - v'")),
               ('empty-url', 'mixed-b',
                ('ok', 'str',
                 "'Left and right Group objects are not equal\\n  Differing tree structure:\\n    Missing left:\\n    - /h\\n    - /h/g\\n    - /h/k\\n    - "
                 '/g\\n  Differing groups:\\n    Group /:\\n      Differing Url:\\n      L  memory://a\\n      R  None\\n      Variables:\\n        Missing '
                 "left:\\n         - v'")),
               ('empty-url', 'arrays',
                ('ok', 'str',
                 "'Left and right Group objects are not equal\\n  Differing groups:\\n    Group /:\\n      Differing Url:\\n      L  memory://a\\n      R  "
                 "None\\n      Variables:\\n        Missing left:\\n         - data'")),
               ('empty-url', 'arrays-b',
                ('ok', 'str',
                 "'Left and right Group objects are not equal\\n  Differing groups:\\n    Group /:\\n      Differing Url:\\n      L  memory://a\\n      R  "
                 "None\\n      Variables:\\n        Missing left:\\n         - data'")),
               ('empty-url', 'sub',
                ('ok', 'str',
                 "'Left and right Group objects are not equal\\n  Differing tree structure:\\n    Missing left:\\n    - /a\\n  Differing groups:\\n    Group "
                 "/:\\n      Differing Url:\\n      L  memory://a\\n      R  None'")),
               ('empty-url', 'sub-b',
                ('ok', 'str',
                 "'Left and right Group objects are not equal\\n  Differing tree structure:\\n    Missing left:\\n    - /a\\n  Differing groups:\\n    Group "
                 "/:\\n      Differing Url:\\n      L  memory://a\\n      R  None'")),
               ('empty-url', 'nested-path',
                ('ok', 'str',
                 "'Left and right Group objects are not equal\\n  Differing tree structure:\\n    Missing left:\\n    - /prefix\\n    - /prefix/a\\n    "
                 "Missing right:\\n    - /'")),
               ('empty-url-b', 'empty',
                ('ok', 'str',
                 "'Left and right Group objects are not equal\\n  Differing groups:\\n    Group /:\\n      Differing Url:\\n      L  memory://b\\n      R  "
                 "None'")),
               ('empty-url-b', 'empty-url',
                ('ok', 'str',
                 "'Left and right Group objects are not equal\\n  Differing groups:\\n    Group /:\\n      Differing Url:\\n      L  memory://b\\n      R  "
                 "memory://a'")),
               ('empty-url-b', 'empty-url-b', ('ok', 'str', "'Left and right Group objects are not equal\\n'")),
               ('empty-url-b', 'empty-path',
                ('ok', 'str',
                 "'Left and right Group objects are not equal\\n  Differing tree structure:\\n    Missing left:\\n    - /root\\n    Missing right:\\n    - "
                 "/'")),
               ('empty-url-b', 'empty-attrs',
                ('ok', 'str',
                 "'Left and right Group objects are not equal\\n  Differing groups:\\n    Group /:\\n      Differing Url:\\n      L  memory://b\\n      R  "
                 "None\\n      Attributes:\\n        Missing left:\\n         - a'")),
               ('empty-url-b', 'empty-attrs-b',
                ('ok', 'str',
                 "'Left and right Group objects are not equal\\n  Differing groups:\\n    Group /:\\n      Differing Url:\\n      L  memory://b\\n      R  "
                 "None\\n      Attributes:\\n        Missing left:\\n         - a\\n         - b'")),
               ('empty-url-b', 'vars',
                ('ok', 'str',
                 "'Left and right Group objects are not equal\\n  Differing groups:\\n    Group /:\\n      Differing Url:\\n      L  memory://b\\n      R  "
                 "None\\n      Variables:\\n        Missing left:\\n         - v\\n         - w'")),
               ('empty-url-b', 'vars-b',
                ('ok', 'str',
                 "'Left and right Group objects are not equal\\n  Differing groups:\\n    Group /:\\n      Differing Url:\\n      L  memory://b\\n      R  "
                 "None\\n      Variables:\\n        Missing left:\\n         - v\\n         - w'")),
               ('empty-url-b', 'vars-c',
                ('ok', 'str',
                 "'Left and right Group objects are not equal\\n  Differing groups:\\n    Group /:\\n      Differing Url:\\n      L  memory://b\\n      R  "
                 "None\\n      Variables:\\n        Missing left:\\n         - w\\n         - v'")),
               ('empty-url-b', 'vars-d',
                ('ok', 'str',
                 "'Left and right Group objects are not equal\\n  Differing groups:\\n    Group /:\\n      Differing Url:\\n      L  memory://b\\n      R  "
                 "None\\n      Variables:\\n        Missing left:\\n         - v\\n         - u'")),
               ('empty-url-b', 'one-a',
                ('ok', 'str',
                 "'Left and right Group objects are not equal\\n  Differing tree structure:\\n    Missing left:\\n    - /a\\n  Differing groups:\\n    Group "
                 "/:\\n      Differing Url:\\n      L  memory://b\\n      R  None'")),
               ('empty-url-b', 'one-b',
                ('ok', 'str',
                 "'Left and right Group objects are not equal\\n  Differing tree structure:\\n    Missing left:\\n    - /b\\n  Differing groups:\\n    Group "
                 "/:\\n      Differing Url:\\n      L  memory://b\\n      R  None'")),
               ('empty-url-b', 'one-ab',
                ('ok', 'str',
                 "'Left and right Group objects are not equal\\n  Differing tree structure:\\n    Missing left:\\n    - /a\\n    - /b\\n  Differing "
                 "groups:\\n    Group /:\\n      Differing Url:\\n      L  memory://b\\n      R  None'")),
               ('empty-url-b', 'one-ba',
                ('ok', 'str',
                 "'Left and right Group objects are not equal\\n  Differing tree structure:\\n    Missing left:\\n    - /b\\n    - /a\\n  Differing "
                 "groups:\\n    Group /:\\n      Differing Url:\\n      L  memory://b\\n      R  None'")),
               ('empty-url-b', 'one-a-attrs',
                ('ok', 'str',
                 "'Left and right Group objects are not equal\\n  Differing tree structure:\\n    Missing left:\\n    - /a\\n  Differing groups:\\n    Group "
                 "/:\\n      Differing Url:\\n      L  memory://b\\n      R  None'")),
               ('empty-url-b', 'one-a-attrs-b',
                ('ok', 'str',
                 "'Left and right Group objects are not equal\\n  Differing tree structure:\\n    Missing left:\\n    - /a\\n  Differing groups:\\n    Group "
                 "/:\\n      Differing Url:\\n      L  memory://b\\n      R  None'")),
               ('empty-url-b', 'one-a-url',
                ('ok', 'str',
                 "'Left and right Group objects are not equal\\n  Differing tree structure:\\n    Missing left:\\n    - /a\\n  Differing groups:\\n    Group "
                 "/:\\n      Differing Url:\\n      L  memory://b\\n      R  memory://y'")),
               ('empty-url-b', 'two',
                ('ok', 'str',
                 "'Left and right Group objects are not equal\\n  Differing tree structure:\\n    Missing left:\\n    - /a\\n    - /a/b\\n    - /a/b/c\\n    - "
                 "/d\\n  Differing groups:\\n    Group /:\\n      Differing Url:\\n      L  memory://b\\n      R  None'")),
               ('empty-url-b', 'two-b',
                ('ok', 'str',
                 "'Left and right Group objects are not equal\\n  Differing tree structure:\\n    Missing left:\\n    - /a\\n    - /a/b\\n    - /a/b/e\\n    - "
                 "/f\\n  Differing groups:\\n    Group /:\\n      Differing Url:\\n      L  memory://b\\n      R  None'")),
               ('empty-url-b', 'two-c',
                ('ok', 'str',
                 "'Left and right Group objects are not equal\\n  Differing tree structure:\\n    Missing left:\\n    - /a\\n    - /a/b\\n    - /a/b/c\\n    - "
                 '/d\\n  Differing groups:\\n    Group /:\\n      Differing Url:\\n      L  memory://b\\n      R  None\\n      Attributes:\\n        Missing '
                 "left:\\n         - top'")),
               ('empty-url-b', 'mixed',
                ('ok', 'str',
                 "'Left and right Group objects are not equal\\n  Differing tree structure:\\n    Missing left:\\n    - /g\\n    - /h\\n    - /h/g\\n  "
                 'Differing groups:\\n    Group /:\\n      Differing Url:\\n      L  memory://b\\n      R  None\\n      Variables:\\n        Missing '
                 "left:\\n         - v'")),
               ('empty-url-b', 'mixed-b',
                ('ok', 'str',
                 "'Left and right Group objects are not equal\\n  Differing tree structure:\\n    Missing left:\\n    - /h\\n    - /h/g\\n    - /h/k\\n    - "
                 '/g\\n  Differing groups:\\n    Group /:\\n      Differing Url:\\n      L  memory://b\\n      R  None\\n      Variables:\\n        Missing '
                 "left:\\n         - v'")),
               ('empty-url-b', 'arrays',
                ('ok', 'str',
                 "'Left and right Group objects are not equal\\n  Differing groups:\\n    Group /:\\n      Differing Url:\\n      L  memory://b\\n      R  "
                 "None\\n      Variables:\\n        Missing left:\\n         - data'")),
               ('empty-url-b', 'arrays-b',
                ('ok', 'str',
                 "'Left and right Group objects are not equal\\n  Differing groups:\\n    Group /:\\n      Differing Url:\\n      L  memory://b\\n      R  "
                 "None\\n      Variables:\\n        Missing left:\\n         - data'")),
               ('empty-url-b', 'sub',
                ('ok', 'str',
                 "'Left and right Group objects are not equal\\n  Differing tree structure:\\n    Missing left:\\n    - /a\\n  Differing groups:\\n    Group "
                 "/:\\n      Differing Url:\\n      L  memory://b\\n      R  None'")),
               ('empty-url-b', 'sub-b',
                ('ok', 'str',
                 "'Left and right Group objects are not equal\\n  Differing tree structure:\\n    Missing left:\\n    - /a\\n  Differing groups:\\n    Group "
                 "/:\\n      Differing Url:\\n      L  memory://b\\n      R  None'")),
               ('empty-url-b', 'nested-path',
                ('ok', 'str',
                 "'Left and right Group objects are not equal\\n  Differing tree structure:\\n    Missing left:\\n    - /prefix\\n    - /prefix/a\\n    "
                 "Missing right:\\n    - /'")),
               ('empty-path', 'empty',
                ('ok', 'str',
                 "'Left and right Group objects are not equal\\n  Differing tree structure:\\n    Missing left:\\n    - /\\n    Missing right:\\n    - "
                 "/root'")),
               ('empty-path', 'empty-url',
                ('ok', 'str',
                 "'Left and right Group objects are not equal\\n  Differing tree structure:\\n    Missing left:\\n    - /\\n    Missing right:\\n    - "
                 "/root'")),
               ('empty-path', 'empty-url-b',
                ('ok', 'str',
                 "'Left and right Group objects are not equal\\n  Differing tree structure:\\n    Missing left:\\n    - /\\n    Missing right:\\n    - "
                 "/root'")),
               ('empty-path', 'empty-path', ('ok', 'str', "'Left and right Group objects are not equal\\n'")),
               ('empty-path', 'empty-attrs',
                ('ok', 'str',
                 "'Left and right Group objects are not equal\\n  Differing tree structure:\\n    Missing left:\\n    - /\\n    Missing right:\\n    - "
                 "/root'")),
               ('empty-path', 'empty-attrs-b',
                ('ok', 'str',
                 "'Left and right Group objects are not equal\\n  Differing tree structure:\\n    Missing left:\\n    - /\\n    Missing right:\\n    - "
                 "/root'")),
               ('empty-path', 'vars',
                ('ok', 'str',
                 "'Left and right Group objects are not equal\\n  Differing tree structure:\\n    Missing left:\\n    - /\\n    Missing right:\\n    - "
                 "/root'")),
               ('empty-path', 'vars-b',
                ('ok', 'str',
                 "'Left and right Group objects are not equal\\n  Differing tree structure:\\n    Missing left:\\n    - /\\n    Missing right:\\n    - "
                 "/root'")),
               ('empty-path', 'vars-c',
                ('ok', 'str',
                 "'Left and right Group objects are not equal\\n  Differing tree structure:\\n    Missing left:\\n    - /\\n    Missing right:\\n    - "
                 "/root'")),
               ('empty-path', 'vars-d',
                ('ok', 'str',
                 "'Left and right Group objects are not equal\\n  Differing tree structure:\\n    Missing left:\\n    - /\\n    Missing right:\\n    - "
                 "/root'")),
               ('empty-path', 'one-a',
                ('ok', 'str',
                 "'Left and right Group objects are not equal\\n  Differing tree structure:\\n    Missing left:\\n    - /\\n    - /a\\n    Missing "
                 "right:\\n    - /root'")),
               ('empty-path', 'one-b',
                ('ok', 'str',
                 "'Left and right Group objects are not equal\\n  Differing tree structure:\\n    Missing left:\\n    - /\\n    - /b\\n    Missing "
                 "right:\\n    - /root'")),
               ('empty-path', 'one-ab',
                ('ok', 'str',
                 "'Left and right Group objects are not equal\\n  Differing tree structure:\\n    Missing left:\\n    - /\\n    - /a\\n    - /b\\n    Missing "
                 "right:\\n    - /root'")),
               ('empty-path', 'one-ba',
                ('ok', 'str',
                 "'Left and right Group objects are not equal\\n  Differing tree structure:\\n    Missing left:\\n    - /\\n    - /b\\n    - /a\\n    Missing "
                 "right:\\n    - /root'")),
               ('empty-path', 'one-a-attrs',
                ('ok', 'str',
                 "'Left and right Group objects are not equal\\n  Differing tree structure:\\n    Missing left:\\n    - /\\n    - /a\\n    Missing "
                 "right:\\n    - /root'")),
               ('empty-path', 'one-a-attrs-b',
                ('ok', 'str',
                 "'Left and right Group objects are not equal\\n  Differing tree structure:\\n    Missing left:\\n    - /\\n    - /a\\n    Missing "
                 "right:\\n    - /root'")),
               ('empty-path', 'one-a-url',
                ('ok', 'str',
                 "'Left and right Group objects are not equal\\n  Differing tree structure:\\n    Missing left:\\n    - /\\n    - /a\\n    Missing "
                 "right:\\n    - /root'")),
               ('empty-path', 'two',
                ('ok', 'str',
                 "'Left and right Group objects are not equal\\n  Differing tree structure:\\n    Missing left:\\n    - /\\n    - /a\\n    - /a/b\\n    - "
                 "/a/b/c\\n    - /d\\n    Missing right:\\n    - /root'")),
               ('empty-path', 'two-b',
                ('ok', 'str',
                 "'Left and right Group objects are not equal\\n  Differing tree structure:\\n    Missing left:\\n    - /\\n    - /a\\n    - /a/b\\n    - "
                 "/a/b/e\\n    - /f\\n    Missing right:\\n    - /root'")),
               ('empty-path', 'two-c',
                ('ok', 'str',
                 "'Left and right Group objects are not equal\\n  Differing tree structure:\\n    Missing left:\\n    - /\\n    - /a\\n    - /a/b\\n    - "
                 "/a/b/c\\n    - /d\\n    Missing right:\\n    - /root'")),
               ('empty-path', 'mixed',
                ('ok', 'str',
                 "'Left and right Group objects are not equal\\n  Differing tree structure:\\n    Missing left:\\n    - /\\n    - /g\\n    - /h\\n    - "
                 "/h/g\\n    Missing right:\\n    - /root'")),
               ('empty-path', 'mixed-b',
                ('ok', 'str',
                 "'Left and right Group objects are not equal\\n  Differing tree structure:\\n    Missing left:\\n    - /\\n    - /h\\n    - /h/g\\n    - "
                 "/h/k\\n    - /g\\n    Missing right:\\n    - /root'")),
               ('empty-path', 'arrays',
                ('ok', 'str',
                 "'Left and right Group objects are not equal\\n  Differing tree structure:\\n    Missing left:\\n    - /\\n    Missing right:\\n    - "
                 "/root'")),
               ('empty-path', 'arrays-b',
                ('ok', 'str',
                 "'Left and right Group objects are not equal\\n  Differing tree structure:\\n    Missing left:\\n    - /\\n    Missing right:\\n    - "
                 "/root'")),
               ('empty-path', 'sub',
                ('ok', 'str',
                 "'Left and right Group objects are not equal\\n  Differing tree structure:\\n    Missing left:\\n    - /\\n    - /a\\n    Missing "
                 "right:\\n    - /root'")),
               ('empty-path', 'sub-b',
                ('ok', 'str',
                 "'Left and right Group objects are not equal\\n  Differing tree structure:\\n    Missing left:\\n    - /\\n    - /a\\n    Missing "
                 "right:\\n    - /root'")),
               ('empty-path', 'nested-path',
                ('ok', 'str',
                 "'Left and right Group objects are not equal\\n  Differing tree structure:\\n    Missing left:\\n    - /prefix\\n    - /prefix/a\\n    "
                 "Missing right:\\n    - /root'")),
               ('empty-attrs', 'empty',
                ('ok', 'str',
                 "'Left and right Group objects are not equal\\n  Differing groups:\\n    Group /:\\n      Attributes:\\n        Missing right:\\n         - "
                 "a'")),
               ('empty-attrs', 'empty-url',
                ('ok', 'str',
                 "'Left and right Group objects are not equal\\n  Differing groups:\\n    Group /:\\n      Differing Url:\\n      L  None\\n      R  "
                 "memory://a\\n      Attributes:\\n        Missing right:\\n         - a'")),
               ('empty-attrs', 'empty-url-b',
                ('ok', 'str',
                 "'Left and right Group objects are not equal\\n  Differing groups:\\n    Group /:\\n      Differing Url:\\n      L  None\\n      R  "
                 "memory://b\\n      Attributes:\\n        Missing right:\\n         - a'")),
               ('empty-attrs', 'empty-path',
                ('ok', 'str',
                 "'Left and right Group objects are not equal\\n  Differing tree structure:\\n    Missing left:\\n    - /root\\n    Missing right:\\n    - "
                 "/'")),
               ('empty-attrs', 'empty-attrs', ('ok', 'str', "'Left and right Group objects are not equal\\n'")),
               ('empty-attrs', 'empty-attrs-b',
                ('ok', 'str',
                 "'Left and right Group objects are not equal\\n  Differing groups:\\n    Group /:\\n      Attributes:\\n        Missing left:\\n         - "
                 "b\\n        Differing attributes:\\n           L a  1\\n           R a  2'")),
               ('empty-attrs', 'vars',
                ('ok', 'str',
                 "'Left and right Group objects are not equal\\n  Differing groups:\\n    Group /:\\n      Variables:\\n        Missing left:\\n         - "
                 "v\\n         - w\\n      Attributes:\\n        Missing right:\\n         - a'")),
               ('empty-attrs', 'vars-b',
                ('ok', 'str',
                 "'Left and right Group objects are not equal\\n  Differing groups:\\n    Group /:\\n      Variables:\\n        Missing left:\\n         - "
                 "v\\n         - w\\n      Attributes:\\n        Missing right:\\n         - a'")),
               ('empty-attrs', 'vars-c',
                ('ok', 'str',
                 "'Left and right Group objects are not equal\\n  Differing groups:\\n    Group /:\\n      Variables:\\n        Missing left:\\n         - "
                 "w\\n         - v\\n      Attributes:\\n        Missing right:\\n         - a'")),
               ('empty-attrs', 'vars-d',
                ('ok', 'str',
                 "'Left and right Group objects are not equal\\n  Differing groups:\\n    Group /:\\n      Variables:\\n        Missing left:\\n         - "
                 "v\\n         - u\\n      Attributes:\\n        Missing right:\\n         - a'")),
               ('empty-attrs', 'one-a',
                ('ok', 'str',
                 "'Left and right Group objects are not equal\\n  Differing tree structure:\\n    Missing left:\\n    - /a\\n  Differing groups:\\n    Group "
                 "/:\\n      Attributes:\\n        Missing right:\\n         - a'")),
               ('empty-attrs', 'one-b',
                ('ok', 'str',
                 "'Left and right Group objects are not equal\\n  Differing tree structure:\\n    Missing left:\\n    - /b\\n  Differing groups:\\n    Group "
                 "/:\\n      Attributes:\\n        Missing right:\\n         - a'")),
               ('empty-attrs', 'one-ab',
                ('ok', 'str',
                 "'Left and right Group objects are not equal\\n  Differing tree structure:\\n    Missing left:\\n    - /a\\n    - /b\\n  Differing "
                 "groups:\\n    Group /:\\n      Attributes:\\n        Missing right:\\n         - a'")),
               ('empty-attrs', 'one-ba',
                ('ok', 'str',
                 "'Left and right Group objects are not equal\\n  Differing tree structure:\\n    Missing left:\\n    - /b\\n    - /a\\n  Differing "
                 "groups:\\n    Group /:\\n      Attributes:\\n        Missing right:\\n         - a'")),
               ('empty-attrs', 'one-a-attrs',
                ('ok', 'str',
                 "'Left and right Group objects are not equal\\n  Differing tree structure:\\n    Missing left:\\n    - /a\\n  Differing groups:\\n    Group "
                 "/:\\n      Attributes:\\n        Missing right:\\n         - a'")),
               ('empty-attrs', 'one-a-attrs-b',
                ('ok', 'str',
                 "'Left and right Group objects are not equal\\n  Differing tree structure:\\n    Missing left:\\n    - /a\\n  Differing groups:\\n    Group "
                 "/:\\n      Attributes:\\n        Missing right:\\n         - a'")),
               ('empty-attrs', 'one-a-url',
                ('ok', 'str',
                 "'Left and right Group objects are not equal\\n  Differing tree structure:\\n    Missing left:\\n    - /a\\n  Differing groups:\\n    Group "
                 "/:\\n      Differing Url:\\n      L  None\\n      R  memory://y\\n      Attributes:\\n        Missing right:\\n         - a'")),
               ('empty-attrs', 'two',
                ('ok', 'str',
                 "'Left and right Group objects are not equal\\n  Differing tree structure:\\n    Missing left:\\n    - /a\\n    - /a/b\\n    - /a/b/c\\n    - "
                 "/d\\n  Differing groups:\\n    Group /:\\n      Attributes:\\n        Missing right:\\n         - a'")),
               ('empty-attrs', 'two-b',
                ('ok', 'str',
                 "'Left and right Group objects are not equal\\n  Differing tree structure:\\n    Missing left:\\n    - /a\\n    - /a/b\\n    - /a/b/e\\n    - "
                 "/f\\n  Differing groups:\\n    Group /:\\n      Attributes:\\n        Missing right:\\n         - a'")),
               ('empty-attrs', 'two-c',
                ('ok', 'str',
                 "'Left and right Group objects are not equal\\n  Differing tree structure:\\n    Missing left:\\n    - /a\\n    - /a/b\\n    - /a/b/c\\n    - "
                 '/d\\n  Differing groups:\\n    Group /:\\n      Attributes:\\n        Missing left:\\n         - top\\n        Missing right:\\n         - '
                 "a'")),
               ('empty-attrs', 'mixed',
                ('ok', 'str',
                 "'Left and right Group objects are not equal\\n  Differing tree structure:\\n    Missing left:\\n    - /g\\n    - /h\\n    - /h/g\\n  "
                 'Differing groups:\\n    Group /:\\n      Variables:\\n        Missing left:\\n         - v\\n      Attributes:\\n        Missing '
                 "right:\\n         - a'")),
               ('empty-attrs', 'mixed-b',
                ('ok', 'str',
                 "'Left and right Group objects are not equal\\n  Differing tree structure:\\n    Missing left:\\n    - /h\\n    - /h/g\\n    - /h/k\\n    - "
                 '/g\\n  Differing groups:\\n    Group /:\\n      Variables:\\n        Missing left:\\n         - v\\n      Attributes:\\n        Missing '
                 "right:\\n         - a'")),
               ('empty-attrs', 'arrays',
                ('ok', 'str',
                 "'Left and right Group objects are not equal\\n  Differing groups:\\n    Group /:\\n      Variables:\\n        Missing left:\\n         - "
                 "data\\n      Attributes:\\n        Missing right:\\n         - a'")),
               ('empty-attrs', 'arrays-b',
                ('ok', 'str',
                 "'Left and right Group objects are not equal\\n  Differing groups:\\n    Group /:\\n      Variables:\\n        Missing left:\\n         - "
                 "data\\n      Attributes:\\n        Missing right:\\n         - a'")),
               ('empty-attrs', 'sub',
                ('ok', 'str',
                 "'Left and right Group objects are not equal\\n  Differing tree structure:\\n    Missing left:\\n    - /a\\n  Differing groups:\\n    Group "
                 "/:\\n      Attributes:\\n        Missing right:\\n         - a'")),
               ('empty-attrs', 'sub-b',
                ('ok', 'str',
                 "'Left and right Group objects are not equal\\n  Differing tree structure:\\n    Missing left:\\n    - /a\\n  Differing groups:\\n    Group "
                 "/:\\n      Attributes:\\n        Missing right:\\n         - a'")),
               ('empty-attrs', 'nested-path',
                ('ok', 'str',
                 "'Left and right Group objects are not equal\\n  Differing tree structure:\\n    Missing left:\\n    - /prefix\\n    - /prefix/a\\n    "
                 "Missing right:\\n    - /'")),
               ('empty-attrs-b', 'empty',
                ('ok', 'str',
                 "'Left and right Group objects are not equal\\n  Differing groups:\\n    Group /:\\n      Attributes:\\n        Missing right:\\n         - "
                 "a\\n         - b'")),
               ('empty-attrs-b', 'empty-url',
                ('ok', 'str',
                 "'Left and right Group objects are not equal\\n  Differing groups:\\n    Group /:\\n      Differing Url:\\n      L  None\\n      R  "
                 "memory://a\\n      Attributes:\\n        Missing right:\\n         - a\\n         - b'")),
               ('empty-attrs-b', 'empty-url-b',
                ('ok', 'str',
                 "'Left and right Group objects are not equal\\n  Differing groups:\\n    Group /:\\n      Differing Url:\\n      L  None\\n      R  "
                 "memory://b\\n      Attributes:\\n        Missing right:\\n         - a\\n         - b'")),
               ('empty-attrs-b', 'empty-path',
                ('ok', 'str',
                 "'Left and right Group objects are not equal\\n  Differing tree structure:\\n    Missing left:\\n    - /root\\n    Missing right:\\n    - "
                 "/'")),
               ('empty-attrs-b', 'empty-attrs',
                ('ok', 'str',
                 "'Left and right Group objects are not equal\\n  Differing groups:\\n    Group /:\\n      Attributes:\\n        Missing right:\\n         - "
                 "b\\n        Differing attributes:\\n           L a  2\\n           R a  1'")),
               ('empty-attrs-b', 'empty-attrs-b', ('ok', 'str', "'Left and right Group objects are not equal\\n'")),
               ('empty-attrs-b', 'vars',
                ('ok', 'str',
                 "'Left and right Group objects are not equal\\n  Differing groups:\\n    Group /:\\n      Variables:\\n        Missing left:\\n         - "
                 "v\\n         - w\\n      Attributes:\\n        Missing right:\\n         - a\\n         - b'")),
               ('empty-attrs-b', 'vars-b',
                ('ok', 'str',
                 "'Left and right Group objects are not equal\\n  Differing groups:\\n    Group /:\\n      Variables:\\n        Missing left:\\n         - "
                 "v\\n         - w\\n      Attributes:\\n        Missing right:\\n         - a\\n         - b'")),
               ('empty-attrs-b', 'vars-c',
                ('ok', 'str',
                 "'Left and right Group objects are not equal\\n  Differing groups:\\n    Group /:\\n      Variables:\\n        Missing left:\\n         - "
                 "w\\n         - v\\n      Attributes:\\n        Missing right:\\n         - a\\n         - b'")),
               ('empty-attrs-b', 'vars-d',
                ('ok', 'str',
                 "'Left and right Group objects are not equal\\n  Differing groups:\\n    Group /:\\n      Variables:\\n        Missing left:\\n         - "
                 "v\\n         - u\\n      Attributes:\\n        Missing right:\\n         - a\\n         - b'")),
               ('empty-attrs-b', 'one-a',
                ('ok', 'str',
                 "'Left and right Group objects are not equal\\n  Differing tree structure:\\n    Missing left:\\n    - /a\\n  Differing groups:\\n    Group "
                 "/:\\n      Attributes:\\n        Missing right:\\n         - a\\n         - b'")),
               ('empty-attrs-b', 'one-b',
                ('ok', 'str',
                 "'Left and right Group objects are not equal\\n  Differing tree structure:\\n    Missing left:\\n    - /b\\n  Differing groups:\\n    Group "
                 "/:\\n      Attributes:\\n        Missing right:\\n         - a\\n         - b'")),
               ('empty-attrs-b', 'one-ab',
                ('ok', 'str',
                 "'Left and right Group objects are not equal\\n  Differing tree structure:\\n    Missing left:\\n    - /a\\n    - /b\\n  Differing "
                 "groups:\\n    Group /:\\n      Attributes:\\n        Missing right:\\n         - a\\n         - b'")),
               ('empty-attrs-b', 'one-ba',
                ('ok', 'str',
                 "'Left and right Group objects are not equal\\n  Differing tree structure:\\n    Missing left:\\n    - /b\\n    - /a\\n  Differing "
                 "groups:\\n    Group /:\\n      Attributes:\\n        Missing right:\\n         - a\\n         - b'")),
               ('empty-attrs-b', 'one-a-attrs',
                ('ok', 'str',
                 "'Left and right Group objects are not equal\\n  Differing tree structure:\\n    Missing left:\\n    - /a\\n  Differing groups:\\n    Group "
                 "/:\\n      Attributes:\\n        Missing right:\\n         - a\\n         - b'")),
               ('empty-attrs-b', 'one-a-attrs-b',
                ('ok', 'str',
                 "'Left and right Group objects are not equal\\n  Differing tree structure:\\n    Missing left:\\n    - /a\\n  Differing groups:\\n    Group "
                 "/:\\n      Attributes:\\n        Missing right:\\n         - a\\n         - b'")),
               ('empty-attrs-b', 'one-a-url',
                ('ok', 'str',
                 "'Left and right Group objects are not equal\\n  Differing tree structure:\\n    Missing left:\\n    - /a\\n  Differing groups:\\n    Group "
                 '/:\\n      Differing Url:\\n      L  None\\n      R  memory://y\\n      Attributes:\\n        Missing right:\\n         - a\\n         - '
                 "b'")),
               ('empty-attrs-b', 'two',
                ('ok', 'str',
                 "'Left and right Group objects are not equal\\n  Differing tree structure:\\n    Missing left:\\n    - /a\\n    - /a/b\\n    - /a/b/c\\n    - "
                 "/d\\n  Differing groups:\\n    Group /:\\n      Attributes:\\n        Missing right:\\n         - a\\n         - b'")),
               ('empty-attrs-b', 'two-b',
                ('ok', 'str',
                 "'Left and right Group objects are not equal\\n  Differing tree structure:\\n    Missing left:\\n    - /a\\n    - /a/b\\n    - /a/b/e\\n    - "
                 "/f\\n  Differing groups:\\n    Group /:\\n      Attributes:\\n        Missing right:\\n         - a\\n         - b'")),
               ('empty-attrs-b', 'two-c',
                ('ok', 'str',
                 "'Left and right Group objects are not equal\\n  Differing tree structure:\\n    Missing left:\\n    - /a\\n    - /a/b\\n    - /a/b/c\\n    - "
                 '/d\\n  Differing groups:\\n    Group /:\\n      Attributes:\\n        Missing left:\\n         - top\\n        Missing right:\\n         - '
                 "a\\n         - b'")),
               ('empty-attrs-b', 'mixed',
                ('ok', 'str',
                 "'Left and right Group objects are not equal\\n  Differing tree structure:\\n    Missing left:\\n    - /g\\n    - /h\\n    - /h/g\\n  "
                 'Differing groups:\\n    Group /:\\n      Variables:\\n        Missing left:\\n         - v\\n      Attributes:\\n        Missing '
                 "right:\\n         - a\\n         - b'")),
               ('empty-attrs-b', 'mixed-b',
                ('ok', 'str',
                 "'Left and right Group objects are not equal\\n  Differing tree structure:\\n    Missing left:\\n    - /h\\n    - /h/g\\n    - /h/k\\n    - "
                 '/g\\n  Differing groups:\\n    Group /:\\n      Variables:\\n        Missing left:\\n         - v\\n      Attributes:\\n        Missing '
                 "right:\\n         - a\\n         - b'")),
               ('empty-attrs-b', 'arrays',
                ('ok', 'str',
                 "'Left and right Group objects are not equal\\n  Differing groups:\\n    Group /:\\n      Variables:\\n        Missing left:\\n         - "
                 "data\\n      Attributes:\\n        Missing right:\\n         - a\\n         - b'")),
               ('empty-attrs-b', 'arrays-b',
                ('ok', 'str',
                 "'Left and right Group objects are not equal\\n  Differing groups:\\n    Group /:\\n      Variables:\\n        Missing left:\\n         - "
                 "data\\n      Attributes:\\n        Missing right:\\n         - a\\n         - b'")),
               ('empty-attrs-b', 'sub',
                ('ok', 'str',
                 "'Left and right Group objects are not equal\\n  Differing tree structure:\\n    Missing left:\\n    - /a\\n  Differing groups:\\n    Group "
                 "/:\\n      Attributes:\\n        Missing right:\\n         - a\\n         - b'")),
               ('empty-attrs-b', 'sub-b',
                ('ok', 'str',
                 "'Left and right Group objects are not equal\\n  Differing tree structure:\\n    Missing left:\\n    - /a\\n  Differing groups:\\n    Group "
                 "/:\\n      Attributes:\\n        Missing right:\\n         - a\\n         - b'")),
               ('empty-attrs-b', 'nested-path',
                ('ok', 'str',
                 "'Left and right Group objects are not equal\\n  Differing tree structure:\\n    Missing left:\\n    - /prefix\\n    - /prefix/a\\n    "
                 "Missing right:\\n    - /'")),
               ('vars', 'empty',
                ('ok', 'str',
                 "'Left and right Group objects are not equal\\n  Differing groups:\\n    Group /:\\n      Variables:\\n        Missing right:\\n         - "
                 "v\\n         - w'")),
               ('vars', 'empty-url',
                ('ok', 'str',
                 "'Left and right Group objects are not equal\\n  Differing groups:\\n    Group /:\\n      Differing Url:\\n      L  None\\n      R  "
                 "memory://a\\n      Variables:\\n        Missing right:\\n         - v\\n         - w'")),
               ('vars', 'empty-url-b',
                ('ok', 'str',
                 "'Left and right Group objects are not equal\\n  Differing groups:\\n    Group /:\\n      Differing Url:\\n      L  None\\n      R  "
                 "memory://b\\n      Variables:\\n        Missing right:\\n         - v\\n         - w'")),
               ('vars', 'empty-path',
                ('ok', 'str',
                 "'Left and right Group objects are not equal\\n  Differing tree structure:\\n    Missing left:\\n    - /root\\n    Missing right:\\n    - "
                 "/'")),
               ('vars', 'empty-attrs',
                ('ok', 'str',
                 "'Left and right Group objects are not equal\\n  Differing groups:\\n    Group /:\\n      Variables:\\n        Missing right:\\n         - "
                 "v\\n         - w\\n      Attributes:\\n        Missing left:\\n         - a'")),
               ('vars', 'empty-attrs-b',
                ('ok', 'str',
                 "'Left and right Group objects are not equal\\n  Differing groups:\\n    Group /:\\n      Variables:\\n        Missing right:\\n         - "
                 "v\\n         - w\\n      Attributes:\\n        Missing left:\\n         - a\\n         - b'")),
               ('vars', 'vars', ('ok', 'str', "'Left and right Group objects are not equal\\n'")),
               ('vars', 'vars-b',
                ('ok', 'str',
                 "'Left and right Group objects are not equal\\n  Differing groups:\\n    Group /:\\n      Variables:\\n        Differing "
                 "variables:\\n           L w  (x)    int8  2\\n           R w  (x)    int8  3'")),
               ('vars', 'vars-c', ('ok', 'str', "'Left and right Group objects are not equal\\n  Differing groups:\\n    Group /:\\n'")),
               ('vars', 'vars-d',
                ('ok', 'str',
                 "'Left and right Group objects are not equal\\n  Differing groups:\\n    Group /:\\n      Variables:\\n        Missing left:\\n         - "
                 'u\\n        Missing right:\\n         - w\\n        Differing variables:\\n           L v  (x)    int8  1\\n           R v  (y)    int8  '
                 "1'")),
               ('vars', 'one-a',
                ('ok', 'str',
                 "'Left and right Group objects are not equal\\n  Differing tree structure:\\n    Missing left:\\n    - /a\\n  Differing groups:\\n    Group "
                 "/:\\n      Variables:\\n        Missing right:\\n         - v\\n         - w'")),
               ('vars', 'one-b',
                ('ok', 'str',
                 "'Left and right Group objects are not equal\\n  Differing tree structure:\\n    Missing left:\\n    - /b\\n  Differing groups:\\n    Group "
                 "/:\\n      Variables:\\n        Missing right:\\n         - v\\n         - w'")),
               ('vars', 'one-ab',
                ('ok', 'str',
                 "'Left and right Group objects are not equal\\n  Differing tree structure:\\n    Missing left:\\n    - /a\\n    - /b\\n  Differing "
                 "groups:\\n    Group /:\\n      Variables:\\n        Missing right:\\n         - v\\n         - w'")),
               ('vars', 'one-ba',
                ('ok', 'str',
                 "'Left and right Group objects are not equal\\n  Differing tree structure:\\n    Missing left:\\n    - /b\\n    - /a\\n  Differing "
                 "groups:\\n    Group /:\\n      Variables:\\n        Missing right:\\n         - v\\n         - w'")),
               ('vars', 'one-a-attrs',
                ('ok', 'str',
                 "'Left and right Group objects are not equal\\n  Differing tree structure:\\n    Missing left:\\n    - /a\\n  Differing groups:\\n    Group "
                 "/:\\n      Variables:\\n        Missing right:\\n         - v\\n         - w'")),
               ('vars', 'one-a-attrs-b',
                ('ok', 'str',
                 "'Left and right Group objects are not equal\\n  Differing tree structure:\\n    Missing left:\\n    - /a\\n  Differing groups:\\n    Group "
                 "/:\\n      Variables:\\n        Missing right:\\n         - v\\n         - w'")),
               ('vars', 'one-a-url',
                ('ok', 'str',
                 "'Left and right Group objects are not equal\\n  Differing tree structure:\\n    Missing left:\\n    - /a\\n  Differing groups:\\n    Group "
                 "/:\\n      Differing Url:\\n      L  None\\n      R  memory://y\\n      Variables:\\n        Missing right:\\n         - v\\n         - w'")),
               ('vars', 'two',
                ('ok', 'str',
                 "'Left and right Group objects are not equal\\n  Differing tree structure:\\n    Missing left:\\n    - /a\\n    - /a/b\\n    - /a/b/c\\n    - "
                 "/d\\n  Differing groups:\\n    Group /:\\n      Variables:\\n        Missing right:\\n         - v\\n         - w'")),
               ('vars', 'two-b',
                ('ok', 'str',
                 "'Left and right Group objects are not equal\\n  Differing tree structure:\\n    Missing left:\\n    - /a\\n    - /a/b\\n    - /a/b/e\\n    - "
                 "/f\\n  Differing groups:\\n    Group /:\\n      Variables:\\n        Missing right:\\n         - v\\n         - w'")),
               ('vars', 'two-c',
                ('ok', 'str',
                 "'Left and right Group objects are not equal\\n  Differing tree structure:\\n    Missing left:\\n    - /a\\n    - /a/b\\n    - /a/b/c\\n    - "
                 '/d\\n  Differing groups:\\n    Group /:\\n      Variables:\\n        Missing right:\\n         - v\\n         - w\\n      '
                 "Attributes:\\n        Missing left:\\n         - top'")),
               ('vars', 'mixed',
                ('ok', 'str',
                 "'Left and right Group objects are not equal\\n  Differing tree structure:\\n    Missing left:\\n    - /g\\n    - /h\\n    - /h/g\\n  "
                 "Differing groups:\\n    Group /:\\n      Variables:\\n        Missing right:\\n         - w'")),
               ('vars', 'mixed-b',
                ('ok', 'str',
                 "'Left and right Group objects are not equal\\n  Differing tree structure:\\n    Missing left:\\n    - /h\\n    - /h/g\\n    - /h/k\\n    - "
                 "/g\\n  Differing groups:\\n    Group /:\\n      Variables:\\n        Missing right:\\n         - w'")),
               ('vars', 'arrays',
                ('ok', 'str',
                 "'Left and right Group objects are not equal\\n  Differing groups:\\n    Group /:\\n      Variables:\\n        Missing left:\\n         - "
                 "data\\n        Missing right:\\n         - v\\n         - w'")),
               ('vars', 'arrays-b',
                ('ok', 'str',
                 "'Left and right Group objects are not equal\\n  Differing groups:\\n    Group /:\\n      Variables:\\n        Missing left:\\n         - "
                 "data\\n        Missing right:\\n         - v\\n         - w'")),
               ('vars', 'sub',
                ('ok', 'str',
                 "'Left and right Group objects are not equal\\n  Differing tree structure:\\n    Missing left:\\n    - /a\\n  Differing groups:\\n    Group "
                 "/:\\n      Variables:\\n        Missing right:\\n         - v\\n         - w'")),
               ('vars', 'sub-b',
                ('ok', 'str',
                 "'Left and right Group objects are not equal\\n  Differing tree structure:\\n    Missing left:\\n    - /a\\n  Differing groups:\\n    Group "
                 "/:\\n      Variables:\\n        Missing right:\\n         - v\\n         - w'")),
               ('vars', 'nested-path',
                ('ok', 'str',
                 "'Left and right Group objects are not equal\\n  Differing tree structure:\\n    Missing left:\\n    - /prefix\\n    - /prefix/a\\n    "
                 "Missing right:\\n    - /'")),
               ('vars-b', 'empty',
                ('ok', 'str',
                 "'Left and right Group objects are not equal\\n  Differing groups:\\n    Group /:\\n      Variables:\\n        Missing right:\\n         - "
                 "v\\n         - w'")),
               ('vars-b', 'empty-url',
                ('ok', 'str',
                 "'Left and right Group objects are not equal\\n  Differing groups:\\n    Group /:\\n      Differing Url:\\n      L  None\\n      R  "
                 "memory://a\\n      Variables:\\n        Missing right:\\n         - v\\n         - w'")),
               ('vars-b', 'empty-url-b',
                ('ok', 'str',
                 "'Left and right Group objects are not equal\\n  Differing groups:\\n    Group /:\\n      Differing Url:\\n      L  None\\n      R  "
                 "memory://b\\n      Variables:\\n        Missing right:\\n         - v\\n         - w'")),
               ('vars-b', 'empty-path',
                ('ok', 'str',
                 "'Left and right Group objects are not equal\\n  Differing tree structure:\\n    Missing left:\\n    - /root\\n    Missing right:\\n    - "
                 "/'")),
               ('vars-b', 'empty-attrs',
                ('ok', 'str',
                 "'Left and right Group objects are not equal\\n  Differing groups:\\n    Group /:\\n      Variables:\\n        Missing right:\\n         - "
                 "v\\n         - w\\n      Attributes:\\n        Missing left:\\n         - a'")),
               ('vars-b', 'empty-attrs-b',
                ('ok', 'str',
                 "'Left and right Group objects are not equal\\n  Differing groups:\\n    Group /:\\n      Variables:\\n        Missing right:\\n         - "
                 "v\\n         - w\\n      Attributes:\\n        Missing left:\\n         - a\\n         - b'")),
               ('vars-b', 'vars',
                ('ok', 'str',
                 "'Left and right Group objects are not equal\\n  Differing groups:\\n    Group /:\\n      Variables:\\n        Differing "
                 "variables:\\n           L w  (x)    int8  3\\n           R w  (x)    int8  2'")),
               ('vars-b', 'vars-b', ('ok', 'str', "'Left and right Group objects are not equal\\n'")),
               ('vars-b', 'vars-c',
                ('ok', 'str',
                 "'Left and right Group objects are not equal\\n  Differing groups:\\n    Group /:\\n      Variables:\\n        Differing "
                 "variables:\\n           L w  (x)    int8  3\\n           R w  (x)    int8  2'")),
               ('vars-b', 'vars-d',
                ('ok', 'str',
                 "'Left and right Group objects are not equal\\n  Differing groups:\\n    Group /:\\n      Variables:\\n        Missing left:\\n         - "
                 'u\\n        Missing right:\\n         - w\\n        Differing variables:\\n           L v  (x)    int8  1\\n           R v  (y)    int8  '
                 "1'")),
               ('vars-b', 'one-a',
                ('ok', 'str',
                 "'Left and right Group objects are not equal\\n  Differing tree structure:\\n    Missing left:\\n    - /a\\n  Differing groups:\\n    Group "
                 "/:\\n      Variables:\\n        Missing right:\\n         - v\\n         - w'")),
               ('vars-b', 'one-b',
                ('ok', 'str',
                 "'Left and right Group objects are not equal\\n  Differing tree structure:\\n    Missing left:\\n    - /b\\n  Differing groups:\\n    Group "
                 "/:\\n      Variables:\\n        Missing right:\\n         - v\\n         - w'")),
               ('vars-b', 'one-ab',
                ('ok', 'str',
                 "'Left and right Group objects are not equal\\n  Differing tree structure:\\n    Missing left:\\n    - /a\\n    - /b\\n  Differing "
                 "groups:\\n    Group /:\\n      Variables:\\n        Missing right:\\n         - v\\n         - w'")),
               ('vars-b', 'one-ba',
                ('ok', 'str',
                 "'Left and right Group objects are not equal\\n  Differing tree structure:\\n    Missing left:\\n    - /b\\n    - /a\\n  Differing "
                 "groups:\\n    Group /:\\n      Variables:\\n        Missing right:\\n         - v\\n         - w'")),
               ('vars-b', 'one-a-attrs',
                ('ok', 'str',
                 "'Left and right Group objects are not equal\\n  Differing tree structure:\\n    Missing left:\\n    - /a\\n  Differing groups:\\n    Group "
                 "/:\\n      Variables:\\n        Missing right:\\n         - v\\n         - w'")),
               ('vars-b', 'one-a-attrs-b',
                ('ok', 'str',
                 "'Left and right Group objects are not equal\\n  Differing tree structure:\\n    Missing left:\\n    - /a\\n  Differing groups:\\n    Group "
                 "/:\\n      Variables:\\n        Missing right:\\n         - v\\n         - w'")),
               ('vars-b', 'one-a-url',
                ('ok', 'str',
                 "'Left and right Group objects are not equal\\n  Differing tree structure:\\n    Missing left:\\n    - /a\\n  Differing groups:\\n    Group "
                 "/:\\n      Differing Url:\\n      L  None\\n      R  memory://y\\n      Variables:\\n        Missing right:\\n         - v\\n         - w'")),
               ('vars-b', 'two',
                ('ok', 'str',
                 "'Left and right Group objects are not equal\\n  Differing tree structure:\\n    Missing left:\\n    - /a\\n    - /a/b\\n    - /a/b/c\\n    - "
                 "/d\\n  Differing groups:\\n    Group /:\\n      Variables:\\n        Missing right:\\n         - v\\n         - w'")),
               ('vars-b', 'two-b',
                ('ok', 'str',
                 "'Left and right Group objects are not equal\\n  Differing tree structure:\\n    Missing left:\\n    - /a\\n    - /a/b\\n    - /a/b/e\\n    - "
                 "/f\\n  Differing groups:\\n    Group /:\\n      Variables:\\n        Missing right:\\n         - v\\n         - w'")),
               ('vars-b', 'two-c',
                ('ok', 'str',
                 "'Left and right Group objects are not equal\\n  Differing tree structure:\\n    Missing left:\\n    - /a\\n    - /a/b\\n    - /a/b/c\\n    - "
                 '/d\\n  Differing groups:\\n    Group /:\\n      Variables:\\n        Missing right:\\n         - v\\n         - w\\n      '
                 "Attributes:\\n        Missing left:\\n         - top'")),
               ('vars-b', 'mixed',
                ('ok', 'str',
                 "'Left and right Group objects are not equal\\n  Differing tree structure:\\n    Missing left:\\n    - /g\\n    - /h\\n    - /h/g\\n  "
                 "Differing groups:\\n    Group /:\\n      Variables:\\n        Missing right:\\n         - w'")),
               ('vars-b', 'mixed-b',
                ('ok', 'str',
                 "'Left and right Group objects are not equal\\n  Differing tree structure:\\n    Missing left:\\n    - /h\\n    - /h/g\\n    - /h/k\\n    - "
                 "/g\\n  Differing groups:\\n    Group /:\\n      Variables:\\n        Missing right:\\n         - w'")),
               ('vars-b', 'arrays',
                ('ok', 'str',
                 "'Left and right Group objects are not equal\\n  Differing groups:\\n    Group /:\\n      Variables:\\n        Missing left:\\n         - "
                 "data\\n        Missing right:\\n         - v\\n         - w'")),
               ('vars-b', 'arrays-b',
                ('ok', 'str',
                 "'Left and right Group objects are not equal\\n  Differing groups:\\n    Group /:\\n      Variables:\\n        Missing left:\\n         - "
                 "data\\n        Missing right:\\n         - v\\n         - w'")),
               ('vars-b', 'sub',
                ('ok', 'str',
                 "'Left and right Group objects are not equal\\n  Differing tree structure:\\n    Missing left:\\n    - /a\\n  Differing groups:\\n    Group "
                 "/:\\n      Variables:\\n        Missing right:\\n         - v\\n         - w'")),
               ('vars-b', 'sub-b',
                ('ok', 'str',
                 "'Left and right Group objects are not equal\\n  Differing tree structure:\\n    Missing left:\\n    - /a\\n  Differing groups:\\n    Group "
                 "/:\\n      Variables:\\n        Missing right:\\n         - v\\n         - w'")),
               ('vars-b', 'nested-path',
                ('ok', 'str',
                 "'Left and right Group objects are not equal\\n  Differing tree structure:\\n    Missing left:\\n    - /prefix\\n    - /prefix/a\\n    "
                 "Missing right:\\n    - /'")),
               ('vars-c', 'empty',
                ('ok', 'str',
                 "'Left and right Group objects are not equal\\n  Differing groups:\\n    Group /:\\n      Variables:\\n        Missing right:\\n         - "
                 "w\\n         - v'")),
               ('vars-c', 'empty-url',
                ('ok', 'str',
                 "'Left and right Group objects are not equal\\n  Differing groups:\\n    Group /:\\n      Differing Url:\\n      L  None\\n      R  "
                 "memory://a\\n      Variables:\\n        Missing right:\\n         - w\\n         - v'")),
               ('vars-c', 'empty-url-b',
                ('ok', 'str',
                 "'Left and right Group objects are not equal\\n  Differing groups:\\n    Group /:\\n      Differing Url:\\n      L  None\\n      R  "
                 "memory://b\\n      Variables:\\n        Missing right:\\n         - w\\n         - v'")),
               ('vars-c', 'empty-path',
                ('ok', 'str',
                 "'Left and right Group objects are not equal\\n  Differing tree structure:\\n    Missing left:\\n    - /root\\n    Missing right:\\n    - "
                 "/'")),
               ('vars-c', 'empty-attrs',
                ('ok', 'str',
                 "'Left and right Group objects are not equal\\n  Differing groups:\\n    Group /:\\n      Variables:\\n        Missing right:\\n         - "
                 "w\\n         - v\\n      Attributes:\\n        Missing left:\\n         - a'")),
               ('vars-c', 'empty-attrs-b',
                ('ok', 'str',
                 "'Left and right Group objects are not equal\\n  Differing groups:\\n    Group /:\\n      Variables:\\n        Missing right:\\n         - "
                 "w\\n         - v\\n      Attributes:\\n        Missing left:\\n         - a\\n         - b'")),
               ('vars-c', 'vars', ('ok', 'str', "'Left and right Group objects are not equal\\n  Differing groups:\\n    Group /:\\n'")),
               ('vars-c', 'vars-b',
                ('ok', 'str',
                 "'Left and right Group objects are not equal\\n  Differing groups:\\n    Group /:\\n      Variables:\\n        Differing "
                 "variables:\\n           L w  (x)    int8  2\\n           R w  (x)    int8  3'")),
               ('vars-c', 'vars-c', ('ok', 'str', "'Left and right Group objects are not equal\\n'")),
               ('vars-c', 'vars-d',
                ('ok', 'str',
                 "'Left and right Group objects are not equal\\n  Differing groups:\\n    Group /:\\n      Variables:\\n        Missing left:\\n         - "
                 'u\\n        Missing right:\\n         - w\\n        Differing variables:\\n           L v  (x)    int8  1\\n           R v  (y)    int8  '
                 "1'")),
               ('vars-c', 'one-a',
                ('ok', 'str',
                 "'Left and right Group objects are not equal\\n  Differing tree structure:\\n    Missing left:\\n    - /a\\n  Differing groups:\\n    Group "
                 "/:\\n      Variables:\\n        Missing right:\\n         - w\\n         - v'")),
               ('vars-c', 'one-b',
                ('ok', 'str',
                 "'Left and right Group objects are not equal\\n  Differing tree structure:\\n    Missing left:\\n    - /b\\n  Differing groups:\\n    Group "
                 "/:\\n      Variables:\\n        Missing right:\\n         - w\\n         - v'")),
               ('vars-c', 'one-ab',
                ('ok', 'str',
                 "'Left and right Group objects are not equal\\n  Differing tree structure:\\n    Missing left:\\n    - /a\\n    - /b\\n  Differing "
                 "groups:\\n    Group /:\\n      Variables:\\n        Missing right:\\n         - w\\n         - v'")),
               ('vars-c', 'one-ba',
                ('ok', 'str',
                 "'Left and right Group objects are not equal\\n  Differing tree structure:\\n    Missing left:\\n    - /b\\n    - /a\\n  Differing "
                 "groups:\\n    Group /:\\n      Variables:\\n        Missing right:\\n         - w\\n         - v'")),
               ('vars-c', 'one-a-attrs',
                ('ok', 'str',
                 "'Left and right Group objects are not equal\\n  Differing tree structure:\\n    Missing left:\\n    - /a\\n  Differing groups:\\n    Group "
                 "/:\\n      Variables:\\n        Missing right:\\n         - w\\n         - v'")),
               ('vars-c', 'one-a-attrs-b',
                ('ok', 'str',
                 "'Left and right Group objects are not equal\\n  Differing tree structure:\\n    Missing left:\\n    - /a\\n  Differing groups:\\n    Group "
                 "/:\\n      Variables:\\n        Missing right:\\n         - w\\n         - v'")),
               ('vars-c', 'one-a-url',
                ('ok', 'str',
                 "'Left and right Group objects are not equal\\n  Differing tree structure:\\n    Missing left:\\n    - /a\\n  Differing groups:\\n    Group "
                 "/:\\n      Differing Url:\\n      L  None\\n      R  memory://y\\n      Variables:\\n        Missing right:\\n         - w\\n         - v'")),
               ('vars-c', 'two',
                ('ok', 'str',
                 "'Left and right Group objects are not equal\\n  Differing tree structure:\\n    Missing left:\\n    - /a\\n    - /a/b\\n    - /a/b/c\\n    - "
                 "/d\\n  Differing groups:\\n    Group /:\\n      Variables:\\n        Missing right:\\n         - w\\n         - v'")),
               ('vars-c', 'two-b',
                ('ok', 'str',
                 "'Left and right Group objects are not equal\\n  Differing tree structure:\\n    Missing left:\\n    - /a\\n    - /a/b\\n    - /a/b/e\\n    - "
                 "/f\\n  Differing groups:\\n    Group /:\\n      Variables:\\n        Missing right:\\n         - w\\n         - v'")),
               ('vars-c', 'two-c',
                ('ok', 'str',
                 "'Left and right Group objects are not equal\\n  Differing tree structure:\\n    Missing left:\\n    - /a\\n    - /a/b\\n    - /a/b/c\\n    - "
                 '/d\\n  Differing groups:\\n    Group /:\\n      Variables:\\n        Missing right:\\n         - w\\n         - v\\n      '
                 "Attributes:\\n        Missing left:\\n         - top'")),
               ('vars-c', 'mixed',
                ('ok', 'str',
                 "'Left and right Group objects are not equal\\n  Differing tree structure:\\n    Missing left:\\n    - /g\\n    - /h\\n    - /h/g\\n  "
                 "Differing groups:\\n    Group /:\\n      Variables:\\n        Missing right:\\n         - w'")),
               ('vars-c', 'mixed-b',
                ('ok', 'str',
                 "'Left and right Group objects are not equal\\n  Differing tree structure:\\n    Missing left:\\n    - /h\\n    - /h/g\\n    - /h/k\\n    - "
                 "/g\\n  Differing groups:\\n    Group /:\\n      Variables:\\n        Missing right:\\n         - w'")),
               ('vars-c', 'arrays',
                ('ok', 'str',
                 "'Left and right Group objects are not equal\\n  Differing groups:\\n    Group /:\\n      Variables:\\n        Missing left:\\n         - "
                 "data\\n        Missing right:\\n         - w\\n         - v'")),
               ('vars-c', 'arrays-b',
                ('ok', 'str',
                 "'Left and right Group objects are not equal\\n  Differing groups:\\n    Group /:\\n      Variables:\\n        Missing left:\\n         - "
                 "data\\n        Missing right:\\n         - w\\n         - v'")),
               ('vars-c', 'sub',
                ('ok', 'str',
                 "'Left and right Group objects are not equal\\n  Differing tree structure:\\n    Missing left:\\n    - /a\\n  Differing groups:\\n    Group "
                 "/:\\n      Variables:\\n        Missing right:\\n         - w\\n         - v'")),
               ('vars-c', 'sub-b',
                ('ok', 'str',
                 "'Left and right Group objects are not equal\\n  Differing tree structure:\\n    Missing left:\\n    - /a\\n  Differing groups:\\n    Group "
                 "/:\\n      Variables:\\n        Missing right:\\n         - w\\n         - v'")),
               ('vars-c', 'nested-path',
                ('ok', 'str',
                 "'Left and right Group objects are not equal\\n  Differing tree structure:\\n    Missing left:\\n    - /prefix\\n    - /prefix/a\\n    "
                 "Missing right:\\n    - /'")),
               ('vars-d', 'empty',
                ('ok', 'str',
                 "'Left and right Group objects are not equal\\n  Differing groups:\\n    Group /:\\n      Variables:\\n        Missing right:\\n         - "
                 "v\\n         - u'")),
               ('vars-d', 'empty-url',
                ('ok', 'str',
                 "'Left and right Group objects are not equal\\n  Differing groups:\\n    Group /:\\n      Differing Url:\\n      L  None\\n      R  "
                 "memory://a\\n      Variables:\\n        Missing right:\\n         - v\\n         - u'")),
               ('vars-d', 'empty-url-b',
                ('ok', 'str',
                 "'Left and right Group objects are not equal\\n  Differing groups:\\n    Group /:\\n      Differing Url:\\n      L  None\\n      R  "
                 "memory://b\\n      Variables:\\n        Missing right:\\n         - v\\n         - u'")),
               ('vars-d', 'empty-path',
                ('ok', 'str',
                 "'Left and right Group objects are not equal\\n  Differing tree structure:\\n    Missing left:\\n    - /root\\n    Missing right:\\n    - "
                 "/'")),
               ('vars-d', 'empty-attrs',
                ('ok', 'str',
                 "'Left and right Group objects are not equal\\n  Differing groups:\\n    Group /:\\n      Variables:\\n        Missing right:\\n         - "
                 "v\\n         - u\\n      Attributes:\\n        Missing left:\\n         - a'")),
               ('vars-d', 'empty-attrs-b',
                ('ok', 'str',
                 "'Left and right Group objects are not equal\\n  Differing groups:\\n    Group /:\\n      Variables:\\n        Missing right:\\n         - "
                 "v\\n         - u\\n      Attributes:\\n        Missing left:\\n         - a\\n         - b'")),
               ('vars-d', 'vars',
                ('ok', 'str',
                 "'Left and right Group objects are not equal\\n  Differing groups:\\n    Group /:\\n      Variables:\\n        Missing left:\\n         - "
                 'w\\n        Missing right:\\n         - u\\n        Differing variables:\\n           L v  (y)    int8  1\\n           R v  (x)    int8  '
                 "1'")),
               ('vars-d', 'vars-b',
                ('ok', 'str',
                 "'Left and right Group objects are not equal\\n  Differing groups:\\n    Group /:\\n      Variables:\\n        Missing left:\\n         - "
                 'w\\n        Missing right:\\n         - u\\n        Differing variables:\\n           L v  (y)    int8  1\\n           R v  (x)    int8  '
                 "1'")),
               ('vars-d', 'vars-c',
                ('ok', 'str',
                 "'Left and right Group objects are not equal\\n  Differing groups:\\n    Group /:\\n      Variables:\\n        Missing left:\\n         - "
                 'w\\n        Missing right:\\n         - u\\n        Differing variables:\\n           L v  (y)    int8  1\\n           R v  (x)    int8  '
                 "1'")),
               ('vars-d', 'vars-d', ('ok', 'str', "'Left and right Group objects are not equal\\n'")),
               ('vars-d', 'one-a',
                ('ok', 'str',
                 "'Left and right Group objects are not equal\\n  Differing tree structure:\\n    Missing left:\\n    - /a\\n  Differing groups:\\n    Group "
                 "/:\\n      Variables:\\n        Missing right:\\n         - v\\n         - u'")),
               ('vars-d', 'one-b',
                ('ok', 'str',
                 "'Left and right Group objects are not equal\\n  Differing tree structure:\\n    Missing left:\\n    - /b\\n  Differing groups:\\n    Group "
                 "/:\\n      Variables:\\n        Missing right:\\n         - v\\n         - u'")),
               ('vars-d', 'one-ab',
                ('ok', 'str',
                 "'Left and right Group objects are not equal\\n  Differing tree structure:\\n    Missing left:\\n    - /a\\n    - /b\\n  Differing "
                 "groups:\\n    Group /:\\n      Variables:\\n        Missing right:\\n         - v\\n         - u'")),
               ('vars-d', 'one-ba',
                ('ok', 'str',
                 "'Left and right Group objects are not equal\\n  Differing tree structure:\\n    Missing left:\\n    - /b\\n    - /a\\n  Differing "
                 "groups:\\n    Group /:\\n      Variables:\\n        Missing right:\\n         - v\\n         - u'")),
               ('vars-d', 'one-a-attrs',
                ('ok', 'str',
                 "'Left and right Group objects are not equal\\n  Differing tree structure:\\n    Missing left:\\n    - /a\\n  Differing groups:\\n    Group "
                 "/:\\n      Variables:\\n        Missing right:\\n         - v\\n         - u'")),
               ('vars-d', 'one-a-attrs-b',
                ('ok', 'str',
                 "'Left and right Group objects are not equal\\n  Differing tree structure:\\n    Missing left:\\n    - /a\\n  Differing groups:\\n    Group "
                 "/:\\n      Variables:\\n        Missing right:\\n         - v\\n         - u'")),
               ('vars-d', 'one-a-url',
                ('ok', 'str',
                 "'Left and right Group objects are not equal\\n  Differing tree structure:\\n    Missing left:\\n    - /a\\n  Differing groups:\\n    Group "
                 "/:\\n      Differing Url:\\n      L  None\\n      R  memory://y\\n      Variables:\\n        Missing right:\\n         - v\\n         - u'")),
               ('vars-d', 'two',
                ('ok', 'str',
                 "'Left and right Group objects are not equal\\n  Differing tree structure:\\n    Missing left:\\n    - /a\\n    - /a/b\\n    - /a/b/c\\n    - "
                 "/d\\n  Differing groups:\\n    Group /:\\n      Variables:\\n        Missing right:\\n         - v\\n         - u'")),
               ('vars-d', 'two-b',
                ('ok', 'str',
                 "'Left and right Group objects are not equal\\n  Differing tree structure:\\n    Missing left:\\n    - /a\\n    - /a/b\\n    - /a/b/e\\n    - "
                 "/f\\n  Differing groups:\\n    Group /:\\n      Variables:\\n        Missing right:\\n         - v\\n         - u'")),
               ('vars-d', 'two-c',
                ('ok', 'str',
                 "'Left and right Group objects are not equal\\n  Differing tree structure:\\n    Missing left:\\n    - /a\\n    - /a/b\\n    - /a/b/c\\n    - "
                 '/d\\n  Differing groups:\\n    Group /:\\n      Variables:\\n        Missing right:\\n         - v\\n         - u\\n      '
                 "Attributes:\\n        Missing left:\\n         - top'")),
               ('vars-d', 'mixed',
                ('ok', 'str',
                 "'Left and right Group objects are not equal\\n  Differing tree structure:\\n    Missing left:\\n    - /g\\n    - /h\\n    - /h/g\\n  "
                 'Differing groups:\\n    Group /:\\n      Variables:\\n        Missing right:\\n         - u\\n        Differing variables:\\n           L v  '
                 "(y)    int8  1\\n           R v  (x)    int8  1'")),
               ('vars-d', 'mixed-b',
                ('ok', 'str',
                 "'Left and right Group objects are not equal\\n  Differing tree structure:\\n    Missing left:\\n    - /h\\n    - /h/g\\n    - /h/k\\n    - "
                 '/g\\n  Differing groups:\\n    Group /:\\n      Variables:\\n        Missing right:\\n         - u\\n        Differing '
                 "variables:\\n           L v  (y)    int8  1\\n           R v  (x)    int8  1'")),
               ('vars-d', 'arrays',
                ('ok', 'str',
                 "'Left and right Group objects are not equal\\n  Differing groups:\\n    Group /:\\n      Variables:\\n        Missing left:\\n         - "
                 "data\\n        Missing right:\\n         - v\\n         - u'")),
               ('vars-d', 'arrays-b',
                ('ok', 'str',
                 "'Left and right Group objects are not equal\\n  Differing groups:\\n    Group /:\\n      Variables:\\n        Missing left:\\n         - "
                 "data\\n        Missing right:\\n         - v\\n         - u'")),
               ('vars-d', 'sub',
                ('ok', 'str',
                 "'Left and right Group objects are not equal\\n  Differing tree structure:\\n    Missing left:\\n    - /a\\n  Differing groups:\\n    Group "
                 "/:\\n      Variables:\\n        Missing right:\\n         - v\\n         - u'")),
               ('vars-d', 'sub-b',
                ('ok', 'str',
                 "'Left and right Group objects are not equal\\n  Differing tree structure:\\n    Missing left:\\n    - /a\\n  Differing groups:\\n    Group "
                 "/:\\n      Variables:\\n        Missing right:\\n         - v\\n         - u'")),
               ('vars-d', 'nested-path',
                ('ok', 'str',
                 "'Left and right Group objects are not equal\\n  Differing tree structure:\\n    Missing left:\\n    - /prefix\\n    - /prefix/a\\n    "
                 "Missing right:\\n    - /'")),
               ('one-a', 'empty', ('ok', 'str', "'Left and right Group objects are not equal\\n  Differing tree structure:\\n    Missing right:\\n    - /a'")),
               ('one-a', 'empty-url',
                ('ok', 'str',
                 "'Left and right Group objects are not equal\\n  Differing tree structure:\\n    Missing right:\\n    - /a\\n  Differing groups:\\n    Group "
                 "/:\\n      Differing Url:\\n      L  None\\n      R  memory://a'")),
               ('one-a', 'empty-url-b',
                ('ok', 'str',
                 "'Left and right Group objects are not equal\\n  Differing tree structure:\\n    Missing right:\\n    - /a\\n  Differing groups:\\n    Group "
                 "/:\\n      Differing Url:\\n      L  None\\n      R  memory://b'")),
               ('one-a', 'empty-path',
                ('ok', 'str',
                 "'Left and right Group objects are not equal\\n  Differing tree structure:\\n    Missing left:\\n    - /root\\n    Missing right:\\n    - "
                 "/\\n    - /a'")),
               ('one-a', 'empty-attrs',
                ('ok', 'str',
                 "'Left and right Group objects are not equal\\n  Differing tree structure:\\n    Missing right:\\n    - /a\\n  Differing groups:\\n    Group "
                 "/:\\n      Attributes:\\n        Missing left:\\n         - a'")),
               ('one-a', 'empty-attrs-b',
                ('ok', 'str',
                 "'Left and right Group objects are not equal\\n  Differing tree structure:\\n    Missing right:\\n    - /a\\n  Differing groups:\\n    Group "
                 "/:\\n      Attributes:\\n        Missing left:\\n         - a\\n         - b'")),
               ('one-a', 'vars',
                ('ok', 'str',
                 "'Left and right Group objects are not equal\\n  Differing tree structure:\\n    Missing right:\\n    - /a\\n  Differing groups:\\n    Group "
                 "/:\\n      Variables:\\n        Missing left:\\n         - v\\n         - w'")),
               ('one-a', 'vars-b',
                ('ok', 'str',
                 "'Left and right Group objects are not equal\\n  Differing tree structure:\\n    Missing right:\\n    - /a\\n  Differing groups:\\n    Group "
                 "/:\\n      Variables:\\n        Missing left:\\n         - v\\n         - w'")),
               ('one-a', 'vars-c',
                ('ok', 'str',
                 "'Left and right Group objects are not equal\\n  Differing tree structure:\\n    Missing right:\\n    - /a\\n  Differing groups:\\n    Group "
                 "/:\\n      Variables:\\n        Missing left:\\n         - w\\n         - v'")),
               ('one-a', 'vars-d',
                ('ok', 'str',
                 "'Left and right Group objects are not equal\\n  Differing tree structure:\\n    Missing right:\\n    - /a\\n  Differing groups:\\n    Group "
                 "/:\\n      Variables:\\n        Missing left:\\n         - v\\n         - u'")),
               ('one-a', 'one-a', ('ok', 'str', "'Left and right Group objects are not equal\\n'")),
               ('one-a', 'one-b',
                ('ok', 'str',
                 "'Left and right Group objects are not equal\\n  Differing tree structure:\\n    Missing left:\\n    - /b\\n    Missing right:\\n    - /a'")),
               ('one-a', 'one-ab', ('ok', 'str', "'Left and right Group objects are not equal\\n  Differing tree structure:\\n    Missing left:\\n    - /b'")),
               ('one-a', 'one-ba', ('ok', 'str', "'Left and right Group objects are not equal\\n  Differing tree structure:\\n    Missing left:\\n    - /b'")),
               ('one-a', 'one-a-attrs',
                ('ok', 'str',
                 "'Left and right Group objects are not equal\\n  Differing groups:\\n    Group /a:\\n      Attributes:\\n        Missing left:\\n         - "
                 "a'")),
               ('one-a', 'one-a-attrs-b',
                ('ok', 'str',
                 "'Left and right Group objects are not equal\\n  Differing groups:\\n    Group /a:\\n      Attributes:\\n        Missing left:\\n         - "
                 "a'")),
               ('one-a', 'one-a-url',
                ('ok', 'str',
                 "'Left and right Group objects are not equal\\n  Differing groups:\\n    Group /:\\n      Differing Url:\\n      L  None\\n      R  "
                 "memory://y\\n    Group /a:\\n      Differing Url:\\n      L  None\\n      R  memory://x'")),
               ('one-a', 'two',
                ('ok', 'str',
                 "'Left and right Group objects are not equal\\n  Differing tree structure:\\n    Missing left:\\n    - /a/b\\n    - /a/b/c\\n    - /d\\n  "
                 "Differing groups:\\n    Group /a:\\n      Variables:\\n        Missing left:\\n         - v'")),
               ('one-a', 'two-b',
                ('ok', 'str',
                 "'Left and right Group objects are not equal\\n  Differing tree structure:\\n    Missing left:\\n    - /a/b\\n    - /a/b/e\\n    - /f\\n  "
                 "Differing groups:\\n    Group /a:\\n      Variables:\\n        Missing left:\\n         - v'")),
               ('one-a', 'two-c',
                ('ok', 'str',
                 "'Left and right Group objects are not equal\\n  Differing tree structure:\\n    Missing left:\\n    - /a/b\\n    - /a/b/c\\n    - /d\\n  "
                 'Differing groups:\\n    Group /:\\n      Attributes:\\n        Missing left:\\n         - top\\n    Group /a:\\n      Variables:\\n        '
                 "Missing left:\\n         - v'")),
               ('one-a', 'mixed',
                ('ok', 'str',
                 "'Left and right Group objects are not equal\\n  Differing tree structure:\\n    Missing left:\\n    - /g\\n    - /h\\n    - /h/g\\n    "
                 "Missing right:\\n    - /a\\n  Differing groups:\\n    Group /:\\n      Variables:\\n        Missing left:\\n         - v'")),
               ('one-a', 'mixed-b',
                ('ok', 'str',
                 "'Left and right Group objects are not equal\\n  Differing tree structure:\\n    Missing left:\\n    - /h\\n    - /h/g\\n    - /h/k\\n    - "
                 "/g\\n    Missing right:\\n    - /a\\n  Differing groups:\\n    Group /:\\n      Variables:\\n        Missing left:\\n         - v'")),
               ('one-a', 'arrays',
                ('ok', 'str',
                 "'Left and right Group objects are not equal\\n  Differing tree structure:\\n    Missing right:\\n    - /a\\n  Differing groups:\\n    Group "
                 "/:\\n      Variables:\\n        Missing left:\\n         - data'")),
               ('one-a', 'arrays-b',
                ('ok', 'str',
                 "'Left and right Group objects are not equal\\n  Differing tree structure:\\n    Missing right:\\n    - /a\\n  Differing groups:\\n    Group "
                 "/:\\n      Variables:\\n        Missing left:\\n         - data'")),
               ('one-a', 'sub', ('ok', 'str', "'Left and right Group objects are not equal\\n'")),
               ('one-a', 'sub-b',
                ('ok', 'str',
                 "'Left and right Group objects are not equal\\n  Differing groups:\\n    Group /a:\\n      Attributes:\\n        Missing left:\\n         - "
                 "q'")),
               ('one-a', 'nested-path',
                ('ok', 'str',
                 "'Left and right Group objects are not equal\\n  Differing tree structure:\\n    Missing left:\\n    - /prefix\\n    - /prefix/a\\n    "
                 "Missing right:\\n    - /\\n    - /a'")),
               ('one-b', 'empty', ('ok', 'str', "'Left and right Group objects are not equal\\n  Differing tree structure:\\n    Missing right:\\n    - /b'")),
               ('one-b', 'empty-url',
                ('ok', 'str',
                 "'Left and right Group objects are not equal\\n  Differing tree structure:\\n    Missing right:\\n    - /b\\n  Differing groups:\\n    Group "
                 "/:\\n      Differing Url:\\n      L  None\\n      R  memory://a'")),
               ('one-b', 'empty-url-b',
                ('ok', 'str',
                 "'Left and right Group objects are not equal\\n  Differing tree structure:\\n    Missing right:\\n    - /b\\n  Differing groups:\\n    Group "
                 "/:\\n      Differing Url:\\n      L  None\\n      R  memory://b'")),
               ('one-b', 'empty-path',
                ('ok', 'str',
                 "'Left and right Group objects are not equal\\n  Differing tree structure:\\n    Missing left:\\n    - /root\\n    Missing right:\\n    - "
                 "/\\n    - /b'")),
               ('one-b', 'empty-attrs',
                ('ok', 'str',
                 "'Left and right Group objects are not equal\\n  Differing tree structure:\\n    Missing right:\\n    - /b\\n  Differing groups:\\n    Group "
                 "/:\\n      Attributes:\\n        Missing left:\\n         - a'")),
               ('one-b', 'empty-attrs-b',
                ('ok', 'str',
                 "'Left and right Group objects are not equal\\n  Differing tree structure:\\n    Missing right:\\n    - /b\\n  Differing groups:\\n    Group "
                 "/:\\n      Attributes:\\n        Missing left:\\n         - a\\n         - b'")),
               ('one-b', 'vars',
                ('ok', 'str',
                 "'Left and right Group objects are not equal\\n  Differing tree structure:\\n    Missing right:\\n    - /b\\n  Differing groups:\\n    Group "
                 "/:\\n      Variables:\\n        Missing left:\\n         - v\\n         - w'")),
               ('one-b', 'vars-b',
                ('ok', 'str',
                 "'Left and right Group objects are not equal\\n  Differing tree structure:\\n    Missing right:\\n    - /b\\n  Differing groups:\\n    Group "
                 "/:\\n      Variables:\\n        Missing left:\\n         - v\\n         - w'")),
               ('one-b', 'vars-c',
                ('ok', 'str',
                 "'Left and right Group objects are not equal\\n  Differing tree structure:\\n    Missing right:\\n    - /b\\n  Differing groups:\\n    Group "
                 "/:\\n      Variables:\\n        Missing left:\\n         - w\\n         - v'")),
               ('one-b', 'vars-d',
                ('ok', 'str',
                 "'Left and right Group objects are not equal\\n  Differing tree structure:\\n    Missing right:\\n    - /b\\n  Differing groups:\\n    Group "
                 "/:\\n      Variables:\\n        Missing left:\\n         - v\\n         - u'")),
               ('one-b', 'one-a',
                ('ok', 'str',
                 "'Left and right Group objects are not equal\\n  Differing tree structure:\\n    Missing left:\\n    - /a\\n    Missing right:\\n    - /b'")),
               ('one-b', 'one-b', ('ok', 'str', "'Left and right Group objects are not equal\\n'")),
               ('one-b', 'one-ab', ('ok', 'str', "'Left and right Group objects are not equal\\n  Differing tree structure:\\n    Missing left:\\n    - /a'")),
               ('one-b', 'one-ba', ('ok', 'str', "'Left and right Group objects are not equal\\n  Differing tree structure:\\n    Missing left:\\n    - /a'")),
               ('one-b', 'one-a-attrs',
                ('ok', 'str',
                 "'Left and right Group objects are not equal\\n  Differing tree structure:\\n    Missing left:\\n    - /a\\n    Missing right:\\n    - /b'")),
               ('one-b', 'one-a-attrs-b',
                ('ok', 'str',
                 "'Left and right Group objects are not equal\\n  Differing tree structure:\\n    Missing left:\\n    - /a\\n    Missing right:\\n    - /b'")),
               ('one-b', 'one-a-url',
                ('ok', 'str',
                 "'Left and right Group objects are not equal\\n  Differing tree structure:\\n    Missing left:\\n    - /a\\n    Missing right:\\n    - /b\\n  "
                 "Differing groups:\\n    Group /:\\n      Differing Url:\\n      L  None\\n      R  memory://y'")),
               ('one-b', 'two',
                ('ok', 'str',
                 "'Left and right Group objects are not equal\\n  Differing tree structure:\\n    Missing left:\\n    - /a\\n    - /a/b\\n    - /a/b/c\\n    - "
                 "/d\\n    Missing right:\\n    - /b'")),
               ('one-b', 'two-b',
                ('ok', 'str',
                 "'Left and right Group objects are not equal\\n  Differing tree structure:\\n    Missing left:\\n    - /a\\n    - /a/b\\n    - /a/b/e\\n    - "
                 "/f\\n    Missing right:\\n    - /b'")),
               ('one-b', 'two-c',
                ('ok', 'str',
                 "'Left and right Group objects are not equal\\n  Differing tree structure:\\n    Missing left:\\n    - /a\\n    - /a/b\\n    - /a/b/c\\n    - "
                 "/d\\n    Missing right:\\n    - /b\\n  Differing groups:\\n    Group /:\\n      Attributes:\\n        Missing left:\\n         - top'")),
               ('one-b', 'mixed',
                ('ok', 'str',
                 "'Left and right Group objects are not equal\\n  Differing tree structure:\\n    Missing left:\\n    - /g\\n    - /h\\n    - /h/g\\n    "
                 "Missing right:\\n    - /b\\n  Differing groups:\\n    Group /:\\n      Variables:\\n        Missing left:\\n         - v'")),
               ('one-b', 'mixed-b',
                ('ok', 'str',
                 "'Left and right Group objects are not equal\\n  Differing tree structure:\\n    Missing left:\\n    - /h\\n    - /h/g\\n    - /h/k\\n    - "
                 "/g\\n    Missing right:\\n    - /b\\n  Differing groups:\\n    Group /:\\n      Variables:\\n        Missing left:\\n         - v'")),
               ('one-b', 'arrays',
                ('ok', 'str',
                 "'Left and right Group objects are not equal\\n  Differing tree structure:\\n    Missing right:\\n    - /b\\n  Differing groups:\\n    Group "
                 "/:\\n      Variables:\\n        Missing left:\\n         - data'")),
               ('one-b', 'arrays-b',
                ('ok', 'str',
                 "'Left and right Group objects are not equal\\n  Differing tree structure:\\n    Missing right:\\n    - /b\\n  Differing groups:\\n    Group "
                 "/:\\n      Variables:\\n        Missing left:\\n         - data'")),
               ('one-b', 'sub',
                ('ok', 'str',
                 "'Left and right Group objects are not equal\\n  Differing tree structure:\\n    Missing left:\\n    - /a\\n    Missing right:\\n    - /b'")),
               ('one-b', 'sub-b',
                ('ok', 'str',
                 "'Left and right Group objects are not equal\\n  Differing tree structure:\\n    Missing left:\\n    - /a\\n    Missing right:\\n    - /b'")),
               ('one-b', 'nested-path',
                ('ok', 'str',
                 "'Left and right Group objects are not equal\\n  Differing tree structure:\\n    Missing left:\\n    - /prefix\\n    - /prefix/a\\n    "
                 "Missing right:\\n    - /\\n    - /b'")),
               ('one-ab', 'empty',
                ('ok', 'str', "'Left and right Group objects are not equal\\n  Differing tree structure:\\n    Missing right:\\n    - /a\\n    - /b'")),
               ('one-ab', 'empty-url',
                ('ok', 'str',
                 "'Left and right Group objects are not equal\\n  Differing tree structure:\\n    Missing right:\\n    - /a\\n    - /b\\n  Differing "
                 "groups:\\n    Group /:\\n      Differing Url:\\n      L  None\\n      R  memory://a'")),
               ('one-ab', 'empty-url-b',
                ('ok', 'str',
                 "'Left and right Group objects are not equal\\n  Differing tree structure:\\n    Missing right:\\n    - /a\\n    - /b\\n  Differing "
                 "groups:\\n    Group /:\\n      Differing Url:\\n      L  None\\n      R  memory://b'")),
               ('one-ab', 'empty-path',
                ('ok', 'str',
                 "'Left and right Group objects are not equal\\n  Differing tree structure:\\n    Missing left:\\n    - /root\\n    Missing right:\\n    - "
                 "/\\n    - /a\\n    - /b'")),
               ('one-ab', 'empty-attrs',
                ('ok', 'str',
                 "'Left and right Group objects are not equal\\n  Differing tree structure:\\n    Missing right:\\n    - /a\\n    - /b\\n  Differing "
                 "groups:\\n    Group /:\\n      Attributes:\\n        Missing left:\\n         - a'")),
               ('one-ab', 'empty-attrs-b',
                ('ok', 'str',
                 "'Left and right Group objects are not equal\\n  Differing tree structure:\\n    Missing right:\\n    - /a\\n    - /b\\n  Differing "
                 "groups:\\n    Group /:\\n      Attributes:\\n        Missing left:\\n         - a\\n         - b'")),
               ('one-ab', 'vars',
                ('ok', 'str',
                 "'Left and right Group objects are not equal\\n  Differing tree structure:\\n    Missing right:\\n    - /a\\n    - /b\\n  Differing "
                 "groups:\\n    Group /:\\n      Variables:\\n        Missing left:\\n         - v\\n         - w'")),
               ('one-ab', 'vars-b',
                ('ok', 'str',
                 "'Left and right Group objects are not equal\\n  Differing tree structure:\\n    Missing right:\\n    - /a\\n    - /b\\n  Differing "
                 "groups:\\n    Group /:\\n      Variables:\\n        Missing left:\\n         - v\\n         - w'")),
               ('one-ab', 'vars-c',
                ('ok', 'str',
                 "'Left and right Group objects are not equal\\n  Differing tree structure:\\n    Missing right:\\n    - /a\\n    - /b\\n  Differing "
                 "groups:\\n    Group /:\\n      Variables:\\n        Missing left:\\n         - w\\n         - v'")),
               ('one-ab', 'vars-d',
                ('ok', 'str',
                 "'Left and right Group objects are not equal\\n  Differing tree structure:\\n    Missing right:\\n    - /a\\n    - /b\\n  Differing "
                 "groups:\\n    Group /:\\n      Variables:\\n        Missing left:\\n         - v\\n         - u'")),
               ('one-ab', 'one-a', ('ok', 'str', "'Left and right Group objects are not equal\\n  Differing tree structure:\\n    Missing right:\\n    - /b'")),
               ('one-ab', 'one-b', ('ok', 'str', "'Left and right Group objects are not equal\\n  Differing tree structure:\\n    Missing right:\\n    - /a'")),
               ('one-ab', 'one-ab', ('ok', 'str', "'Left and right Group objects are not equal\\n'")),
               ('one-ab', 'one-ba', ('ok', 'str', "'Left and right Group objects are not equal\\n'")),
               ('one-ab', 'one-a-attrs',
                ('ok', 'str',
                 "'Left and right Group objects are not equal\\n  Differing tree structure:\\n    Missing right:\\n    - /b\\n  Differing groups:\\n    Group "
                 "/a:\\n      Attributes:\\n        Missing left:\\n         - a'")),
               ('one-ab', 'one-a-attrs-b',
                ('ok', 'str',
                 "'Left and right Group objects are not equal\\n  Differing tree structure:\\n    Missing right:\\n    - /b\\n  Differing groups:\\n    Group "
                 "/a:\\n      Attributes:\\n        Missing left:\\n         - a'")),
               ('one-ab', 'one-a-url',
                ('ok', 'str',
                 "'Left and right Group objects are not equal\\n  Differing tree structure:\\n    Missing right:\\n    - /b\\n  Differing groups:\\n    Group "
                 '/:\\n      Differing Url:\\n      L  None\\n      R  memory://y\\n    Group /a:\\n      Differing Url:\\n      L  None\\n      R  '
                 "memory://x'")),
               ('one-ab', 'two',
                ('ok', 'str',
                 "'Left and right Group objects are not equal\\n  Differing tree structure:\\n    Missing left:\\n    - /a/b\\n    - /a/b/c\\n    - /d\\n    "
                 "Missing right:\\n    - /b\\n  Differing groups:\\n    Group /a:\\n      Variables:\\n        Missing left:\\n         - v'")),
               ('one-ab', 'two-b',
                ('ok', 'str',
                 "'Left and right Group objects are not equal\\n  Differing tree structure:\\n    Missing left:\\n    - /a/b\\n    - /a/b/e\\n    - /f\\n    "
                 "Missing right:\\n    - /b\\n  Differing groups:\\n    Group /a:\\n      Variables:\\n        Missing left:\\n         - v'")),
               ('one-ab', 'two-c',
                ('ok', 'str',
                 "'Left and right Group objects are not equal\\n  Differing tree structure:\\n    Missing left:\\n    - /a/b\\n    - /a/b/c\\n    - /d\\n    "
                 'Missing right:\\n    - /b\\n  Differing groups:\\n    Group /:\\n      Attributes:\\n        Missing left:\\n         - top\\n    Group '
                 "/a:\\n      Variables:\\n        Missing left:\\n         - v'")),
               ('one-ab', 'mixed',
                ('ok', 'str',
                 "'Left and right Group objects are not equal\\n  Differing tree structure:\\n    Missing left:\\n    - /g\\n    - /h\\n    - /h/g\\n    "
                 "Missing right:\\n    - /a\\n    - /b\\n  Differing groups:\\n    Group /:\\n      Variables:\\n        Missing left:\\n         - v'")),
               ('one-ab', 'mixed-b',
                ('ok', 'str',
                 "'Left and right Group objects are not equal\\n  Differing tree structure:\\n    Missing left:\\n    - /h\\n    - /h/g\\n    - /h/k\\n    - "
                 '/g\\n    Missing right:\\n    - /a\\n    - /b\\n  Differing groups:\\n    Group /:\\n      Variables:\\n        Missing left:\\n         - '
                 "v'")),
               ('one-ab', 'arrays',
                ('ok', 'str',
                 "'Left and right Group objects are not equal\\n  Differing tree structure:\\n    Missing right:\\n    - /a\\n    - /b\\n  Differing "
                 "groups:\\n    Group /:\\n      Variables:\\n        Missing left:\\n         - data'")),
               ('one-ab', 'arrays-b',
                ('ok', 'str',
                 "'Left and right Group objects are not equal\\n  Differing tree structure:\\n    Missing right:\\n    - /a\\n    - /b\\n  Differing "
                 "groups:\\n    Group /:\\n      Variables:\\n        Missing left:\\n         - data'")),
               ('one-ab', 'sub', ('ok', 'str', "'Left and right Group objects are not equal\\n  Differing tree structure:\\n    Missing right:\\n    - /b'")),
               ('one-ab', 'sub-b',
                ('ok', 'str',
                 "'Left and right Group objects are not equal\\n  Differing tree structure:\\n    Missing right:\\n    - /b\\n  Differing groups:\\n    Group "
                 "/a:\\n      Attributes:\\n        Missing left:\\n         - q'")),
               ('one-ab', 'nested-path',
                ('ok', 'str',
                 "'Left and right Group objects are not equal\\n  Differing tree structure:\\n    Missing left:\\n    - /prefix\\n    - /prefix/a\\n    "
                 "Missing right:\\n    - /\\n    - /a\\n    - /b'")),
               ('one-ba', 'empty',
                ('ok', 'str', "'Left and right Group objects are not equal\\n  Differing tree structure:\\n    Missing right:\\n    - /b\\n    - /a'")),
               ('one-ba', 'empty-url',
                ('ok', 'str',
                 "'Left and right Group objects are not equal\\n  Differing tree structure:\\n    Missing right:\\n    - /b\\n    - /a\\n  Differing "
                 "groups:\\n    Group /:\\n      Differing Url:\\n      L  None\\n      R  memory://a'")),
               ('one-ba', 'empty-url-b',
                ('ok', 'str',
                 "'Left and right Group objects are not equal\\n  Differing tree structure:\\n    Missing right:\\n    - /b\\n    - /a\\n  Differing "
                 "groups:\\n    Group /:\\n      Differing Url:\\n      L  None\\n      R  memory://b'")),
               ('one-ba', 'empty-path',
                ('ok', 'str',
                 "'Left and right Group objects are not equal\\n  Differing tree structure:\\n    Missing left:\\n    - /root\\n    Missing right:\\n    - "
                 "/\\n    - /b\\n    - /a'")),
               ('one-ba', 'empty-attrs',
                ('ok', 'str',
                 "'Left and right Group objects are not equal\\n  Differing tree structure:\\n    Missing right:\\n    - /b\\n    - /a\\n  Differing "
                 "groups:\\n    Group /:\\n      Attributes:\\n        Missing left:\\n         - a'")),
               ('one-ba', 'empty-attrs-b',
                ('ok', 'str',
                 "'Left and right Group objects are not equal\\n  Differing tree structure:\\n    Missing right:\\n    - /b\\n    - /a\\n  Differing "
                 "groups:\\n    Group /:\\n      Attributes:\\n        Missing left:\\n         - a\\n         - b'")),
               ('one-ba', 'vars',
                ('ok', 'str',
                 "'Left and right Group objects are not equal\\n  Differing tree structure:\\n    Missing right:\\n    - /b\\n    - /a\\n  Differing "
                 "groups:\\n    Group /:\\n      Variables:\\n        Missing left:\\n         - v\\n         - w'")),
               ('one-ba', 'vars-b',
                ('ok', 'str',
                 "'Left and right Group objects are not equal\\n  Differing tree structure:\\n    Missing right:\\n    - /b\\n    - /a\\n  Differing "
                 "groups:\\n    Group /:\\n      Variables:\\n        Missing left:\\n         - v\\n         - w'")),
               ('one-ba', 'vars-c',
                ('ok', 'str',
                 "'Left and right Group objects are not equal\\n  Differing tree structure:\\n    Missing right:\\n    - /b\\n    - /a\\n  Differing "
                 "groups:\\n    Group /:\\n      Variables:\\n        Missing left:\\n         - w\\n         - v'")),
               ('one-ba', 'vars-d',
                ('ok', 'str',
                 "'Left and right Group objects are not equal\\n  Differing tree structure:\\n    Missing right:\\n    - /b\\n    - /a\\n  Differing "
                 "groups:\\n    Group /:\\n      Variables:\\n        Missing left:\\n         - v\\n         - u'")),
               ('one-ba', 'one-a', ('ok', 'str', "'Left and right Group objects are not equal\\n  Differing tree structure:\\n    Missing right:\\n    - /b'")),
               ('one-ba', 'one-b', ('ok', 'str', "'Left and right Group objects are not equal\\n  Differing tree structure:\\n    Missing right:\\n    - /a'")),
               ('one-ba', 'one-ab', ('ok', 'str', "'Left and right Group objects are not equal\\n'")),
               ('one-ba', 'one-ba', ('ok', 'str', "'Left and right Group objects are not equal\\n'")),
               ('one-ba', 'one-a-attrs',
                ('ok', 'str',
                 "'Left and right Group objects are not equal\\n  Differing tree structure:\\n    Missing right:\\n    - /b\\n  Differing groups:\\n    Group "
                 "/a:\\n      Attributes:\\n        Missing left:\\n         - a'")),
               ('one-ba', 'one-a-attrs-b',
                ('ok', 'str',
                 "'Left and right Group objects are not equal\\n  Differing tree structure:\\n    Missing right:\\n    - /b\\n  Differing groups:\\n    Group "
                 "/a:\\n      Attributes:\\n        Missing left:\\n         - a'")),
               ('one-ba', 'one-a-url',
                ('ok', 'str',
                 "'Left and right Group objects are not equal\\n  Differing tree structure:\\n    Missing right:\\n    - /b\\n  Differing groups:\\n    Group "
                 '/:\\n      Differing Url:\\n      L  None\\n      R  memory://y\\n    Group /a:\\n      Differing Url:\\n      L  None\\n      R  '
                 "memory://x'")),
               ('one-ba', 'two',
                ('ok', 'str',
                 "'Left and right Group objects are not equal\\n  Differing tree structure:\\n    Missing left:\\n    - /a/b\\n    - /a/b/c\\n    - /d\\n    "
                 "Missing right:\\n    - /b\\n  Differing groups:\\n    Group /a:\\n      Variables:\\n        Missing left:\\n         - v'")),
               ('one-ba', 'two-b',
                ('ok', 'str',
                 "'Left and right Group objects are not equal\\n  Differing tree structure:\\n    Missing left:\\n    - /a/b\\n    - /a/b/e\\n    - /f\\n    "
                 "Missing right:\\n    - /b\\n  Differing groups:\\n    Group /a:\\n      Variables:\\n        Missing left:\\n         - v'")),
               ('one-ba', 'two-c',
                ('ok', 'str',
                 "'Left and right Group objects are not equal\\n  Differing tree structure:\\n    Missing left:\\n    - /a/b\\n    - /a/b/c\\n    - /d\\n    "
                 'Missing right:\\n    - /b\\n  Differing groups:\\n    Group /:\\n      Attributes:\\n        Missing left:\\n         - top\\n    Group '
                 "/a:\\n      Variables:\\n        Missing left:\\n         - v'")),
               ('one-ba', 'mixed',
                ('ok', 'str',
                 "'Left and right Group objects are not equal\\n  Differing tree structure:\\n    Missing left:\\n    - /g\\n    - /h\\n    - /h/g\\n    "
                 "Missing right:\\n    - /b\\n    - /a\\n  Differing groups:\\n    Group /:\\n      Variables:\\n        Missing left:\\n         - v'")),
               ('one-ba', 'mixed-b',
                ('ok', 'str',
                 "'Left and right Group objects are not equal\\n  Differing tree structure:\\n    Missing left:\\n    - /h\\n    - /h/g\\n    - /h/k\\n    - "
                 '/g\\n    Missing right:\\n    - /b\\n    - /a\\n  Differing groups:\\n    Group /:\\n      Variables:\\n        Missing left:\\n         - '
                 "v'")),
               ('one-ba', 'arrays',
                ('ok', 'str',
                 "'Left and right Group objects are not equal\\n  Differing tree structure:\\n    Missing right:\\n    - /b\\n    - /a\\n  Differing "
                 "groups:\\n    Group /:\\n      Variables:\\n        Missing left:\\n         - data'")),
               ('one-ba', 'arrays-b',
                ('ok', 'str',
                 "'Left and right Group objects are not equal\\n  Differing tree structure:\\n    Missing right:\\n    - /b\\n    - /a\\n  Differing "
                 "groups:\\n    Group /:\\n      Variables:\\n        Missing left:\\n         - data'")),
               ('one-ba', 'sub', ('ok', 'str', "'Left and right Group objects are not equal\\n  Differing tree structure:\\n    Missing right:\\n    - /b'")),
               ('one-ba', 'sub-b',
                ('ok', 'str',
                 "'Left and right Group objects are not equal\\n  Differing tree structure:\\n    Missing right:\\n    - /b\\n  Differing groups:\\n    Group "
                 "/a:\\n      Attributes:\\n        Missing left:\\n         - q'")),
               ('one-ba', 'nested-path',
                ('ok', 'str',
                 "'Left and right Group objects are not equal\\n  Differing tree structure:\\n    Missing left:\\n    - /prefix\\n    - /prefix/a\\n    "
                 "Missing right:\\n    - /\\n    - /b\\n    - /a'")),
               ('one-a-attrs', 'empty',
                ('ok', 'str', "'Left and right Group objects are not equal\\n  Differing tree structure:\\n    Missing right:\\n    - /a'")),
               ('one-a-attrs', 'empty-url',
                ('ok', 'str',
                 "'Left and right Group objects are not equal\\n  Differing tree structure:\\n    Missing right:\\n    - /a\\n  Differing groups:\\n    Group "
                 "/:\\n      Differing Url:\\n      L  None\\n      R  memory://a'")),
               ('one-a-attrs', 'empty-url-b',
                ('ok', 'str',
                 "'Left and right Group objects are not equal\\n  Differing tree structure:\\n    Missing right:\\n    - /a\\n  Differing groups:\\n    Group "
                 "/:\\n      Differing Url:\\n      L  None\\n      R  memory://b'")),
               ('one-a-attrs', 'empty-path',
                ('ok', 'str',
                 "'Left and right Group objects are not equal\\n  Differing tree structure:\\n    Missing left:\\n    - /root\\n    Missing right:\\n    - "
                 "/\\n    - /a'")),
               ('one-a-attrs', 'empty-attrs',
                ('ok', 'str',
                 "'Left and right Group objects are not equal\\n  Differing tree structure:\\n    Missing right:\\n    - /a\\n  Differing groups:\\n    Group "
                 "/:\\n      Attributes:\\n        Missing left:\\n         - a'")),
               ('one-a-attrs', 'empty-attrs-b',
                ('ok', 'str',
                 "'Left and right Group objects are not equal\\n  Differing tree structure:\\n    Missing right:\\n    - /a\\n  Differing groups:\\n    Group "
                 "/:\\n      Attributes:\\n        Missing left:\\n         - a\\n         - b'")),
               ('one-a-attrs', 'vars',
                ('ok', 'str',
                 "'Left and right Group objects are not equal\\n  Differing tree structure:\\n    Missing right:\\n    - /a\\n  Differing groups:\\n    Group "
                 "/:\\n      Variables:\\n        Missing left:\\n         - v\\n         - w'")),
               ('one-a-attrs', 'vars-b',
                ('ok', 'str',
                 "'Left and right Group objects are not equal\\n  Differing tree structure:\\n    Missing right:\\n    - /a\\n  Differing groups:\\n    Group "
                 "/:\\n      Variables:\\n        Missing left:\\n         - v\\n         - w'")),
               ('one-a-attrs', 'vars-c',
                ('ok', 'str',
                 "'Left and right Group objects are not equal\\n  Differing tree structure:\\n    Missing right:\\n    - /a\\n  Differing groups:\\n    Group "
                 "/:\\n      Variables:\\n        Missing left:\\n         - w\\n         - v'")),
               ('one-a-attrs', 'vars-d',
                ('ok', 'str',
                 "'Left and right Group objects are not equal\\n  Differing tree structure:\\n    Missing right:\\n    - /a\\n  Differing groups:\\n    Group "
                 "/:\\n      Variables:\\n        Missing left:\\n         - v\\n         - u'")),
               ('one-a-attrs', 'one-a',
                ('ok', 'str',
                 "'Left and right Group objects are not equal\\n  Differing groups:\\n    Group /a:\\n      Attributes:\\n        Missing right:\\n         - "
                 "a'")),
               ('one-a-attrs', 'one-b',
                ('ok', 'str',
                 "'Left and right Group objects are not equal\\n  Differing tree structure:\\n    Missing left:\\n    - /b\\n    Missing right:\\n    - /a'")),
               ('one-a-attrs', 'one-ab',
                ('ok', 'str',
                 "'Left and right Group objects are not equal\\n  Differing tree structure:\\n    Missing left:\\n    - /b\\n  Differing groups:\\n    Group "
                 "/a:\\n      Attributes:\\n        Missing right:\\n         - a'")),
               ('one-a-attrs', 'one-ba',
                ('ok', 'str',
                 "'Left and right Group objects are not equal\\n  Differing tree structure:\\n    Missing left:\\n    - /b\\n  Differing groups:\\n    Group "
                 "/a:\\n      Attributes:\\n        Missing right:\\n         - a'")),
               ('one-a-attrs', 'one-a-attrs', ('ok', 'str', "'Left and right Group objects are not equal\\n'")),
               ('one-a-attrs', 'one-a-attrs-b',
                ('ok', 'str',
                 "'Left and right Group objects are not equal\\n  Differing groups:\\n    Group /a:\\n      Attributes:\\n        Differing "
                 "attributes:\\n           L a  1\\n           R a  2'")),
               ('one-a-attrs', 'one-a-url',
                ('ok', 'str',
                 "'Left and right Group objects are not equal\\n  Differing groups:\\n    Group /:\\n      Differing Url:\\n      L  None\\n      R  "
                 'memory://y\\n    Group /a:\\n      Differing Url:\\n      L  None\\n      R  memory://x\\n      Attributes:\\n        Missing '
                 "right:\\n         - a'")),
               ('one-a-attrs', 'two',
                ('ok', 'str',
                 "'Left and right Group objects are not equal\\n  Differing tree structure:\\n    Missing left:\\n    - /a/b\\n    - /a/b/c\\n    - /d\\n  "
                 'Differing groups:\\n    Group /a:\\n      Variables:\\n        Missing left:\\n         - v\\n      Attributes:\\n        Missing '
                 "right:\\n         - a'")),
               ('one-a-attrs', 'two-b',
                ('ok', 'str',
                 "'Left and right Group objects are not equal\\n  Differing tree structure:\\n    Missing left:\\n    - /a/b\\n    - /a/b/e\\n    - /f\\n  "
                 'Differing groups:\\n    Group /a:\\n      Variables:\\n        Missing left:\\n         - v\\n      Attributes:\\n        Missing '
                 "right:\\n         - a'")),
               ('one-a-attrs', 'two-c',
                ('ok', 'str',
                 "'Left and right Group objects are not equal\\n  Differing tree structure:\\n    Missing left:\\n    - /a/b\\n    - /a/b/c\\n    - /d\\n  "
                 'Differing groups:\\n    Group /:\\n      Attributes:\\n        Missing left:\\n         - top\\n    Group /a:\\n      Variables:\\n        '
                 "Missing left:\\n         - v\\n      Attributes:\\n        Missing right:\\n         - a'")),
               ('one-a-attrs', 'mixed',
                ('ok', 'str',
                 "'Left and right Group objects are not equal\\n  Differing tree structure:\\n    Missing left:\\n    - /g\\n    - /h\\n    - /h/g\\n    "
                 "Missing right:\\n    - /a\\n  Differing groups:\\n    Group /:\\n      Variables:\\n        Missing left:\\n         - v'")),
               ('one-a-attrs', 'mixed-b',
                ('ok', 'str',
                 "'Left and right Group objects are not equal\\n  Differing tree structure:\\n    Missing left:\\n    - /h\\n    - /h/g\\n    - /h/k\\n    - "
                 "/g\\n    Missing right:\\n    - /a\\n  Differing groups:\\n    Group /:\\n      Variables:\\n        Missing left:\\n         - v'")),
               ('one-a-attrs', 'arrays',
                ('ok', 'str',
                 "'Left and right Group objects are not equal\\n  Differing tree structure:\\n    Missing right:\\n    - /a\\n  Differing groups:\\n    Group "
                 "/:\\n      Variables:\\n        Missing left:\\n         - data'")),
               ('one-a-attrs', 'arrays-b',
                ('ok', 'str',
                 "'Left and right Group objects are not equal\\n  Differing tree structure:\\n    Missing right:\\n    - /a\\n  Differing groups:\\n    Group "
                 "/:\\n      Variables:\\n        Missing left:\\n         - data'")),
               ('one-a-attrs', 'sub',
                ('ok', 'str',
                 "'Left and right Group objects are not equal\\n  Differing groups:\\n    Group /a:\\n      Attributes:\\n        Missing right:\\n         - "
                 "a'")),
               ('one-a-attrs', 'sub-b',
                ('ok', 'str',
                 "'Left and right Group objects are not equal\\n  Differing groups:\\n    Group /a:\\n      Attributes:\\n        Missing left:\\n         - "
                 "q\\n        Missing right:\\n         - a'")),
               ('one-a-attrs', 'nested-path',
                ('ok', 'str',
                 "'Left and right Group objects are not equal\\n  Differing tree structure:\\n    Missing left:\\n    - /prefix\\n    - /prefix/a\\n    "
                 "Missing right:\\n    - /\\n    - /a'")),
               ('one-a-attrs-b', 'empty',
                ('ok', 'str', "'Left and right Group objects are not equal\\n  Differing tree structure:\\n    Missing right:\\n    - /a'")),
               ('one-a-attrs-b', 'empty-url',
                ('ok', 'str',
                 "'Left and right Group objects are not equal\\n  Differing tree structure:\\n    Missing right:\\n    - /a\\n  Differing groups:\\n    Group "
                 "/:\\n      Differing Url:\\n      L  None\\n      R  memory://a'")),
               ('one-a-attrs-b', 'empty-url-b',
                ('ok', 'str',
                 "'Left and right Group objects are not equal\\n  Differing tree structure:\\n    Missing right:\\n    - /a\\n  Differing groups:\\n    Group "
                 "/:\\n      Differing Url:\\n      L  None\\n      R  memory://b'")),
               ('one-a-attrs-b', 'empty-path',
                ('ok', 'str',
                 "'Left and right Group objects are not equal\\n  Differing tree structure:\\n    Missing left:\\n    - /root\\n    Missing right:\\n    - "
                 "/\\n    - /a'")),
               ('one-a-attrs-b', 'empty-attrs',
                ('ok', 'str',
                 "'Left and right Group objects are not equal\\n  Differing tree structure:\\n    Missing right:\\n    - /a\\n  Differing groups:\\n    Group "
                 "/:\\n      Attributes:\\n        Missing left:\\n         - a'")),
               ('one-a-attrs-b', 'empty-attrs-b',
                ('ok', 'str',
                 "'Left and right Group objects are not equal\\n  Differing tree structure:\\n    Missing right:\\n    - /a\\n  Differing groups:\\n    Group "
                 "/:\\n      Attributes:\\n        Missing left:\\n         - a\\n         - b'")),
               ('one-a-attrs-b', 'vars',
                ('ok', 'str',
                 "'Left and right Group objects are not equal\\n  Differing tree structure:\\n    Missing right:\\n    - /a\\n  Differing groups:\\n    Group "
                 "/:\\n      Variables:\\n        Missing left:\\n         - v\\n         - w'")),
               ('one-a-attrs-b', 'vars-b',
                ('ok', 'str',
                 "'Left and right Group objects are not equal\\n  Differing tree structure:\\n    Missing right:\\n    - /a\\n  Differing groups:\\n    Group "
                 "/:\\n      Variables:\\n        Missing left:\\n         - v\\n         - w'")),
               ('one-a-attrs-b', 'vars-c',
                ('ok', 'str',
                 "'Left and right Group objects are not equal\\n  Differing tree structure:\\n    Missing right:\\n    - /a\\n  Differing groups:\\n    Group "
                 "/:\\n      Variables:\\n        Missing left:\\n         - w\\n         - v'")),
               ('one-a-attrs-b', 'vars-d',
                ('ok', 'str',
                 "'Left and right Group objects are not equal\\n  Differing tree structure:\\n    Missing right:\\n    - /a\\n  Differing groups:\\n    Group "
                 "/:\\n      Variables:\\n        Missing left:\\n         - v\\n         - u'")),
               ('one-a-attrs-b', 'one-a',
                ('ok', 'str',
                 "'Left and right Group objects are not equal\\n  Differing groups:\\n    Group /a:\\n      Attributes:\\n        Missing right:\\n         - "
                 "a'")),
               ('one-a-attrs-b', 'one-b',
                ('ok', 'str',
                 "'Left and right Group objects are not equal\\n  Differing tree structure:\\n    Missing left:\\n    - /b\\n    Missing right:\\n    - /a'")),
               ('one-a-attrs-b', 'one-ab',
                ('ok', 'str',
                 "'Left and right Group objects are not equal\\n  Differing tree structure:\\n    Missing left:\\n    - /b\\n  Differing groups:\\n    Group "
                 "/a:\\n      Attributes:\\n        Missing right:\\n         - a'")),
               ('one-a-attrs-b', 'one-ba',
                ('ok', 'str',
                 "'Left and right Group objects are not equal\\n  Differing tree structure:\\n    Missing left:\\n    - /b\\n  Differing groups:\\n    Group "
                 "/a:\\n      Attributes:\\n        Missing right:\\n         - a'")),
               ('one-a-attrs-b', 'one-a-attrs',
                ('ok', 'str',
                 "'Left and right Group objects are not equal\\n  Differing groups:\\n    Group /a:\\n      Attributes:\\n        Differing "
                 "attributes:\\n           L a  2\\n           R a  1'")),
               ('one-a-attrs-b', 'one-a-attrs-b', ('ok', 'str', "'Left and right Group objects are not equal\\n'")),
               ('one-a-attrs-b', 'one-a-url',
                ('ok', 'str',
                 "'Left and right Group objects are not equal\\n  Differing groups:\\n    Group /:\\n      Differing Url:\\n      L  None\\n      R  "
                 'memory://y\\n    Group /a:\\n      Differing Url:\\n      L  None\\n      R  memory://x\\n      Attributes:\\n        Missing '
                 "right:\\n         - a'")),
               ('one-a-attrs-b', 'two',
                ('ok', 'str',
                 "'Left and right Group objects are not equal\\n  Differing tree structure:\\n    Missing left:\\n    - /a/b\\n    - /a/b/c\\n    - /d\\n  "
                 'Differing groups:\\n    Group /a:\\n      Variables:\\n        Missing left:\\n         - v\\n      Attributes:\\n        Missing '
                 "right:\\n         - a'")),
               ('one-a-attrs-b', 'two-b',
                ('ok', 'str',
                 "'Left and right Group objects are not equal\\n  Differing tree structure:\\n    Missing left:\\n    - /a/b\\n    - /a/b/e\\n    - /f\\n  "
                 'Differing groups:\\n    Group /a:\\n      Variables:\\n        Missing left:\\n         - v\\n      Attributes:\\n        Missing '
                 "right:\\n         - a'")),
               ('one-a-attrs-b', 'two-c',
                ('ok', 'str',
                 "'Left and right Group objects are not equal\\n  Differing tree structure:\\n    Missing left:\\n    - /a/b\\n    - /a/b/c\\n    - /d\\n  "
                 'Differing groups:\\n    Group /:\\n      Attributes:\\n        Missing left:\\n         - top\\n    Group /a:\\n      Variables:\\n        '
                 "Missing left:\\n         - v\\n      Attributes:\\n        Missing right:\\n         - a'")),
               ('one-a-attrs-b', 'mixed',
                ('ok', 'str',
                 "'Left and right Group objects are not equal\\n  Differing tree structure:\\n    Missing left:\\n    - /g\\n    - /h\\n    - /h/g\\n    "
                 "Missing right:\\n    - /a\\n  Differing groups:\\n    Group /:\\n      Variables:\\n        Missing left:\\n         - v'")),
               ('one-a-attrs-b', 'mixed-b',
                ('ok', 'str',
                 "'Left and right Group objects are not equal\\n  Differing tree structure:\\n    Missing left:\\n    - /h\\n    - /h/g\\n    - /h/k\\n    - "
                 "/g\\n    Missing right:\\n    - /a\\n  Differing groups:\\n    Group /:\\n      Variables:\\n        Missing left:\\n         - v'")),
               ('one-a-attrs-b', 'arrays',
                ('ok', 'str',
                 "'Left and right Group objects are not equal\\n  Differing tree structure:\\n    Missing right:\\n    - /a\\n  Differing groups:\\n    Group "
                 "/:\\n      Variables:\\n        Missing left:\\n         - data'")),
               ('one-a-attrs-b', 'arrays-b',
                ('ok', 'str',
                 "'Left and right Group objects are not equal\\n  Differing tree structure:\\n    Missing right:\\n    - /a\\n  Differing groups:\\n    Group "
                 "/:\\n      Variables:\\n        Missing left:\\n         - data'")),
               ('one-a-attrs-b', 'sub',
                ('ok', 'str',
                 "'Left and right Group objects are not equal\\n  Differing groups:\\n    Group /a:\\n      Attributes:\\n        Missing right:\\n         - "
                 "a'")),
               ('one-a-attrs-b', 'sub-b',
                ('ok', 'str',
                 "'Left and right Group objects are not equal\\n  Differing groups:\\n    Group /a:\\n      Attributes:\\n        Missing left:\\n         - "
                 "q\\n        Missing right:\\n         - a'")),
               ('one-a-attrs-b', 'nested-path',
                ('ok', 'str',
                 "'Left and right Group objects are not equal\\n  Differing tree structure:\\n    Missing left:\\n    - /prefix\\n    - /prefix/a\\n    "
                 "Missing right:\\n    - /\\n    - /a'")),
               ('one-a-url', 'empty',
                ('ok', 'str',
                 "'Left and right Group objects are not equal\\n  Differing tree structure:\\n    Missing right:\\n    - /a\\n  Differing groups:\\n    Group "
                 "/:\\n      Differing Url:\\n      L  memory://y\\n      R  None'")),
               ('one-a-url', 'empty-url',
                ('ok', 'str',
                 "'Left and right Group objects are not equal\\n  Differing tree structure:\\n    Missing right:\\n    - /a\\n  Differing groups:\\n    Group "
                 "/:\\n      Differing Url:\\n      L  memory://y\\n      R  memory://a'")),
               ('one-a-url', 'empty-url-b',
                ('ok', 'str',
                 "'Left and right Group objects are not equal\\n  Differing tree structure:\\n    Missing right:\\n    - /a\\n  Differing groups:\\n    Group "
                 "/:\\n      Differing Url:\\n      L  memory://y\\n      R  memory://b'")),
               ('one-a-url', 'empty-path',
                ('ok', 'str',
                 "'Left and right Group objects are not equal\\n  Differing tree structure:\\n    Missing left:\\n    - /root\\n    Missing right:\\n    - "
                 "/\\n    - /a'")),
               ('one-a-url', 'empty-attrs',
                ('ok', 'str',
                 "'Left and right Group objects are not equal\\n  Differing tree structure:\\n    Missing right:\\n    - /a\\n  Differing groups:\\n    Group "
                 "/:\\n      Differing Url:\\n      L  memory://y\\n      R  None\\n      Attributes:\\n        Missing left:\\n         - a'")),
               ('one-a-url', 'empty-attrs-b',
                ('ok', 'str',
                 "'Left and right Group objects are not equal\\n  Differing tree structure:\\n    Missing right:\\n    - /a\\n  Differing groups:\\n    Group "
                 "/:\\n      Differing Url:\\n      L  memory://y\\n      R  None\\n      Attributes:\\n        Missing left:\\n         - a\\n         - b'")),
               ('one-a-url', 'vars',
                ('ok', 'str',
                 "'Left and right Group objects are not equal\\n  Differing tree structure:\\n    Missing right:\\n    - /a\\n  Differing groups:\\n    Group "
                 "/:\\n      Differing Url:\\n      L  memory://y\\n      R  None\\n      Variables:\\n        Missing left:\\n         - v\\n         - w'")),
               ('one-a-url', 'vars-b',
                ('ok', 'str',
                 "'Left and right Group objects are not equal\\n  Differing tree structure:\\n    Missing right:\\n    - /a\\n  Differing groups:\\n    Group "
                 "/:\\n      Differing Url:\\n      L  memory://y\\n      R  None\\n      Variables:\\n        Missing left:\\n         - v\\n         - w'")),
               ('one-a-url', 'vars-c',
                ('ok', 'str',
                 "'Left and right Group objects are not equal\\n  Differing tree structure:\\n    Missing right:\\n    - /a\\n  Differing groups:\\n    Group "
                 "/:\\n      Differing Url:\\n      L  memory://y\\n      R  None\\n      Variables:\\n        Missing left:\\n         - w\\n         - v'")),
               ('one-a-url', 'vars-d',
                ('ok', 'str',
                 "'Left and right Group objects are not equal\\n  Differing tree structure:\\n    Missing right:\\n    - /a\\n  Differing groups:\\n    Group "
                 "/:\\n      Differing Url:\\n      L  memory://y\\n      R  None\\n      Variables:\\n        Missing left:\\n         - v\\n         - u'")),
               ('one-a-url', 'one-a',
                ('ok', 'str',
                 "'Left and right Group objects are not equal\\n  Differing groups:\\n    Group /:\\n      Differing Url:\\n      L  memory://y\\n      R  "
                 "None\\n    Group /a:\\n      Differing Url:\\n      L  memory://x\\n      R  None'")),
               ('one-a-url', 'one-b',
                ('ok', 'str',
                 "'Left and right Group objects are not equal\\n  Differing tree structure:\\n    Missing left:\\n    - /b\\n    Missing right:\\n    - /a\\n  "
                 "Differing groups:\\n    Group /:\\n      Differing Url:\\n      L  memory://y\\n      R  None'")),
               ('one-a-url', 'one-ab',
                ('ok', 'str',
                 "'Left and right Group objects are not equal\\n  Differing tree structure:\\n    Missing left:\\n    - /b\\n  Differing groups:\\n    Group "
                 '/:\\n      Differing Url:\\n      L  memory://y\\n      R  None\\n    Group /a:\\n      Differing Url:\\n      L  memory://x\\n      R  '
                 "None'")),
               ('one-a-url', 'one-ba',
                ('ok', 'str',
                 "'Left and right Group objects are not equal\\n  Differing tree structure:\\n    Missing left:\\n    - /b\\n  Differing groups:\\n    Group "
                 '/:\\n      Differing Url:\\n      L  memory://y\\n      R  None\\n    Group /a:\\n      Differing Url:\\n      L  memory://x\\n      R  '
                 "None'")),
               ('one-a-url', 'one-a-attrs',
                ('ok', 'str',
                 "'Left and right Group objects are not equal\\n  Differing groups:\\n    Group /:\\n      Differing Url:\\n      L  memory://y\\n      R  "
                 'None\\n    Group /a:\\n      Differing Url:\\n      L  memory://x\\n      R  None\\n      Attributes:\\n        Missing left:\\n         - '
                 "a'")),
               ('one-a-url', 'one-a-attrs-b',
                ('ok', 'str',
                 "'Left and right Group objects are not equal\\n  Differing groups:\\n    Group /:\\n      Differing Url:\\n      L  memory://y\\n      R  "
                 'None\\n    Group /a:\\n      Differing Url:\\n      L  memory://x\\n      R  None\\n      Attributes:\\n        Missing left:\\n         - '
                 "a'")),
               ('one-a-url', 'one-a-url', ('ok', 'str', "'Left and right Group objects are not equal\\n'")),
               ('one-a-url', 'two',
                ('ok', 'str',
                 "'Left and right Group objects are not equal\\n  Differing tree structure:\\n    Missing left:\\n    - /a/b\\n    - /a/b/c\\n    - /d\\n  "
                 'Differing groups:\\n    Group /:\\n      Differing Url:\\n      L  memory://y\\n      R  None\\n    Group /a:\\n      Differing Url:\\n      '
                 "L  memory://x\\n      R  None\\n      Variables:\\n        Missing left:\\n         - v'")),
               ('one-a-url', 'two-b',
                ('ok', 'str',
                 "'Left and right Group objects are not equal\\n  Differing tree structure:\\n    Missing left:\\n    - /a/b\\n    - /a/b/e\\n    - /f\\n  "
                 'Differing groups:\\n    Group /:\\n      Differing Url:\\n      L  memory://y\\n      R  None\\n    Group /a:\\n      Differing Url:\\n      '
                 "L  memory://x\\n      R  None\\n      Variables:\\n        Missing left:\\n         - v'")),
               ('one-a-url', 'two-c',
                ('ok', 'str',
                 "'Left and right Group objects are not equal\\n  Differing tree structure:\\n    Missing left:\\n    - /a/b\\n    - /a/b/c\\n    - /d\\n  "
                 'Differing groups:\\n    Group /:\\n      Differing Url:\\n      L  memory://y\\n      R  None\\n      Attributes:\\n        Missing '
                 'left:\\n         - top\\n    Group /a:\\n      Differing Url:\\n      L  memory://x\\n      R  None\\n      Variables:\\n        Missing '
                 "left:\\n         - v'")),
               ('one-a-url', 'mixed',
                ('ok', 'str',
                 "'Left and right Group objects are not equal\\n  Differing tree structure:\\n    Missing left:\\n    - /g\\n    - /h\\n    - /h/g\\n    "
                 'Missing right:\\n    - /a\\n  Differing groups:\\n    Group /:\\n      Differing Url:\\n      L  memory://y\\n      R  None\\n      '
                 "Variables:\\n        Missing left:\\n         - v'")),
               ('one-a-url', 'mixed-b',
                ('ok', 'str',
                 "'Left and right Group objects are not equal\\n  Differing tree structure:\\n    Missing left:\\n    - /h\\n    - /h/g\\n    - /h/k\\n    - "
                 '/g\\n    Missing right:\\n    - /a\\n  Differing groups:\\n    Group /:\\n      Differing Url:\\n      L  memory://y\\n      R  None\\n      '
                 "Variables:\\n        Missing left:\\n         - v'")),
               ('one-a-url', 'arrays',
                ('ok', 'str',
                 "'Left and right Group objects are not equal\\n  Differing tree structure:\\n    Missing right:\\n    - /a\\n  Differing groups:\\n    Group "
                 "/:\\n      Differing Url:\\n      L  memory://y\\n      R  None\\n      Variables:\\n        Missing left:\\n         - data'")),
               ('one-a-url', 'arrays-b',
                ('ok', 'str',
                 "'Left and right Group objects are not equal\\n  Differing tree structure:\\n    Missing right:\\n    - /a\\n  Differing groups:\\n    Group "
                 "/:\\n      Differing Url:\\n      L  memory://y\\n      R  None\\n      Variables:\\n        Missing left:\\n         - data'")),
               ('one-a-url', 'sub',
                ('ok', 'str',
                 "'Left and right Group objects are not equal\\n  Differing groups:\\n    Group /:\\n      Differing Url:\\n      L  memory://y\\n      R  "
                 "None\\n    Group /a:\\n      Differing Url:\\n      L  memory://x\\n      R  None'")),
               ('one-a-url', 'sub-b',
                ('ok', 'str',
                 "'Left and right Group objects are not equal\\n  Differing groups:\\n    Group /:\\n      Differing Url:\\n      L  memory://y\\n      R  "
                 'None\\n    Group /a:\\n      Differing Url:\\n      L  memory://x\\n      R  None\\n      Attributes:\\n        Missing left:\\n         - '
                 "q'")),
               ('one-a-url', 'nested-path',
                ('ok', 'str',
                 "'Left and right Group objects are not equal\\n  Differing tree structure:\\n    Missing left:\\n    - /prefix\\n    - /prefix/a\\n    "
                 "Missing right:\\n    - /\\n    - /a'")),
               ('two', 'empty',
                ('ok', 'str',
                 "'Left and right Group objects are not equal\\n  Differing tree structure:\\n    Missing right:\\n    - /a\\n    - /a/b\\n    - /a/b/c\\n    "
                 "- /d'")),
               ('two', 'empty-url',
                ('ok', 'str',
                 "'Left and right Group objects are not equal\\n  Differing tree structure:\\n    Missing right:\\n    - /a\\n    - /a/b\\n    - /a/b/c\\n    "
                 "- /d\\n  Differing groups:\\n    Group /:\\n      Differing Url:\\n      L  None\\n      R  memory://a'")),
               ('two', 'empty-url-b',
                ('ok', 'str',
                 "'Left and right Group objects are not equal\\n  Differing tree structure:\\n    Missing right:\\n    - /a\\n    - /a/b\\n    - /a/b/c\\n    "
                 "- /d\\n  Differing groups:\\n    Group /:\\n      Differing Url:\\n      L  None\\n      R  memory://b'")),
               ('two', 'empty-path',
                ('ok', 'str',
                 "'Left and right Group objects are not equal\\n  Differing tree structure:\\n    Missing left:\\n    - /root\\n    Missing right:\\n    - "
                 "/\\n    - /a\\n    - /a/b\\n    - /a/b/c\\n    - /d'")),
               ('two', 'empty-attrs',
                ('ok', 'str',
                 "'Left and right Group objects are not equal\\n  Differing tree structure:\\n    Missing right:\\n    - /a\\n    - /a/b\\n    - /a/b/c\\n    "
                 "- /d\\n  Differing groups:\\n    Group /:\\n      Attributes:\\n        Missing left:\\n         - a'")),
               ('two', 'empty-attrs-b',
                ('ok', 'str',
                 "'Left and right Group objects are not equal\\n  Differing tree structure:\\n    Missing right:\\n    - /a\\n    - /a/b\\n    - /a/b/c\\n    "
                 "- /d\\n  Differing groups:\\n    Group /:\\n      Attributes:\\n        Missing left:\\n         - a\\n         - b'")),
               ('two', 'vars',
                ('ok', 'str',
                 "'Left and right Group objects are not equal\\n  Differing tree structure:\\n    Missing right:\\n    - /a\\n    - /a/b\\n    - /a/b/c\\n    "
                 "- /d\\n  Differing groups:\\n    Group /:\\n      Variables:\\n        Missing left:\\n         - v\\n         - w'")),
               ('two', 'vars-b',
                ('ok', 'str',
                 "'Left and right Group objects are not equal\\n  Differing tree structure:\\n    Missing right:\\n    - /a\\n    - /a/b\\n    - /a/b/c\\n    "
                 "- /d\\n  Differing groups:\\n    Group /:\\n      Variables:\\n        Missing left:\\n         - v\\n         - w'")),
               ('two', 'vars-c',
                ('ok', 'str',
                 "'Left and right Group objects are not equal\\n  Differing tree structure:\\n    Missing right:\\n    - /a\\n    - /a/b\\n    - /a/b/c\\n    "
                 "- /d\\n  Differing groups:\\n    Group /:\\n      Variables:\\n        Missing left:\\n         - w\\n         - v'")),
               ('two', 'vars-d',
                ('ok', 'str',
                 "'Left and right Group objects are not equal\\n  Differing tree structure:\\n    Missing right:\\n    - /a\\n    - /a/b\\n    - /a/b/c\\n    "
                 "- /d\\n  Differing groups:\\n    Group /:\\n      Variables:\\n        Missing left:\\n         - v\\n         - u'")),
               ('two', 'one-a',
                ('ok', 'str',
                 "'Left and right Group objects are not equal\\n  Differing tree structure:\\n    Missing right:\\n    - /a/b\\n    - /a/b/c\\n    - /d\\n  "
                 "Differing groups:\\n    Group /a:\\n      Variables:\\n        Missing right:\\n         - v'")),
               ('two', 'one-b',
                ('ok', 'str',
                 "'Left and right Group objects are not equal\\n  Differing tree structure:\\n    Missing left:\\n    - /b\\n    Missing right:\\n    - "
                 "/a\\n    - /a/b\\n    - /a/b/c\\n    - /d'")),
               ('two', 'one-ab',
                ('ok', 'str',
                 "'Left and right Group objects are not equal\\n  Differing tree structure:\\n    Missing left:\\n    - /b\\n    Missing right:\\n    - "
                 "/a/b\\n    - /a/b/c\\n    - /d\\n  Differing groups:\\n    Group /a:\\n      Variables:\\n        Missing right:\\n         - v'")),
               ('two', 'one-ba',
                ('ok', 'str',
                 "'Left and right Group objects are not equal\\n  Differing tree structure:\\n    Missing left:\\n    - /b\\n    Missing right:\\n    - "
                 "/a/b\\n    - /a/b/c\\n    - /d\\n  Differing groups:\\n    Group /a:\\n      Variables:\\n        Missing right:\\n         - v'")),
               ('two', 'one-a-attrs',
                ('ok', 'str',
                 "'Left and right Group objects are not equal\\n  Differing tree structure:\\n    Missing right:\\n    - /a/b\\n    - /a/b/c\\n    - /d\\n  "
                 'Differing groups:\\n    Group /a:\\n      Variables:\\n        Missing right:\\n         - v\\n      Attributes:\\n        Missing '
                 "left:\\n         - a'")),
               ('two', 'one-a-attrs-b',
                ('ok', 'str',
                 "'Left and right Group objects are not equal\\n  Differing tree structure:\\n    Missing right:\\n    - /a/b\\n    - /a/b/c\\n    - /d\\n  "
                 'Differing groups:\\n    Group /a:\\n      Variables:\\n        Missing right:\\n         - v\\n      Attributes:\\n        Missing '
                 "left:\\n         - a'")),
               ('two', 'one-a-url',
                ('ok', 'str',
                 "'Left and right Group objects are not equal\\n  Differing tree structure:\\n    Missing right:\\n    - /a/b\\n    - /a/b/c\\n    - /d\\n  "
                 'Differing groups:\\n    Group /:\\n      Differing Url:\\n      L  None\\n      R  memory://y\\n    Group /a:\\n      Differing Url:\\n      '
                 "L  None\\n      R  memory://x\\n      Variables:\\n        Missing right:\\n         - v'")),
               ('two', 'two', ('ok', 'str', "'Left and right Group objects are not equal\\n'")),
               ('two', 'two-b',
                ('ok', 'str',
                 "'Left and right Group objects are not equal\\n  Differing tree structure:\\n    Missing left:\\n    - /a/b/e\\n    - /f\\n    Missing "
                 'right:\\n    - /a/b/c\\n    - /d\\n  Differing groups:\\n    Group /a:\\n      Variables:\\n        Differing variables:\\n           L v  '
                 "(x)    int8  5\\n           R v  (x)    int8  6'")),
               ('two', 'two-c',
                ('ok', 'str',
                 "'Left and right Group objects are not equal\\n  Differing groups:\\n    Group /:\\n      Attributes:\\n        Missing left:\\n         - "
                 'top\\n    Group /a/b:\\n      Attributes:\\n        Missing left:\\n         - m\\n    Group /a/b/c:\\n      Attributes:\\n        Missing '
                 "left:\\n         - n\\n    Group /d:\\n      Variables:\\n        Missing left:\\n         - x'")),
               ('two', 'mixed',
                ('ok', 'str',
                 "'Left and right Group objects are not equal\\n  Differing tree structure:\\n    Missing left:\\n    - /g\\n    - /h\\n    - /h/g\\n    "
                 'Missing right:\\n    - /a\\n    - /a/b\\n    - /a/b/c\\n    - /d\\n  Differing groups:\\n    Group /:\\n      Variables:\\n        Missing '
                 "left:\\n         - v'")),
               ('two', 'mixed-b',
                ('ok', 'str',
                 "'Left and right Group objects are not equal\\n  Differing tree structure:\\n    Missing left:\\n    - /h\\n    - /h/g\\n    - /h/k\\n    - "
                 '/g\\n    Missing right:\\n    - /a\\n    - /a/b\\n    - /a/b/c\\n    - /d\\n  Differing groups:\\n    Group /:\\n      Variables:\\n        '
                 "Missing left:\\n         - v'")),
               ('two', 'arrays',
                ('ok', 'str',
                 "'Left and right Group objects are not equal\\n  Differing tree structure:\\n    Missing right:\\n    - /a\\n    - /a/b\\n    - /a/b/c\\n    "
                 "- /d\\n  Differing groups:\\n    Group /:\\n      Variables:\\n        Missing left:\\n         - data'")),
               ('two', 'arrays-b',
                ('ok', 'str',
                 "'Left and right Group objects are not equal\\n  Differing tree structure:\\n    Missing right:\\n    - /a\\n    - /a/b\\n    - /a/b/c\\n    "
                 "- /d\\n  Differing groups:\\n    Group /:\\n      Variables:\\n        Missing left:\\n         - data'")),
               ('two', 'sub',
                ('ok', 'str',
                 "'Left and right Group objects are not equal\\n  Differing tree structure:\\n    Missing right:\\n    - /a/b\\n    - /a/b/c\\n    - /d\\n  "
                 "Differing groups:\\n    Group /a:\\n      Variables:\\n        Missing right:\\n         - v'")),
               ('two', 'sub-b',
                ('ok', 'str',
                 "'Left and right Group objects are not equal\\n  Differing tree structure:\\n    Missing right:\\n    - /a/b\\n    - /a/b/c\\n    - /d\\n  "
                 'Differing groups:\\n    Group /a:\\n      Variables:\\n        Missing right:\\n         - v\\n      Attributes:\\n        Missing '
                 "left:\\n         - q'")),
               ('two', 'nested-path',
                ('ok', 'str',
                 "'Left and right Group objects are not equal\\n  Differing tree structure:\\n    Missing left:\\n    - /prefix\\n    - /prefix/a\\n    "
                 "Missing right:\\n    - /\\n    - /a\\n    - /a/b\\n    - /a/b/c\\n    - /d'")),
               ('two-b', 'empty',
                ('ok', 'str',
                 "'Left and right Group objects are not equal\\n  Differing tree structure:\\n    Missing right:\\n    - /a\\n    - /a/b\\n    - /a/b/e\\n    "
                 "- /f'")),
               ('two-b', 'empty-url',
                ('ok', 'str',
                 "'Left and right Group objects are not equal\\n  Differing tree structure:\\n    Missing right:\\n    - /a\\n    - /a/b\\n    - /a/b/e\\n    "
                 "- /f\\n  Differing groups:\\n    Group /:\\n      Differing Url:\\n      L  None\\n      R  memory://a'")),
               ('two-b', 'empty-url-b',
                ('ok', 'str',
                 "'Left and right Group objects are not equal\\n  Differing tree structure:\\n    Missing right:\\n    - /a\\n    - /a/b\\n    - /a/b/e\\n    "
                 "- /f\\n  Differing groups:\\n    Group /:\\n      Differing Url:\\n      L  None\\n      R  memory://b'")),
               ('two-b', 'empty-path',
                ('ok', 'str',
                 "'Left and right Group objects are not equal\\n  Differing tree structure:\\n    Missing left:\\n    - /root\\n    Missing right:\\n    - "
                 "/\\n    - /a\\n    - /a/b\\n    - /a/b/e\\n    - /f'")),
               ('two-b', 'empty-attrs',
                ('ok', 'str',
                 "'Left and right Group objects are not equal\\n  Differing tree structure:\\n    Missing right:\\n    - /a\\n    - /a/b\\n    - /a/b/e\\n    "
                 "- /f\\n  Differing groups:\\n    Group /:\\n      Attributes:\\n        Missing left:\\n         - a'")),
               ('two-b', 'empty-attrs-b',
                ('ok', 'str',
                 "'Left and right Group objects are not equal\\n  Differing tree structure:\\n    Missing right:\\n    - /a\\n    - /a/b\\n    - /a/b/e\\n    "
                 "- /f\\n  Differing groups:\\n    Group /:\\n      Attributes:\\n        Missing left:\\n         - a\\n         - b'")),
               ('two-b', 'vars',
                ('ok', 'str',
                 "'Left and right Group objects are not equal\\n  Differing tree structure:\\n    Missing right:\\n    - /a\\n    - /a/b\\n    - /a/b/e\\n    "
                 "- /f\\n  Differing groups:\\n    Group /:\\n      Variables:\\n        Missing left:\\n         - v\\n         - w'")),
               ('two-b', 'vars-b',
                ('ok', 'str',
                 "'Left and right Group objects are not equal\\n  Differing tree structure:\\n    Missing right:\\n    - /a\\n    - /a/b\\n    - /a/b/e\\n    "
                 "- /f\\n  Differing groups:\\n    Group /:\\n      Variables:\\n        Missing left:\\n         - v\\n         - w'")),
               ('two-b', 'vars-c',
                ('ok', 'str',
                 "'Left and right Group objects are not equal\\n  Differing tree structure:\\n    Missing right:\\n    - /a\\n    - /a/b\\n    - /a/b/e\\n    "
                 "- /f\\n  Differing groups:\\n    Group /:\\n      Variables:\\n        Missing left:\\n         - w\\n         - v'")),
               ('two-b', 'vars-d',
                ('ok', 'str',
                 "'Left and right Group objects are not equal\\n  Differing tree structure:\\n    Missing right:\\n    - /a\\n    - /a/b\\n    - /a/b/e\\n    "
                 "- /f\\n  Differing groups:\\n    Group /:\\n      Variables:\\n        Missing left:\\n         - v\\n         - u'")),
               ('two-b', 'one-a',
                ('ok', 'str',
                 "'Left and right Group objects are not equal\\n  Differing tree structure:\\n    Missing right:\\n    - /a/b\\n    - /a/b/e\\n    - /f\\n  "
                 "Differing groups:\\n    Group /a:\\n      Variables:\\n        Missing right:\\n         - v'")),
               ('two-b', 'one-b',
                ('ok', 'str',
                 "'Left and right Group objects are not equal\\n  Differing tree structure:\\n    Missing left:\\n    - /b\\n    Missing right:\\n    - "
                 "/a\\n    - /a/b\\n    - /a/b/e\\n    - /f'")),
               ('two-b', 'one-ab',
                ('ok', 'str',
                 "'Left and right Group objects are not equal\\n  Differing tree structure:\\n    Missing left:\\n    - /b\\n    Missing right:\\n    - "
                 "/a/b\\n    - /a/b/e\\n    - /f\\n  Differing groups:\\n    Group /a:\\n      Variables:\\n        Missing right:\\n         - v'")),
               ('two-b', 'one-ba',
                ('ok', 'str',
                 "'Left and right Group objects are not equal\\n  Differing tree structure:\\n    Missing left:\\n    - /b\\n    Missing right:\\n    - "
                 "/a/b\\n    - /a/b/e\\n    - /f\\n  Differing groups:\\n    Group /a:\\n      Variables:\\n        Missing right:\\n         - v'")),
               ('two-b', 'one-a-attrs',
                ('ok', 'str',
                 "'Left and right Group objects are not equal\\n  Differing tree structure:\\n    Missing right:\\n    - /a/b\\n    - /a/b/e\\n    - /f\\n  "
                 'Differing groups:\\n    Group /a:\\n      Variables:\\n        Missing right:\\n         - v\\n      Attributes:\\n        Missing '
                 "left:\\n         - a'")),
               ('two-b', 'one-a-attrs-b',
                ('ok', 'str',
                 "'Left and right Group objects are not equal\\n  Differing tree structure:\\n    Missing right:\\n    - /a/b\\n    - /a/b/e\\n    - /f\\n  "
                 'Differing groups:\\n    Group /a:\\n      Variables:\\n        Missing right:\\n         - v\\n      Attributes:\\n        Missing '
                 "left:\\n         - a'")),
               ('two-b', 'one-a-url',
                ('ok', 'str',
                 "'Left and right Group objects are not equal\\n  Differing tree structure:\\n    Missing right:\\n    - /a/b\\n    - /a/b/e\\n    - /f\\n  "
                 'Differing groups:\\n    Group /:\\n      Differing Url:\\n      L  None\\n      R  memory://y\\n    Group /a:\\n      Differing Url:\\n      '
                 "L  None\\n      R  memory://x\\n      Variables:\\n        Missing right:\\n         - v'")),
               ('two-b', 'two',
                ('ok', 'str',
                 "'Left and right Group objects are not equal\\n  Differing tree structure:\\n    Missing left:\\n    - /a/b/c\\n    - /d\\n    Missing "
                 'right:\\n    - /a/b/e\\n    - /f\\n  Differing groups:\\n    Group /a:\\n      Variables:\\n        Differing variables:\\n           L v  '
                 "(x)    int8  6\\n           R v  (x)    int8  5'")),
               ('two-b', 'two-b', ('ok', 'str', "'Left and right Group objects are not equal\\n'")),
               ('two-b', 'two-c',
                ('ok', 'str',
                 "'Left and right Group objects are not equal\\n  Differing tree structure:\\n    Missing left:\\n    - /a/b/c\\n    - /d\\n    Missing "
                 'right:\\n    - /a/b/e\\n    - /f\\n  Differing groups:\\n    Group /:\\n      Attributes:\\n        Missing left:\\n         - top\\n    '
                 'Group /a:\\n      Variables:\\n        Differing variables:\\n           L v  (x)    int8  6\\n           R v  (x)    int8  5\\n    Group '
                 "/a/b:\\n      Attributes:\\n        Missing left:\\n         - m'")),
               ('two-b', 'mixed',
                ('ok', 'str',
                 "'Left and right Group objects are not equal\\n  Differing tree structure:\\n    Missing left:\\n    - /g\\n    - /h\\n    - /h/g\\n    "
                 'Missing right:\\n    - /a\\n    - /a/b\\n    - /a/b/e\\n    - /f\\n  Differing groups:\\n    Group /:\\n      Variables:\\n        Missing '
                 "left:\\n         - v'")),
               ('two-b', 'mixed-b',
                ('ok', 'str',
                 "'Left and right Group objects are not equal\\n  Differing tree structure:\\n    Missing left:\\n    - /h\\n    - /h/g\\n    - /h/k\\n    - "
                 '/g\\n    Missing right:\\n    - /a\\n    - /a/b\\n    - /a/b/e\\n    - /f\\n  Differing groups:\\n    Group /:\\n      Variables:\\n        '
                 "Missing left:\\n         - v'")),
               ('two-b', 'arrays',
                ('ok', 'str',
                 "'Left and right Group objects are not equal\\n  Differing tree structure:\\n    Missing right:\\n    - /a\\n    - /a/b\\n    - /a/b/e\\n    "
                 "- /f\\n  Differing groups:\\n    Group /:\\n      Variables:\\n        Missing left:\\n         - data'")),
               ('two-b', 'arrays-b',
                ('ok', 'str',
                 "'Left and right Group objects are not equal\\n  Differing tree structure:\\n    Missing right:\\n    - /a\\n    - /a/b\\n    - /a/b/e\\n    "
                 "- /f\\n  Differing groups:\\n    Group /:\\n      Variables:\\n        Missing left:\\n         - data'")),
               ('two-b', 'sub',
                ('ok', 'str',
                 "'Left and right Group objects are not equal\\n  Differing tree structure:\\n    Missing right:\\n    - /a/b\\n    - /a/b/e\\n    - /f\\n  "
                 "Differing groups:\\n    Group /a:\\n      Variables:\\n        Missing right:\\n         - v'")),
               ('two-b', 'sub-b',
                ('ok', 'str',
                 "'Left and right Group objects are not equal\\n  Differing tree structure:\\n    Missing right:\\n    - /a/b\\n    - /a/b/e\\n    - /f\\n  "
                 'Differing groups:\\n    Group /a:\\n      Variables:\\n        Missing right:\\n         - v\\n      Attributes:\\n        Missing '
                 "left:\\n         - q'")),
               ('two-b', 'nested-path',
                ('ok', 'str',
                 "'Left and right Group objects are not equal\\n  Differing tree structure:\\n    Missing left:\\n    - /prefix\\n    - /prefix/a\\n    "
                 "Missing right:\\n    - /\\n    - /a\\n    - /a/b\\n    - /a/b/e\\n    - /f'")),
               ('two-c', 'empty',
                ('ok', 'str',
                 "'Left and right Group objects are not equal\\n  Differing tree structure:\\n    Missing right:\\n    - /a\\n    - /a/b\\n    - /a/b/c\\n    "
                 "- /d\\n  Differing groups:\\n    Group /:\\n      Attributes:\\n        Missing right:\\n         - top'")),
               ('two-c', 'empty-url',
                ('ok', 'str',
                 "'Left and right Group objects are not equal\\n  Differing tree structure:\\n    Missing right:\\n    - /a\\n    - /a/b\\n    - /a/b/c\\n    "
                 '- /d\\n  Differing groups:\\n    Group /:\\n      Differing Url:\\n      L  None\\n      R  memory://a\\n      Attributes:\\n        Missing '
                 "right:\\n         - top'")),
               ('two-c', 'empty-url-b',
                ('ok', 'str',
                 "'Left and right Group objects are not equal\\n  Differing tree structure:\\n    Missing right:\\n    - /a\\n    - /a/b\\n    - /a/b/c\\n    "
                 '- /d\\n  Differing groups:\\n    Group /:\\n      Differing Url:\\n      L  None\\n      R  memory://b\\n      Attributes:\\n        Missing '
                 "right:\\n         - top'")),
               ('two-c', 'empty-path',
                ('ok', 'str',
                 "'Left and right Group objects are not equal\\n  Differing tree structure:\\n    Missing left:\\n    - /root\\n    Missing right:\\n    - "
                 "/\\n    - /a\\n    - /a/b\\n    - /a/b/c\\n    - /d'")),
               ('two-c', 'empty-attrs',
                ('ok', 'str',
                 "'Left and right Group objects are not equal\\n  Differing tree structure:\\n    Missing right:\\n    - /a\\n    - /a/b\\n    - /a/b/c\\n    "
                 '- /d\\n  Differing groups:\\n    Group /:\\n      Attributes:\\n        Missing left:\\n         - a\\n        Missing right:\\n         - '
                 "top'")),
               ('two-c', 'empty-attrs-b',
                ('ok', 'str',
                 "'Left and right Group objects are not equal\\n  Differing tree structure:\\n    Missing right:\\n    - /a\\n    - /a/b\\n    - /a/b/c\\n    "
                 '- /d\\n  Differing groups:\\n    Group /:\\n      Attributes:\\n        Missing left:\\n         - a\\n         - b\\n        Missing '
                 "right:\\n         - top'")),
               ('two-c', 'vars',
                ('ok', 'str',
                 "'Left and right Group objects are not equal\\n  Differing tree structure:\\n    Missing right:\\n    - /a\\n    - /a/b\\n    - /a/b/c\\n    "
                 '- /d\\n  Differing groups:\\n    Group /:\\n      Variables:\\n        Missing left:\\n         - v\\n         - w\\n      '
                 "Attributes:\\n        Missing right:\\n         - top'")),
               ('two-c', 'vars-b',
                ('ok', 'str',
                 "'Left and right Group objects are not equal\\n  Differing tree structure:\\n    Missing right:\\n    - /a\\n    - /a/b\\n    - /a/b/c\\n    "
                 '- /d\\n  Differing groups:\\n    Group /:\\n      Variables:\\n        Missing left:\\n         - v\\n         - w\\n      '
                 "Attributes:\\n        Missing right:\\n         - top'")),
               ('two-c', 'vars-c',
                ('ok', 'str',
                 "'Left and right Group objects are not equal\\n  Differing tree structure:\\n    Missing right:\\n    - /a\\n    - /a/b\\n    - /a/b/c\\n    "
                 '- /d\\n  Differing groups:\\n    Group /:\\n      Variables:\\n        Missing left:\\n         - w\\n         - v\\n      '
                 "Attributes:\\n        Missing right:\\n         - top'")),
               ('two-c', 'vars-d',
                ('ok', 'str',
                 "'Left and right Group objects are not equal\\n  Differing tree structure:\\n    Missing right:\\n    - /a\\n    - /a/b\\n    - /a/b/c\\n    "
                 '- /d\\n  Differing groups:\\n    Group /:\\n      Variables:\\n        Missing left:\\n         - v\\n         - u\\n      '
                 "Attributes:\\n        Missing right:\\n         - top'")),
               ('two-c', 'one-a',
                ('ok', 'str',
                 "'Left and right Group objects are not equal\\n  Differing tree structure:\\n    Missing right:\\n    - /a/b\\n    - /a/b/c\\n    - /d\\n  "
                 'Differing groups:\\n    Group /:\\n      Attributes:\\n        Missing right:\\n         - top\\n    Group /a:\\n      Variables:\\n        '
                 "Missing right:\\n         - v'")),
               ('two-c', 'one-b',
                ('ok', 'str',
                 "'Left and right Group objects are not equal\\n  Differing tree structure:\\n    Missing left:\\n    - /b\\n    Missing right:\\n    - "
                 '/a\\n    - /a/b\\n    - /a/b/c\\n    - /d\\n  Differing groups:\\n    Group /:\\n      Attributes:\\n        Missing right:\\n         - '
                 "top'")),
               ('two-c', 'one-ab',
                ('ok', 'str',
                 "'Left and right Group objects are not equal\\n  Differing tree structure:\\n    Missing left:\\n    - /b\\n    Missing right:\\n    - "
                 '/a/b\\n    - /a/b/c\\n    - /d\\n  Differing groups:\\n    Group /:\\n      Attributes:\\n        Missing right:\\n         - top\\n    '
                 "Group /a:\\n      Variables:\\n        Missing right:\\n         - v'")),
               ('two-c', 'one-ba',
                ('ok', 'str',
                 "'Left and right Group objects are not equal\\n  Differing tree structure:\\n    Missing left:\\n    - /b\\n    Missing right:\\n    - "
                 '/a/b\\n    - /a/b/c\\n    - /d\\n  Differing groups:\\n    Group /:\\n      Attributes:\\n        Missing right:\\n         - top\\n    '
                 "Group /a:\\n      Variables:\\n        Missing right:\\n         - v'")),
               ('two-c', 'one-a-attrs',
                ('ok', 'str',
                 "'Left and right Group objects are not equal\\n  Differing tree structure:\\n    Missing right:\\n    - /a/b\\n    - /a/b/c\\n    - /d\\n  "
                 'Differing groups:\\n    Group /:\\n      Attributes:\\n        Missing right:\\n         - top\\n    Group /a:\\n      Variables:\\n        '
                 "Missing right:\\n         - v\\n      Attributes:\\n        Missing left:\\n         - a'")),
               ('two-c', 'one-a-attrs-b',
                ('ok', 'str',
                 "'Left and right Group objects are not equal\\n  Differing tree structure:\\n    Missing right:\\n    - /a/b\\n    - /a/b/c\\n    - /d\\n  "
                 'Differing groups:\\n    Group /:\\n      Attributes:\\n        Missing right:\\n         - top\\n    Group /a:\\n      Variables:\\n        '
                 "Missing right:\\n         - v\\n      Attributes:\\n        Missing left:\\n         - a'")),
               ('two-c', 'one-a-url',
                ('ok', 'str',
                 "'Left and right Group objects are not equal\\n  Differing tree structure:\\n    Missing right:\\n    - /a/b\\n    - /a/b/c\\n    - /d\\n  "
                 'Differing groups:\\n    Group /:\\n      Differing Url:\\n      L  None\\n      R  memory://y\\n      Attributes:\\n        Missing '
                 'right:\\n         - top\\n    Group /a:\\n      Differing Url:\\n      L  None\\n      R  memory://x\\n      Variables:\\n        Missing '
                 "right:\\n         - v'")),
               ('two-c', 'two',
                ('ok', 'str',
                 "'Left and right Group objects are not equal\\n  Differing groups:\\n    Group /:\\n      Attributes:\\n        Missing right:\\n         - "
                 'top\\n    Group /a/b:\\n      Attributes:\\n        Missing right:\\n         - m\\n    Group /a/b/c:\\n      Attributes:\\n        Missing '
                 "right:\\n         - n\\n    Group /d:\\n      Variables:\\n        Missing right:\\n         - x'")),
               ('two-c', 'two-b',
                ('ok', 'str',
                 "'Left and right Group objects are not equal\\n  Differing tree structure:\\n    Missing left:\\n    - /a/b/e\\n    - /f\\n    Missing "
                 'right:\\n    - /a/b/c\\n    - /d\\n  Differing groups:\\n    Group /:\\n      Attributes:\\n        Missing right:\\n         - top\\n    '
                 'Group /a:\\n      Variables:\\n        Differing variables:\\n           L v  (x)    int8  5\\n           R v  (x)    int8  6\\n    Group '
                 "/a/b:\\n      Attributes:\\n        Missing right:\\n         - m'")),
               ('two-c', 'two-c', ('ok', 'str', "'Left and right Group objects are not equal\\n'")),
               ('two-c', 'mixed',
                ('ok', 'str',
                 "'Left and right Group objects are not equal\\n  Differing tree structure:\\n    Missing left:\\n    - /g\\n    - /h\\n    - /h/g\\n    "
                 'Missing right:\\n    - /a\\n    - /a/b\\n    - /a/b/c\\n    - /d\\n  Differing groups:\\n    Group /:\\n      Variables:\\n        Missing '
                 "left:\\n         - v\\n      Attributes:\\n        Missing right:\\n         - top'")),
               ('two-c', 'mixed-b',
                ('ok', 'str',
                 "'Left and right Group objects are not equal\\n  Differing tree structure:\\n    Missing left:\\n    - /h\\n    - /h/g\\n    - /h/k\\n    - "
                 '/g\\n    Missing right:\\n    - /a\\n    - /a/b\\n    - /a/b/c\\n    - /d\\n  Differing groups:\\n    Group /:\\n      Variables:\\n        '
                 "Missing left:\\n         - v\\n      Attributes:\\n        Missing right:\\n         - top'")),
               ('two-c', 'arrays',
                ('ok', 'str',
                 "'Left and right Group objects are not equal\\n  Differing tree structure:\\n    Missing right:\\n    - /a\\n    - /a/b\\n    - /a/b/c\\n    "
                 '- /d\\n  Differing groups:\\n    Group /:\\n      Variables:\\n        Missing left:\\n         - data\\n      Attributes:\\n        Missing '
                 "right:\\n         - top'")),
               ('two-c', 'arrays-b',
                ('ok', 'str',
                 "'Left and right Group objects are not equal\\n  Differing tree structure:\\n    Missing right:\\n    - /a\\n    - /a/b\\n    - /a/b/c\\n    "
                 '- /d\\n  Differing groups:\\n    Group /:\\n      Variables:\\n        Missing left:\\n         - data\\n      Attributes:\\n        Missing '
                 "right:\\n         - top'")),
               ('two-c', 'sub',
                ('ok', 'str',
                 "'Left and right Group objects are not equal\\n  Differing tree structure:\\n    Missing right:\\n    - /a/b\\n    - /a/b/c\\n    - /d\\n  "
                 'Differing groups:\\n    Group /:\\n      Attributes:\\n        Missing right:\\n         - top\\n    Group /a:\\n      Variables:\\n        '
                 "Missing right:\\n         - v'")),
               ('two-c', 'sub-b',
                ('ok', 'str',
                 "'Left and right Group objects are not equal\\n  Differing tree structure:\\n    Missing right:\\n    - /a/b\\n    - /a/b/c\\n    - /d\\n  "
                 'Differing groups:\\n    Group /:\\n      Attributes:\\n        Missing right:\\n         - top\\n    Group /a:\\n      Variables:\\n        '
                 "Missing right:\\n         - v\\n      Attributes:\\n        Missing left:\\n         - q'")),
               ('two-c', 'nested-path',
                ('ok', 'str',
                 "'Left and right Group objects are not equal\\n  Differing tree structure:\\n    Missing left:\\n    - /prefix\\n    - /prefix/a\\n    "
                 "Missing right:\\n    - /\\n    - /a\\n    - /a/b\\n    - /a/b/c\\n    - /d'")),
               ('mixed', 'empty',
                ('ok', 'str',
                 "'Left and right Group objects are not equal\\n  Differing tree structure:\\n    Missing right:\\n    - /g\\n    - /h\\n    - /h/g\\n  "
                 "Differing groups:\\n    Group /:\\n      Variables:\\n        Missing right:\\n         - v'")),
               ('mixed', 'empty-url',
                ('ok', 'str',
                 "'Left and right Group objects are not equal\\n  Differing tree structure:\\n    Missing right:\\n    - /g\\n    - /h\\n    - /h/g\\n  "
                 'Differing groups:\\n    Group /:\\n      Differing Url:\\n      L  None\\n      R  memory://a\\n      Variables:\\n        Missing '
                 "right:\\n         - v'")),
               ('mixed', 'empty-url-b',
                ('ok', 'str',
                 "'Left and right Group objects are not equal\\n  Differing tree structure:\\n    Missing right:\\n    - /g\\n    - /h\\n    - /h/g\\n  "
                 'Differing groups:\\n    Group /:\\n      Differing Url:\\n      L  None\\n      R  memory://b\\n      Variables:\\n        Missing '
                 "right:\\n         - v'")),
               ('mixed', 'empty-path',
                ('ok', 'str',
                 "'Left and right Group objects are not equal\\n  Differing tree structure:\\n    Missing left:\\n    - /root\\n    Missing right:\\n    - "
                 "/\\n    - /g\\n    - /h\\n    - /h/g'")),
               ('mixed', 'empty-attrs',
                ('ok', 'str',
                 "'Left and right Group objects are not equal\\n  Differing tree structure:\\n    Missing right:\\n    - /g\\n    - /h\\n    - /h/g\\n  "
                 'Differing groups:\\n    Group /:\\n      Variables:\\n        Missing right:\\n         - v\\n      Attributes:\\n        Missing '
                 "left:\\n         - a'")),
               ('mixed', 'empty-attrs-b',
                ('ok', 'str',
                 "'Left and right Group objects are not equal\\n  Differing tree structure:\\n    Missing right:\\n    - /g\\n    - /h\\n    - /h/g\\n  "
                 'Differing groups:\\n    Group /:\\n      Variables:\\n        Missing right:\\n         - v\\n      Attributes:\\n        Missing '
                 "left:\\n         - a\\n         - b'")),
               ('mixed', 'vars',
                ('ok', 'str',
                 "'Left and right Group objects are not equal\\n  Differing tree structure:\\n    Missing right:\\n    - /g\\n    - /h\\n    - /h/g\\n  "
                 "Differing groups:\\n    Group /:\\n      Variables:\\n        Missing left:\\n         - w'")),
               ('mixed', 'vars-b',
                ('ok', 'str',
                 "'Left and right Group objects are not equal\\n  Differing tree structure:\\n    Missing right:\\n    - /g\\n    - /h\\n    - /h/g\\n  "
                 "Differing groups:\\n    Group /:\\n      Variables:\\n        Missing left:\\n         - w'")),
               ('mixed', 'vars-c',
                ('ok', 'str',
                 "'Left and right Group objects are not equal\\n  Differing tree structure:\\n    Missing right:\\n    - /g\\n    - /h\\n    - /h/g\\n  "
                 "Differing groups:\\n    Group /:\\n      Variables:\\n        Missing left:\\n         - w'")),
               ('mixed', 'vars-d',
                ('ok', 'str',
                 "'Left and right Group objects are not equal\\n  Differing tree structure:\\n    Missing right:\\n    - /g\\n    - /h\\n    - /h/g\\n  "
                 'Differing groups:\\n    Group /:\\n      Variables:\\n        Missing left:\\n         - u\\n        Differing variables:\\n           L v  '
                 "(x)    int8  1\\n           R v  (y)    int8  1'")),
               ('mixed', 'one-a',
                ('ok', 'str',
                 "'Left and right Group objects are not equal\\n  Differing tree structure:\\n    Missing left:\\n    - /a\\n    Missing right:\\n    - "
                 "/g\\n    - /h\\n    - /h/g\\n  Differing groups:\\n    Group /:\\n      Variables:\\n        Missing right:\\n         - v'")),
               ('mixed', 'one-b',
                ('ok', 'str',
                 "'Left and right Group objects are not equal\\n  Differing tree structure:\\n    Missing left:\\n    - /b\\n    Missing right:\\n    - "
                 "/g\\n    - /h\\n    - /h/g\\n  Differing groups:\\n    Group /:\\n      Variables:\\n        Missing right:\\n         - v'")),
               ('mixed', 'one-ab',
                ('ok', 'str',
                 "'Left and right Group objects are not equal\\n  Differing tree structure:\\n    Missing left:\\n    - /a\\n    - /b\\n    Missing "
                 "right:\\n    - /g\\n    - /h\\n    - /h/g\\n  Differing groups:\\n    Group /:\\n      Variables:\\n        Missing right:\\n         - v'")),
               ('mixed', 'one-ba',
                ('ok', 'str',
                 "'Left and right Group objects are not equal\\n  Differing tree structure:\\n    Missing left:\\n    - /b\\n    - /a\\n    Missing "
                 "right:\\n    - /g\\n    - /h\\n    - /h/g\\n  Differing groups:\\n    Group /:\\n      Variables:\\n        Missing right:\\n         - v'")),
               ('mixed', 'one-a-attrs',
                ('ok', 'str',
                 "'Left and right Group objects are not equal\\n  Differing tree structure:\\n    Missing left:\\n    - /a\\n    Missing right:\\n    - "
                 "/g\\n    - /h\\n    - /h/g\\n  Differing groups:\\n    Group /:\\n      Variables:\\n        Missing right:\\n         - v'")),
               ('mixed', 'one-a-attrs-b',
                ('ok', 'str',
                 "'Left and right Group objects are not equal\\n  Differing tree structure:\\n    Missing left:\\n    - /a\\n    Missing right:\\n    - "
                 "/g\\n    - /h\\n    - /h/g\\n  Differing groups:\\n    Group /:\\n      Variables:\\n        Missing right:\\n         - v'")),
               ('mixed', 'one-a-url',
                ('ok', 'str',
                 "'Left and right Group objects are not equal\\n  Differing tree structure:\\n    Missing left:\\n    - /a\\n    Missing right:\\n    - "
                 '/g\\n    - /h\\n    - /h/g\\n  Differing groups:\\n    Group /:\\n      Differing Url:\\n      L  None\\n      R  memory://y\\n      '
                 "Variables:\\n        Missing right:\\n         - v'")),
               ('mixed', 'two',
                ('ok', 'str',
                 "'Left and right Group objects are not equal\\n  Differing tree structure:\\n    Missing left:\\n    - /a\\n    - /a/b\\n    - /a/b/c\\n    - "
                 '/d\\n    Missing right:\\n    - /g\\n    - /h\\n    - /h/g\\n  Differing groups:\\n    Group /:\\n      Variables:\\n        Missing '
                 "right:\\n         - v'")),
               ('mixed', 'two-b',
                ('ok', 'str',
                 "'Left and right Group objects are not equal\\n  Differing tree structure:\\n    Missing left:\\n    - /a\\n    - /a/b\\n    - /a/b/e\\n    - "
                 '/f\\n    Missing right:\\n    - /g\\n    - /h\\n    - /h/g\\n  Differing groups:\\n    Group /:\\n      Variables:\\n        Missing '
                 "right:\\n         - v'")),
               ('mixed', 'two-c',
                ('ok', 'str',
                 "'Left and right Group objects are not equal\\n  Differing tree structure:\\n    Missing left:\\n    - /a\\n    - /a/b\\n    - /a/b/c\\n    - "
                 '/d\\n    Missing right:\\n    - /g\\n    - /h\\n    - /h/g\\n  Differing groups:\\n    Group /:\\n      Variables:\\n        Missing '
                 "right:\\n         - v\\n      Attributes:\\n        Missing left:\\n         - top'")),
               ('mixed', 'mixed', ('ok', 'str', "'Left and right Group objects are not equal\\n'")),
               ('mixed', 'mixed-b',
                ('ok', 'str',
                 "'Left and right Group objects are not equal\\n  Differing tree structure:\\n    Missing left:\\n    - /h/k\\n  Differing groups:\\n    Group "
                 "/g:\\n      Variables:\\n        Differing variables:\\n           L v  (x)    int8  2\\n           R v  (x)    float32  2.5'")),
               ('mixed', 'arrays',
                ('ok', 'str',
                 "'Left and right Group objects are not equal\\n  Differing tree structure:\\n    Missing right:\\n    - /g\\n    - /h\\n    - /h/g\\n  "
                 "Differing groups:\\n    Group /:\\n      Variables:\\n        Missing left:\\n         - data\\n        Missing right:\\n         - v'")),
               ('mixed', 'arrays-b',
                ('ok', 'str',
                 "'Left and right Group objects are not equal\\n  Differing tree structure:\\n    Missing right:\\n    - /g\\n    - /h\\n    - /h/g\\n  "
                 "Differing groups:\\n    Group /:\\n      Variables:\\n        Missing left:\\n         - data\\n        Missing right:\\n         - v'")),
               ('mixed', 'sub',
                ('ok', 'str',
                 "'Left and right Group objects are not equal\\n  Differing tree structure:\\n    Missing left:\\n    - /a\\n    Missing right:\\n    - "
                 "/g\\n    - /h\\n    - /h/g\\n  Differing groups:\\n    Group /:\\n      Variables:\\n        Missing right:\\n         - v'")),
               ('mixed', 'sub-b',
                ('ok', 'str',
                 "'Left and right Group objects are not equal\\n  Differing tree structure:\\n    Missing left:\\n    - /a\\n    Missing right:\\n    - "
                 "/g\\n    - /h\\n    - /h/g\\n  Differing groups:\\n    Group /:\\n      Variables:\\n        Missing right:\\n         - v'")),
               ('mixed', 'nested-path',
                ('ok', 'str',
                 "'Left and right Group objects are not equal\\n  Differing tree structure:\\n    Missing left:\\n    - /prefix\\n    - /prefix/a\\n    "
                 "Missing right:\\n    - /\\n    - /g\\n    - /h\\n    - /h/g'")),
               ('mixed-b', 'empty',
                ('ok', 'str',
                 "'Left and right Group objects are not equal\\n  Differing tree structure:\\n    Missing right:\\n    - /h\\n    - /h/g\\n    - /h/k\\n    - "
                 "/g\\n  Differing groups:\\n    Group /:\\n      Variables:\\n        Missing right:\\n         - v'")),
               ('mixed-b', 'empty-url',
                ('ok', 'str',
                 "'Left and right Group objects are not equal\\n  Differing tree structure:\\n    Missing right:\\n    - /h\\n    - /h/g\\n    - /h/k\\n    - "
                 '/g\\n  Differing groups:\\n    Group /:\\n      Differing Url:\\n      L  None\\n      R  memory://a\\n      Variables:\\n        Missing '
                 "right:\\n         - v'")),
               ('mixed-b', 'empty-url-b',
                ('ok', 'str',
                 "'Left and right Group objects are not equal\\n  Differing tree structure:\\n    Missing right:\\n    - /h\\n    - /h/g\\n    - /h/k\\n    - "
                 '/g\\n  Differing groups:\\n    Group /:\\n      Differing Url:\\n      L  None\\n      R  memory://b\\n      Variables:\\n        Missing '
                 "right:\\n         - v'")),
               ('mixed-b', 'empty-path',
                ('ok', 'str',
                 "'Left and right Group objects are not equal\\n  Differing tree structure:\\n    Missing left:\\n    - /root\\n    Missing right:\\n    - "
                 "/\\n    - /h\\n    - /h/g\\n    - /h/k\\n    - /g'")),
               ('mixed-b', 'empty-attrs',
                ('ok', 'str',
                 "'Left and right Group objects are not equal\\n  Differing tree structure:\\n    Missing right:\\n    - /h\\n    - /h/g\\n    - /h/k\\n    - "
                 '/g\\n  Differing groups:\\n    Group /:\\n      Variables:\\n        Missing right:\\n         - v\\n      Attributes:\\n        Missing '
                 "left:\\n         - a'")),
               ('mixed-b', 'empty-attrs-b',
                ('ok', 'str',
                 "'Left and right Group objects are not equal\\n  Differing tree structure:\\n    Missing right:\\n    - /h\\n    - /h/g\\n    - /h/k\\n    - "
                 '/g\\n  Differing groups:\\n    Group /:\\n      Variables:\\n        Missing right:\\n         - v\\n      Attributes:\\n        Missing '
                 "left:\\n         - a\\n         - b'")),
               ('mixed-b', 'vars',
                ('ok', 'str',
                 "'Left and right Group objects are not equal\\n  Differing tree structure:\\n    Missing right:\\n    - /h\\n    - /h/g\\n    - /h/k\\n    - "
                 "/g\\n  Differing groups:\\n    Group /:\\n      Variables:\\n        Missing left:\\n         - w'")),
               ('mixed-b', 'vars-b',
                ('ok', 'str',
                 "'Left and right Group objects are not equal\\n  Differing tree structure:\\n    Missing right:\\n    - /h\\n    - /h/g\\n    - /h/k\\n    - "
                 "/g\\n  Differing groups:\\n    Group /:\\n      Variables:\\n        Missing left:\\n         - w'")),
               ('mixed-b', 'vars-c',
                ('ok', 'str',
                 "'Left and right Group objects are not equal\\n  Differing tree structure:\\n    Missing right:\\n    - /h\\n    - /h/g\\n    - /h/k\\n    - "
                 "/g\\n  Differing groups:\\n    Group /:\\n      Variables:\\n        Missing left:\\n         - w'")),
               ('mixed-b', 'vars-d',
                ('ok', 'str',
                 "'Left and right Group objects are not equal\\n  Differing tree structure:\\n    Missing right:\\n    - /h\\n    - /h/g\\n    - /h/k\\n    - "
                 '/g\\n  Differing groups:\\n    Group /:\\n      Variables:\\n        Missing left:\\n         - u\\n        Differing '
                 "variables:\\n           L v  (x)    int8  1\\n           R v  (y)    int8  1'")),
               ('mixed-b', 'one-a',
                ('ok', 'str',
                 "'Left and right Group objects are not equal\\n  Differing tree structure:\\n    Missing left:\\n    - /a\\n    Missing right:\\n    - "
                 "/h\\n    - /h/g\\n    - /h/k\\n    - /g\\n  Differing groups:\\n    Group /:\\n      Variables:\\n        Missing right:\\n         - v'")),
               ('mixed-b', 'one-b',
                ('ok', 'str',
                 "'Left and right Group objects are not equal\\n  Differing tree structure:\\n    Missing left:\\n    - /b\\n    Missing right:\\n    - "
                 "/h\\n    - /h/g\\n    - /h/k\\n    - /g\\n  Differing groups:\\n    Group /:\\n      Variables:\\n        Missing right:\\n         - v'")),
               ('mixed-b', 'one-ab',
                ('ok', 'str',
                 "'Left and right Group objects are not equal\\n  Differing tree structure:\\n    Missing left:\\n    - /a\\n    - /b\\n    Missing "
                 'right:\\n    - /h\\n    - /h/g\\n    - /h/k\\n    - /g\\n  Differing groups:\\n    Group /:\\n      Variables:\\n        Missing '
                 "right:\\n         - v'")),
               ('mixed-b', 'one-ba',
                ('ok', 'str',
                 "'Left and right Group objects are not equal\\n  Differing tree structure:\\n    Missing left:\\n    - /b\\n    - /a\\n    Missing "
                 'right:\\n    - /h\\n    - /h/g\\n    - /h/k\\n    - /g\\n  Differing groups:\\n    Group /:\\n      Variables:\\n        Missing '
                 "right:\\n         - v'")),
               ('mixed-b', 'one-a-attrs',
                ('ok', 'str',
                 "'Left and right Group objects are not equal\\n  Differing tree structure:\\n    Missing left:\\n    - /a\\n    Missing right:\\n    - "
                 "/h\\n    - /h/g\\n    - /h/k\\n    - /g\\n  Differing groups:\\n    Group /:\\n      Variables:\\n        Missing right:\\n         - v'")),
               ('mixed-b', 'one-a-attrs-b',
                ('ok', 'str',
                 "'Left and right Group objects are not equal\\n  Differing tree structure:\\n    Missing left:\\n    - /a\\n    Missing right:\\n    - "
                 "/h\\n    - /h/g\\n    - /h/k\\n    - /g\\n  Differing groups:\\n    Group /:\\n      Variables:\\n        Missing right:\\n         - v'")),
               ('mixed-b', 'one-a-url',
                ('ok', 'str',
                 "'Left and right Group objects are not equal\\n  Differing tree structure:\\n    Missing left:\\n    - /a\\n    Missing right:\\n    - "
                 '/h\\n    - /h/g\\n    - /h/k\\n    - /g\\n  Differing groups:\\n    Group /:\\n      Differing Url:\\n      L  None\\n      R  '
                 "memory://y\\n      Variables:\\n        Missing right:\\n         - v'")),
               ('mixed-b', 'two',
                ('ok', 'str',
                 "'Left and right Group objects are not equal\\n  Differing tree structure:\\n    Missing left:\\n    - /a\\n    - /a/b\\n    - /a/b/c\\n    - "
                 '/d\\n    Missing right:\\n    - /h\\n    - /h/g\\n    - /h/k\\n    - /g\\n  Differing groups:\\n    Group /:\\n      Variables:\\n        '
                 "Missing right:\\n         - v'")),
               ('mixed-b', 'two-b',
                ('ok', 'str',
                 "'Left and right Group objects are not equal\\n  Differing tree structure:\\n    Missing left:\\n    - /a\\n    - /a/b\\n    - /a/b/e\\n    - "
                 '/f\\n    Missing right:\\n    - /h\\n    - /h/g\\n    - /h/k\\n    - /g\\n  Differing groups:\\n    Group /:\\n      Variables:\\n        '
                 "Missing right:\\n         - v'")),
               ('mixed-b', 'two-c',
                ('ok', 'str',
                 "'Left and right Group objects are not equal\\n  Differing tree structure:\\n    Missing left:\\n    - /a\\n    - /a/b\\n    - /a/b/c\\n    - "
                 '/d\\n    Missing right:\\n    - /h\\n    - /h/g\\n    - /h/k\\n    - /g\\n  Differing groups:\\n    Group /:\\n      Variables:\\n        '
                 "Missing right:\\n         - v\\n      Attributes:\\n        Missing left:\\n         - top'")),
               ('mixed-b', 'mixed',
                ('ok', 'str',
                 "'Left and right Group objects are not equal\\n  Differing tree structure:\\n    Missing right:\\n    - /h/k\\n  Differing groups:\\n    "
                 "Group /g:\\n      Variables:\\n        Differing variables:\\n           L v  (x)    float32  2.5\\n           R v  (x)    int8  2'")),
               ('mixed-b', 'mixed-b', ('ok', 'str', "'Left and right Group objects are not equal\\n'")),
               ('mixed-b', 'arrays',
                ('ok', 'str',
                 "'Left and right Group objects are not equal\\n  Differing tree structure:\\n    Missing right:\\n    - /h\\n    - /h/g\\n    - /h/k\\n    - "
                 '/g\\n  Differing groups:\\n    Group /:\\n      Variables:\\n        Missing left:\\n         - data\\n        Missing right:\\n         - '
                 "v'")),
               ('mixed-b', 'arrays-b',
                ('ok', 'str',
                 "'Left and right Group objects are not equal\\n  Differing tree structure:\\n    Missing right:\\n    - /h\\n    - /h/g\\n    - /h/k\\n    - "
                 '/g\\n  Differing groups:\\n    Group /:\\n      Variables:\\n        Missing left:\\n         - data\\n        Missing right:\\n         - '
                 "v'")),
               ('mixed-b', 'sub',
                ('ok', 'str',
                 "'Left and right Group objects are not equal\\n  Differing tree structure:\\n    Missing left:\\n    - /a\\n    Missing right:\\n    - "
                 "/h\\n    - /h/g\\n    - /h/k\\n    - /g\\n  Differing groups:\\n    Group /:\\n      Variables:\\n        Missing right:\\n         - v'")),
               ('mixed-b', 'sub-b',
                ('ok', 'str',
                 "'Left and right Group objects are not equal\\n  Differing tree structure:\\n    Missing left:\\n    - /a\\n    Missing right:\\n    - "
                 "/h\\n    - /h/g\\n    - /h/k\\n    - /g\\n  Differing groups:\\n    Group /:\\n      Variables:\\n        Missing right:\\n         - v'")),
               ('mixed-b', 'nested-path',
                ('ok', 'str',
                 "'Left and right Group objects are not equal\\n  Differing tree structure:\\n    Missing left:\\n    - /prefix\\n    - /prefix/a\\n    "
                 "Missing right:\\n    - /\\n    - /h\\n    - /h/g\\n    - /h/k\\n    - /g'")),
               ('arrays', 'empty',
                ('ok', 'str',
                 "'Left and right Group objects are not equal\\n  Differing groups:\\n    Group /:\\n      Variables:\\n        Missing right:\\n         - "
                 "data'")),
               ('arrays', 'empty-url',
                ('ok', 'str',
                 "'Left and right Group objects are not equal\\n  Differing groups:\\n    Group /:\\n      Differing Url:\\n      L  None\\n      R  "
                 "memory://a\\n      Variables:\\n        Missing right:\\n         - data'")),
               ('arrays', 'empty-url-b',
                ('ok', 'str',
                 "'Left and right Group objects are not equal\\n  Differing groups:\\n    Group /:\\n      Differing Url:\\n      L  None\\n      R  "
                 "memory://b\\n      Variables:\\n        Missing right:\\n         - data'")),
               ('arrays', 'empty-path',
                ('ok', 'str',
                 "'Left and right Group objects are not equal\\n  Differing tree structure:\\n    Missing left:\\n    - /root\\n    Missing right:\\n    - "
                 "/'")),
               ('arrays', 'empty-attrs',
                ('ok', 'str',
                 "'Left and right Group objects are not equal\\n  Differing groups:\\n    Group /:\\n      Variables:\\n        Missing right:\\n         - "
                 "data\\n      Attributes:\\n        Missing left:\\n         - a'")),
               ('arrays', 'empty-attrs-b',
                ('ok', 'str',
                 "'Left and right Group objects are not equal\\n  Differing groups:\\n    Group /:\\n      Variables:\\n        Missing right:\\n         - "
                 "data\\n      Attributes:\\n        Missing left:\\n         - a\\n         - b'")),
               ('arrays', 'vars',
                ('ok', 'str',
                 "'Left and right Group objects are not equal\\n  Differing groups:\\n    Group /:\\n      Variables:\\n        Missing left:\\n         - "
                 "v\\n         - w\\n        Missing right:\\n         - data'")),
               ('arrays', 'vars-b',
                ('ok', 'str',
                 "'Left and right Group objects are not equal\\n  Differing groups:\\n    Group /:\\n      Variables:\\n        Missing left:\\n         - "
                 "v\\n         - w\\n        Missing right:\\n         - data'")),
               ('arrays', 'vars-c',
                ('ok', 'str',
                 "'Left and right Group objects are not equal\\n  Differing groups:\\n    Group /:\\n      Variables:\\n        Missing left:\\n         - "
                 "w\\n         - v\\n        Missing right:\\n         - data'")),
               ('arrays', 'vars-d',
                ('ok', 'str',
                 "'Left and right Group objects are not equal\\n  Differing groups:\\n    Group /:\\n      Variables:\\n        Missing left:\\n         - "
                 "v\\n         - u\\n        Missing right:\\n         - data'")),
               ('arrays', 'one-a',
                ('ok', 'str',
                 "'Left and right Group objects are not equal\\n  Differing tree structure:\\n    Missing left:\\n    - /a\\n  Differing groups:\\n    Group "
                 "/:\\n      Variables:\\n        Missing right:\\n         - data'")),
               ('arrays', 'one-b',
                ('ok', 'str',
                 "'Left and right Group objects are not equal\\n  Differing tree structure:\\n    Missing left:\\n    - /b\\n  Differing groups:\\n    Group "
                 "/:\\n      Variables:\\n        Missing right:\\n         - data'")),
               ('arrays', 'one-ab',
                ('ok', 'str',
                 "'Left and right Group objects are not equal\\n  Differing tree structure:\\n    Missing left:\\n    - /a\\n    - /b\\n  Differing "
                 "groups:\\n    Group /:\\n      Variables:\\n        Missing right:\\n         - data'")),
               ('arrays', 'one-ba',
                ('ok', 'str',
                 "'Left and right Group objects are not equal\\n  Differing tree structure:\\n    Missing left:\\n    - /b\\n    - /a\\n  Differing "
                 "groups:\\n    Group /:\\n      Variables:\\n        Missing right:\\n         - data'")),
               ('arrays', 'one-a-attrs',
                ('ok', 'str',
                 "'Left and right Group objects are not equal\\n  Differing tree structure:\\n    Missing left:\\n    - /a\\n  Differing groups:\\n    Group "
                 "/:\\n      Variables:\\n        Missing right:\\n         - data'")),
               ('arrays', 'one-a-attrs-b',
                ('ok', 'str',
                 "'Left and right Group objects are not equal\\n  Differing tree structure:\\n    Missing left:\\n    - /a\\n  Differing groups:\\n    Group "
                 "/:\\n      Variables:\\n        Missing right:\\n         - data'")),
               ('arrays', 'one-a-url',
                ('ok', 'str',
                 "'Left and right Group objects are not equal\\n  Differing tree structure:\\n    Missing left:\\n    - /a\\n  Differing groups:\\n    Group "
                 "/:\\n      Differing Url:\\n      L  None\\n      R  memory://y\\n      Variables:\\n        Missing right:\\n         - data'")),
               ('arrays', 'two',
                ('ok', 'str',
                 "'Left and right Group objects are not equal\\n  Differing tree structure:\\n    Missing left:\\n    - /a\\n    - /a/b\\n    - /a/b/c\\n    - "
                 "/d\\n  Differing groups:\\n    Group /:\\n      Variables:\\n        Missing right:\\n         - data'")),
               ('arrays', 'two-b',
                ('ok', 'str',
                 "'Left and right Group objects are not equal\\n  Differing tree structure:\\n    Missing left:\\n    - /a\\n    - /a/b\\n    - /a/b/e\\n    - "
                 "/f\\n  Differing groups:\\n    Group /:\\n      Variables:\\n        Missing right:\\n         - data'")),
               ('arrays', 'two-c',
                ('ok', 'str',
                 "'Left and right Group objects are not equal\\n  Differing tree structure:\\n    Missing left:\\n    - /a\\n    - /a/b\\n    - /a/b/c\\n    - "
                 '/d\\n  Differing groups:\\n    Group /:\\n      Variables:\\n        Missing right:\\n         - data\\n      Attributes:\\n        Missing '
                 "left:\\n         - top'")),
               ('arrays', 'mixed',
                ('ok', 'str',
                 "'Left and right Group objects are not equal\\n  Differing tree structure:\\n    Missing left:\\n    - /g\\n    - /h\\n    - /h/g\\n  "
                 "Differing groups:\\n    Group /:\\n      Variables:\\n        Missing left:\\n         - v\\n        Missing right:\\n         - data'")),
               ('arrays', 'mixed-b',
                ('ok', 'str',
                 "'Left and right Group objects are not equal\\n  Differing tree structure:\\n    Missing left:\\n    - /h\\n    - /h/g\\n    - /h/k\\n    - "
                 '/g\\n  Differing groups:\\n    Group /:\\n      Variables:\\n        Missing left:\\n         - v\\n        Missing right:\\n         - '
                 "data'")),
               ('arrays', 'arrays', ('ok', 'str', "'Left and right Group objects are not equal\\n'")),
               ('arrays', 'arrays-b',
                ('ok', 'str',
                 "'Left and right Group objects are not equal\\n  Differing groups:\\n    Group /:\\n      Variables:\\n        Differing "
                 'variables:\\n           L data  (rows, columns)    Array(shape=(4, 3), dtype=int16, rpc=2)\\n             url: '
                 'memory:///path/to/file\\n           R data  (rows, columns)    Array(shape=(4, 3), dtype=int16, rpc=2)\\n             url: '
                 "memory:///path/to/other'")),
               ('arrays', 'sub',
                ('ok', 'str',
                 "'Left and right Group objects are not equal\\n  Differing tree structure:\\n    Missing left:\\n    - /a\\n  Differing groups:\\n    Group "
                 "/:\\n      Variables:\\n        Missing right:\\n         - data'")),
               ('arrays', 'sub-b',
                ('ok', 'str',
                 "'Left and right Group objects are not equal\\n  Differing tree structure:\\n    Missing left:\\n    - /a\\n  Differing groups:\\n    Group "
                 "/:\\n      Variables:\\n        Missing right:\\n         - data'")),
               ('arrays', 'nested-path',
                ('ok', 'str',
                 "'Left and right Group objects are not equal\\n  Differing tree structure:\\n    Missing left:\\n    - /prefix\\n    - /prefix/a\\n    "
                 "Missing right:\\n    - /'")),
               ('arrays-b', 'empty',
                ('ok', 'str',
                 "'Left and right Group objects are not equal\\n  Differing groups:\\n    Group /:\\n      Variables:\\n        Missing right:\\n         - "
                 "data'")),
               ('arrays-b', 'empty-url',
                ('ok', 'str',
                 "'Left and right Group objects are not equal\\n  Differing groups:\\n    Group /:\\n      Differing Url:\\n      L  None\\n      R  "
                 "memory://a\\n      Variables:\\n        Missing right:\\n         - data'")),
               ('arrays-b', 'empty-url-b',
                ('ok', 'str',
                 "'Left and right Group objects are not equal\\n  Differing groups:\\n    Group /:\\n      Differing Url:\\n      L  None\\n      R  "
                 "memory://b\\n      Variables:\\n        Missing right:\\n         - data'")),
               ('arrays-b', 'empty-path',
                ('ok', 'str',
                 "'Left and right Group objects are not equal\\n  Differing tree structure:\\n    Missing left:\\n    - /root\\n    Missing right:\\n    - "
                 "/'")),
               ('arrays-b', 'empty-attrs',
                ('ok', 'str',
                 "'Left and right Group objects are not equal\\n  Differing groups:\\n    Group /:\\n      Variables:\\n        Missing right:\\n         - "
                 "data\\n      Attributes:\\n        Missing left:\\n         - a'")),
               ('arrays-b', 'empty-attrs-b',
                ('ok', 'str',
                 "'Left and right Group objects are not equal\\n  Differing groups:\\n    Group /:\\n      Variables:\\n        Missing right:\\n         - "
                 "data\\n      Attributes:\\n        Missing left:\\n         - a\\n         - b'")),
               ('arrays-b', 'vars',
                ('ok', 'str',
                 "'Left and right Group objects are not equal\\n  Differing groups:\\n    Group /:\\n      Variables:\\n        Missing left:\\n         - "
                 "v\\n         - w\\n        Missing right:\\n         - data'")),
               ('arrays-b', 'vars-b',
                ('ok', 'str',
                 "'Left and right Group objects are not equal\\n  Differing groups:\\n    Group /:\\n      Variables:\\n        Missing left:\\n         - "
                 "v\\n         - w\\n        Missing right:\\n         - data'")),
               ('arrays-b', 'vars-c',
                ('ok', 'str',
                 "'Left and right Group objects are not equal\\n  Differing groups:\\n    Group /:\\n      Variables:\\n        Missing left:\\n         - "
                 "w\\n         - v\\n        Missing right:\\n         - data'")),
               ('arrays-b', 'vars-d',
                ('ok', 'str',
                 "'Left and right Group objects are not equal\\n  Differing groups:\\n    Group /:\\n      Variables:\\n        Missing left:\\n         - "
                 "v\\n         - u\\n        Missing right:\\n         - data'")),
               ('arrays-b', 'one-a',
                ('ok', 'str',
                 "'Left and right Group objects are not equal\\n  Differing tree structure:\\n    Missing left:\\n    - /a\\n  Differing groups:\\n    Group "
                 "/:\\n      Variables:\\n        Missing right:\\n         - data'")),
               ('arrays-b', 'one-b',
                ('ok', 'str',
                 "'Left and right Group objects are not equal\\n  Differing tree structure:\\n    Missing left:\\n    - /b\\n  Differing groups:\\n    Group "
                 "/:\\n      Variables:\\n        Missing right:\\n         - data'")),
               ('arrays-b', 'one-ab',
                ('ok', 'str',
                 "'Left and right Group objects are not equal\\n  Differing tree structure:\\n    Missing left:\\n    - /a\\n    - /b\\n  Differing "
                 "groups:\\n    Group /:\\n      Variables:\\n        Missing right:\\n         - data'")),
               ('arrays-b', 'one-ba',
                ('ok', 'str',
                 "'Left and right Group objects are not equal\\n  Differing tree structure:\\n    Missing left:\\n    - /b\\n    - /a\\n  Differing "
                 "groups:\\n    Group /:\\n      Variables:\\n        Missing right:\\n         - data'")),
               ('arrays-b', 'one-a-attrs',
                ('ok', 'str',
                 "'Left and right Group objects are not equal\\n  Differing tree structure:\\n    Missing left:\\n    - /a\\n  Differing groups:\\n    Group "
                 "/:\\n      Variables:\\n        Missing right:\\n         - data'")),
               ('arrays-b', 'one-a-attrs-b',
                ('ok', 'str',
                 "'Left and right Group objects are not equal\\n  Differing tree structure:\\n    Missing left:\\n    - /a\\n  Differing groups:\\n    Group "
                 "/:\\n      Variables:\\n        Missing right:\\n         - data'")),
               ('arrays-b', 'one-a-url',
                ('ok', 'str',
                 "'Left and right Group objects are not equal\\n  Differing tree structure:\\n    Missing left:\\n    - /a\\n  Differing groups:\\n    Group "
                 "/:\\n      Differing Url:\\n      L  None\\n      R  memory://y\\n      Variables:\\n        Missing right:\\n         - data'")),
               ('arrays-b', 'two',
                ('ok', 'str',
                 "'Left and right Group objects are not equal\\n  Differing tree structure:\\n    Missing left:\\n    - /a\\n    - /a/b\\n    - /a/b/c\\n    - "
                 "/d\\n  Differing groups:\\n    Group /:\\n      Variables:\\n        Missing right:\\n         - data'")),
               ('arrays-b', 'two-b',
                ('ok', 'str',
                 "'Left and right Group objects are not equal\\n  Differing tree structure:\\n    Missing left:\\n    - /a\\n    - /a/b\\n    - /a/b/e\\n    - "
                 "/f\\n  Differing groups:\\n    Group /:\\n      Variables:\\n        Missing right:\\n         - data'")),
               ('arrays-b', 'two-c',
                ('ok', 'str',
                 "'Left and right Group objects are not equal\\n  Differing tree structure:\\n    Missing left:\\n    - /a\\n    - /a/b\\n    - /a/b/c\\n    - "
                 '/d\\n  Differing groups:\\n    Group /:\\n      Variables:\\n        Missing right:\\n         - data\\n      Attributes:\\n        Missing '
                 "left:\\n         - top'")),
               ('arrays-b', 'mixed',
                ('ok', 'str',
                 "'Left and right Group objects are not equal\\n  Differing tree structure:\\n    Missing left:\\n    - /g\\n    - /h\\n    - /h/g\\n  "
                 "Differing groups:\\n    Group /:\\n      Variables:\\n        Missing left:\\n         - v\\n        Missing right:\\n         - data'")),
               ('arrays-b', 'mixed-b',
                ('ok', 'str',
                 "'Left and right Group objects are not equal\\n  Differing tree structure:\\n    Missing left:\\n    - /h\\n    - /h/g\\n    - /h/k\\n    - "
                 '/g\\n  Differing groups:\\n    Group /:\\n      Variables:\\n        Missing left:\\n         - v\\n        Missing right:\\n         - '
                 "data'")),
               ('arrays-b', 'arrays',
                ('ok', 'str',
                 "'Left and right Group objects are not equal\\n  Differing groups:\\n    Group /:\\n      Variables:\\n        Differing "
                 'variables:\\n           L data  (rows, columns)    Array(shape=(4, 3), dtype=int16, rpc=2)\\n             url: '
                 'memory:///path/to/other\\n           R data  (rows, columns)    Array(shape=(4, 3), dtype=int16, rpc=2)\\n             url: '
                 "memory:///path/to/file'")),
               ('arrays-b', 'arrays-b', ('ok', 'str', "'Left and right Group objects are not equal\\n'")),
               ('arrays-b', 'sub',
                ('ok', 'str',
                 "'Left and right Group objects are not equal\\n  Differing tree structure:\\n    Missing left:\\n    - /a\\n  Differing groups:\\n    Group "
                 "/:\\n      Variables:\\n        Missing right:\\n         - data'")),
               ('arrays-b', 'sub-b',
                ('ok', 'str',
                 "'Left and right Group objects are not equal\\n  Differing tree structure:\\n    Missing left:\\n    - /a\\n  Differing groups:\\n    Group "
                 "/:\\n      Variables:\\n        Missing right:\\n         - data'")),
               ('arrays-b', 'nested-path',
                ('ok', 'str',
                 "'Left and right Group objects are not equal\\n  Differing tree structure:\\n    Missing left:\\n    - /prefix\\n    - /prefix/a\\n    "
                 "Missing right:\\n    - /'")),
               ('sub', 'empty', ('ok', 'str', "'Left and right Group objects are not equal\\n  Differing tree structure:\\n    Missing right:\\n    - /a'")),
               ('sub', 'empty-url',
                ('ok', 'str',
                 "'Left and right Group objects are not equal\\n  Differing tree structure:\\n    Missing right:\\n    - /a\\n  Differing groups:\\n    Group "
                 "/:\\n      Differing Url:\\n      L  None\\n      R  memory://a'")),
               ('sub', 'empty-url-b',
                ('ok', 'str',
                 "'Left and right Group objects are not equal\\n  Differing tree structure:\\n    Missing right:\\n    - /a\\n  Differing groups:\\n    Group "
                 "/:\\n      Differing Url:\\n      L  None\\n      R  memory://b'")),
               ('sub', 'empty-path',
                ('ok', 'str',
                 "'Left and right Group objects are not equal\\n  Differing tree structure:\\n    Missing left:\\n    - /root\\n    Missing right:\\n    - "
                 "/\\n    - /a'")),
               ('sub', 'empty-attrs',
                ('ok', 'str',
                 "'Left and right Group objects are not equal\\n  Differing tree structure:\\n    Missing right:\\n    - /a\\n  Differing groups:\\n    Group "
                 "/:\\n      Attributes:\\n        Missing left:\\n         - a'")),
               ('sub', 'empty-attrs-b',
                ('ok', 'str',
                 "'Left and right Group objects are not equal\\n  Differing tree structure:\\n    Missing right:\\n    - /a\\n  Differing groups:\\n    Group "
                 "/:\\n      Attributes:\\n        Missing left:\\n         - a\\n         - b'")),
               ('sub', 'vars',
                ('ok', 'str',
                 "'Left and right Group objects are not equal\\n  Differing tree structure:\\n    Missing right:\\n    - /a\\n  Differing groups:\\n    Group "
                 "/:\\n      Variables:\\n        Missing left:\\n         - v\\n         - w'")),
               ('sub', 'vars-b',
                ('ok', 'str',
                 "'Left and right Group objects are not equal\\n  Differing tree structure:\\n    Missing right:\\n    - /a\\n  Differing groups:\\n    Group "
                 "/:\\n      Variables:\\n        Missing left:\\n         - v\\n         - w'")),
               ('sub', 'vars-c',
                ('ok', 'str',
                 "'Left and right Group objects are not equal\\n  Differing tree structure:\\n    Missing right:\\n    - /a\\n  Differing groups:\\n    Group "
                 "/:\\n      Variables:\\n        Missing left:\\n         - w\\n         - v'")),
               ('sub', 'vars-d',
                ('ok', 'str',
                 "'Left and right Group objects are not equal\\n  Differing tree structure:\\n    Missing right:\\n    - /a\\n  Differing groups:\\n    Group "
                 "/:\\n      Variables:\\n        Missing left:\\n         - v\\n         - u'")),
               ('sub', 'one-a', ('ok', 'str', "'Left and right Group objects are not equal\\n'")),
               ('sub', 'one-b',
                ('ok', 'str',
                 "'Left and right Group objects are not equal\\n  Differing tree structure:\\n    Missing left:\\n    - /b\\n    Missing right:\\n    - /a'")),
               ('sub', 'one-ab', ('ok', 'str', "'Left and right Group objects are not equal\\n  Differing tree structure:\\n    Missing left:\\n    - /b'")),
               ('sub', 'one-ba', ('ok', 'str', "'Left and right Group objects are not equal\\n  Differing tree structure:\\n    Missing left:\\n    - /b'")),
               ('sub', 'one-a-attrs',
                ('ok', 'str',
                 "'Left and right Group objects are not equal\\n  Differing groups:\\n    Group /a:\\n      Attributes:\\n        Missing left:\\n         - "
                 "a'")),
               ('sub', 'one-a-attrs-b',
                ('ok', 'str',
                 "'Left and right Group objects are not equal\\n  Differing groups:\\n    Group /a:\\n      Attributes:\\n        Missing left:\\n         - "
                 "a'")),
               ('sub', 'one-a-url',
                ('ok', 'str',
                 "'Left and right Group objects are not equal\\n  Differing groups:\\n    Group /:\\n      Differing Url:\\n      L  None\\n      R  "
                 "memory://y\\n    Group /a:\\n      Differing Url:\\n      L  None\\n      R  memory://x'")),
               ('sub', 'two',
                ('ok', 'str',
                 "'Left and right Group objects are not equal\\n  Differing tree structure:\\n    Missing left:\\n    - /a/b\\n    - /a/b/c\\n    - /d\\n  "
                 "Differing groups:\\n    Group /a:\\n      Variables:\\n        Missing left:\\n         - v'")),
               ('sub', 'two-b',
                ('ok', 'str',
                 "'Left and right Group objects are not equal\\n  Differing tree structure:\\n    Missing left:\\n    - /a/b\\n    - /a/b/e\\n    - /f\\n  "
                 "Differing groups:\\n    Group /a:\\n      Variables:\\n        Missing left:\\n         - v'")),
               ('sub', 'two-c',
                ('ok', 'str',
                 "'Left and right Group objects are not equal\\n  Differing tree structure:\\n    Missing left:\\n    - /a/b\\n    - /a/b/c\\n    - /d\\n  "
                 'Differing groups:\\n    Group /:\\n      Attributes:\\n        Missing left:\\n         - top\\n    Group /a:\\n      Variables:\\n        '
                 "Missing left:\\n         - v'")),
               ('sub', 'mixed',
                ('ok', 'str',
                 "'Left and right Group objects are not equal\\n  Differing tree structure:\\n    Missing left:\\n    - /g\\n    - /h\\n    - /h/g\\n    "
                 "Missing right:\\n    - /a\\n  Differing groups:\\n    Group /:\\n      Variables:\\n        Missing left:\\n         - v'")),
               ('sub', 'mixed-b',
                ('ok', 'str',
                 "'Left and right Group objects are not equal\\n  Differing tree structure:\\n    Missing left:\\n    - /h\\n    - /h/g\\n    - /h/k\\n    - "
                 "/g\\n    Missing right:\\n    - /a\\n  Differing groups:\\n    Group /:\\n      Variables:\\n        Missing left:\\n         - v'")),
               ('sub', 'arrays',
                ('ok', 'str',
                 "'Left and right Group objects are not equal\\n  Differing tree structure:\\n    Missing right:\\n    - /a\\n  Differing groups:\\n    Group "
                 "/:\\n      Variables:\\n        Missing left:\\n         - data'")),
               ('sub', 'arrays-b',
                ('ok', 'str',
                 "'Left and right Group objects are not equal\\n  Differing tree structure:\\n    Missing right:\\n    - /a\\n  Differing groups:\\n    Group "
                 "/:\\n      Variables:\\n        Missing left:\\n         - data'")),
               ('sub', 'sub', ('ok', 'str', "'Left and right Group objects are not equal\\n'")),
               ('sub', 'sub-b',
                ('ok', 'str',
                 "'Left and right Group objects are not equal\\n  Differing groups:\\n    Group /a:\\n      Attributes:\\n        Missing left:\\n         - "
                 "q'")),
               ('sub', 'nested-path',
                ('ok', 'str',
                 "'Left and right Group objects are not equal\\n  Differing tree structure:\\n    Missing left:\\n    - /prefix\\n    - /prefix/a\\n    "
                 "Missing right:\\n    - /\\n    - /a'")),
               ('sub-b', 'empty', ('ok', 'str', "'Left and right Group objects are not equal\\n  Differing tree structure:\\n    Missing right:\\n    - /a'")),
               ('sub-b', 'empty-url',
                ('ok', 'str',
                 "'Left and right Group objects are not equal\\n  Differing tree structure:\\n    Missing right:\\n    - /a\\n  Differing groups:\\n    Group "
                 "/:\\n      Differing Url:\\n      L  None\\n      R  memory://a'")),
               ('sub-b', 'empty-url-b',
                ('ok', 'str',
                 "'Left and right Group objects are not equal\\n  Differing tree structure:\\n    Missing right:\\n    - /a\\n  Differing groups:\\n    Group "
                 "/:\\n      Differing Url:\\n      L  None\\n      R  memory://b'")),
               ('sub-b', 'empty-path',
                ('ok', 'str',
                 "'Left and right Group objects are not equal\\n  Differing tree structure:\\n    Missing left:\\n    - /root\\n    Missing right:\\n    - "
                 "/\\n    - /a'")),
               ('sub-b', 'empty-attrs',
                ('ok', 'str',
                 "'Left and right Group objects are not equal\\n  Differing tree structure:\\n    Missing right:\\n    - /a\\n  Differing groups:\\n    Group "
                 "/:\\n      Attributes:\\n        Missing left:\\n         - a'")),
               ('sub-b', 'empty-attrs-b',
                ('ok', 'str',
                 "'Left and right Group objects are not equal\\n  Differing tree structure:\\n    Missing right:\\n    - /a\\n  Differing groups:\\n    Group "
                 "/:\\n      Attributes:\\n        Missing left:\\n         - a\\n         - b'")),
               ('sub-b', 'vars',
                ('ok', 'str',
                 "'Left and right Group objects are not equal\\n  Differing tree structure:\\n    Missing right:\\n    - /a\\n  Differing groups:\\n    Group "
                 "/:\\n      Variables:\\n        Missing left:\\n         - v\\n         - w'")),
               ('sub-b', 'vars-b',
                ('ok', 'str',
                 "'Left and right Group objects are not equal\\n  Differing tree structure:\\n    Missing right:\\n    - /a\\n  Differing groups:\\n    Group "
                 "/:\\n      Variables:\\n        Missing left:\\n         - v\\n         - w'")),
               ('sub-b', 'vars-c',
                ('ok', 'str',
                 "'Left and right Group objects are not equal\\n  Differing tree structure:\\n    Missing right:\\n    - /a\\n  Differing groups:\\n    Group "
                 "/:\\n      Variables:\\n        Missing left:\\n         - w\\n         - v'")),
               ('sub-b', 'vars-d',
                ('ok', 'str',
                 "'Left and right Group objects are not equal\\n  Differing tree structure:\\n    Missing right:\\n    - /a\\n  Differing groups:\\n    Group "
                 "/:\\n      Variables:\\n        Missing left:\\n         - v\\n         - u'")),
               ('sub-b', 'one-a',
                ('ok', 'str',
                 "'Left and right Group objects are not equal\\n  Differing groups:\\n    Group /a:\\n      Attributes:\\n        Missing right:\\n         - "
                 "q'")),
               ('sub-b', 'one-b',
                ('ok', 'str',
                 "'Left and right Group objects are not equal\\n  Differing tree structure:\\n    Missing left:\\n    - /b\\n    Missing right:\\n    - /a'")),
               ('sub-b', 'one-ab',
                ('ok', 'str',
                 "'Left and right Group objects are not equal\\n  Differing tree structure:\\n    Missing left:\\n    - /b\\n  Differing groups:\\n    Group "
                 "/a:\\n      Attributes:\\n        Missing right:\\n         - q'")),
               ('sub-b', 'one-ba',
                ('ok', 'str',
                 "'Left and right Group objects are not equal\\n  Differing tree structure:\\n    Missing left:\\n    - /b\\n  Differing groups:\\n    Group "
                 "/a:\\n      Attributes:\\n        Missing right:\\n         - q'")),
               ('sub-b', 'one-a-attrs',
                ('ok', 'str',
                 "'Left and right Group objects are not equal\\n  Differing groups:\\n    Group /a:\\n      Attributes:\\n        Missing left:\\n         - "
                 "a\\n        Missing right:\\n         - q'")),
               ('sub-b', 'one-a-attrs-b',
                ('ok', 'str',
                 "'Left and right Group objects are not equal\\n  Differing groups:\\n    Group /a:\\n      Attributes:\\n        Missing left:\\n         - "
                 "a\\n        Missing right:\\n         - q'")),
               ('sub-b', 'one-a-url',
                ('ok', 'str',
                 "'Left and right Group objects are not equal\\n  Differing groups:\\n    Group /:\\n      Differing Url:\\n      L  None\\n      R  "
                 'memory://y\\n    Group /a:\\n      Differing Url:\\n      L  None\\n      R  memory://x\\n      Attributes:\\n        Missing '
                 "right:\\n         - q'")),
               ('sub-b', 'two',
                ('ok', 'str',
                 "'Left and right Group objects are not equal\\n  Differing tree structure:\\n    Missing left:\\n    - /a/b\\n    - /a/b/c\\n    - /d\\n  "
                 'Differing groups:\\n    Group /a:\\n      Variables:\\n        Missing left:\\n         - v\\n      Attributes:\\n        Missing '
                 "right:\\n         - q'")),
               ('sub-b', 'two-b',
                ('ok', 'str',
                 "'Left and right Group objects are not equal\\n  Differing tree structure:\\n    Missing left:\\n    - /a/b\\n    - /a/b/e\\n    - /f\\n  "
                 'Differing groups:\\n    Group /a:\\n      Variables:\\n        Missing left:\\n         - v\\n      Attributes:\\n        Missing '
                 "right:\\n         - q'")),
               ('sub-b', 'two-c',
                ('ok', 'str',
                 "'Left and right Group objects are not equal\\n  Differing tree structure:\\n    Missing left:\\n    - /a/b\\n    - /a/b/c\\n    - /d\\n  "
                 'Differing groups:\\n    Group /:\\n      Attributes:\\n        Missing left:\\n         - top\\n    Group /a:\\n      Variables:\\n        '
                 "Missing left:\\n         - v\\n      Attributes:\\n        Missing right:\\n         - q'")),
               ('sub-b', 'mixed',
                ('ok', 'str',
                 "'Left and right Group objects are not equal\\n  Differing tree structure:\\n    Missing left:\\n    - /g\\n    - /h\\n    - /h/g\\n    "
                 "Missing right:\\n    - /a\\n  Differing groups:\\n    Group /:\\n      Variables:\\n        Missing left:\\n         - v'")),
               ('sub-b', 'mixed-b',
                ('ok', 'str',
                 "'Left and right Group objects are not equal\\n  Differing tree structure:\\n    Missing left:\\n    - /h\\n    - /h/g\\n    - /h/k\\n    - "
                 "/g\\n    Missing right:\\n    - /a\\n  Differing groups:\\n    Group /:\\n      Variables:\\n        Missing left:\\n         - v'")),
               ('sub-b', 'arrays',
                ('ok', 'str',
                 "'Left and right Group objects are not equal\\n  Differing tree structure:\\n    Missing right:\\n    - /a\\n  Differing groups:\\n    Group "
                 "/:\\n      Variables:\\n        Missing left:\\n         - data'")),
               ('sub-b', 'arrays-b',
                ('ok', 'str',
                 "'Left and right Group objects are not equal\\n  Differing tree structure:\\n    Missing right:\\n    - /a\\n  Differing groups:\\n    Group "
                 "/:\\n      Variables:\\n        Missing left:\\n         - data'")),
               ('sub-b', 'sub',
                ('ok', 'str',
                 "'Left and right Group objects are not equal\\n  Differing groups:\\n    Group /a:\\n      Attributes:\\n        Missing right:\\n         - "
                 "q'")),
               ('sub-b', 'sub-b', ('ok', 'str', "'Left and right Group objects are not equal\\n'")),
               ('sub-b', 'nested-path',
                ('ok', 'str',
                 "'Left and right Group objects are not equal\\n  Differing tree structure:\\n    Missing left:\\n    - /prefix\\n    - /prefix/a\\n    "
                 "Missing right:\\n    - /\\n    - /a'")),
               ('nested-path', 'empty',
                ('ok', 'str',
                 "'Left and right Group objects are not equal\\n  Differing tree structure:\\n    Missing left:\\n    - /\\n    Missing right:\\n    - "
                 "/prefix\\n    - /prefix/a'")),
               ('nested-path', 'empty-url',
                ('ok', 'str',
                 "'Left and right Group objects are not equal\\n  Differing tree structure:\\n    Missing left:\\n    - /\\n    Missing right:\\n    - "
                 "/prefix\\n    - /prefix/a'")),
               ('nested-path', 'empty-url-b',
                ('ok', 'str',
                 "'Left and right Group objects are not equal\\n  Differing tree structure:\\n    Missing left:\\n    - /\\n    Missing right:\\n    - "
                 "/prefix\\n    - /prefix/a'")),
               ('nested-path', 'empty-path',
                ('ok', 'str',
                 "'Left and right Group objects are not equal\\n  Differing tree structure:\\n    Missing left:\\n    - /root\\n    Missing right:\\n    - "
                 "/prefix\\n    - /prefix/a'")),
               ('nested-path', 'empty-attrs',
                ('ok', 'str',
                 "'Left and right Group objects are not equal\\n  Differing tree structure:\\n    Missing left:\\n    - /\\n    Missing right:\\n    - "
                 "/prefix\\n    - /prefix/a'")),
               ('nested-path', 'empty-attrs-b',
                ('ok', 'str',
                 "'Left and right Group objects are not equal\\n  Differing tree structure:\\n    Missing left:\\n    - /\\n    Missing right:\\n    - "
                 "/prefix\\n    - /prefix/a'")),
               ('nested-path', 'vars',
                ('ok', 'str',
                 "'Left and right Group objects are not equal\\n  Differing tree structure:\\n    Missing left:\\n    - /\\n    Missing right:\\n    - "
                 "/prefix\\n    - /prefix/a'")),
               ('nested-path', 'vars-b',
                ('ok', 'str',
                 "'Left and right Group objects are not equal\\n  Differing tree structure:\\n    Missing left:\\n    - /\\n    Missing right:\\n    - "
                 "/prefix\\n    - /prefix/a'")),
               ('nested-path', 'vars-c',
                ('ok', 'str',
                 "'Left and right Group objects are not equal\\n  Differing tree structure:\\n    Missing left:\\n    - /\\n    Missing right:\\n    - "
                 "/prefix\\n    - /prefix/a'")),
               ('nested-path', 'vars-d',
                ('ok', 'str',
                 "'Left and right Group objects are not equal\\n  Differing tree structure:\\n    Missing left:\\n    - /\\n    Missing right:\\n    - "
                 "/prefix\\n    - /prefix/a'")),
               ('nested-path', 'one-a',
                ('ok', 'str',
                 "'Left and right Group objects are not equal\\n  Differing tree structure:\\n    Missing left:\\n    - /\\n    - /a\\n    Missing "
                 "right:\\n    - /prefix\\n    - /prefix/a'")),
               ('nested-path', 'one-b',
                ('ok', 'str',
                 "'Left and right Group objects are not equal\\n  Differing tree structure:\\n    Missing left:\\n    - /\\n    - /b\\n    Missing "
                 "right:\\n    - /prefix\\n    - /prefix/a'")),
               ('nested-path', 'one-ab',
                ('ok', 'str',
                 "'Left and right Group objects are not equal\\n  Differing tree structure:\\n    Missing left:\\n    - /\\n    - /a\\n    - /b\\n    Missing "
                 "right:\\n    - /prefix\\n    - /prefix/a'")),
               ('nested-path', 'one-ba',
                ('ok', 'str',
                 "'Left and right Group objects are not equal\\n  Differing tree structure:\\n    Missing left:\\n    - /\\n    - /b\\n    - /a\\n    Missing "
                 "right:\\n    - /prefix\\n    - /prefix/a'")),
               ('nested-path', 'one-a-attrs',
                ('ok', 'str',
                 "'Left and right Group objects are not equal\\n  Differing tree structure:\\n    Missing left:\\n    - /\\n    - /a\\n    Missing "
                 "right:\\n    - /prefix\\n    - /prefix/a'")),
               ('nested-path', 'one-a-attrs-b',
                ('ok', 'str',
                 "'Left and right Group objects are not equal\\n  Differing tree structure:\\n    Missing left:\\n    - /\\n    - /a\\n    Missing "
                 "right:\\n    - /prefix\\n    - /prefix/a'")),
               ('nested-path', 'one-a-url',
                ('ok', 'str',
                 "'Left and right Group objects are not equal\\n  Differing tree structure:\\n    Missing left:\\n    - /\\n    - /a\\n    Missing "
                 "right:\\n    - /prefix\\n    - /prefix/a'")),
               ('nested-path', 'two',
                ('ok', 'str',
                 "'Left and right Group objects are not equal\\n  Differing tree structure:\\n    Missing left:\\n    - /\\n    - /a\\n    - /a/b\\n    - "
                 "/a/b/c\\n    - /d\\n    Missing right:\\n    - /prefix\\n    - /prefix/a'")),
               ('nested-path', 'two-b',
                ('ok', 'str',
                 "'Left and right Group objects are not equal\\n  Differing tree structure:\\n    Missing left:\\n    - /\\n    - /a\\n    - /a/b\\n    - "
                 "/a/b/e\\n    - /f\\n    Missing right:\\n    - /prefix\\n    - /prefix/a'")),
               ('nested-path', 'two-c',
                ('ok', 'str',
                 "'Left and right Group objects are not equal\\n  Differing tree structure:\\n    Missing left:\\n    - /\\n    - /a\\n    - /a/b\\n    - "
                 "/a/b/c\\n    - /d\\n    Missing right:\\n    - /prefix\\n    - /prefix/a'")),
               ('nested-path', 'mixed',
                ('ok', 'str',
                 "'Left and right Group objects are not equal\\n  Differing tree structure:\\n    Missing left:\\n    - /\\n    - /g\\n    - /h\\n    - "
                 "/h/g\\n    Missing right:\\n    - /prefix\\n    - /prefix/a'")),
               ('nested-path', 'mixed-b',
                ('ok', 'str',
                 "'Left and right Group objects are not equal\\n  Differing tree structure:\\n    Missing left:\\n    - /\\n    - /h\\n    - /h/g\\n    - "
                 "/h/k\\n    - /g\\n    Missing right:\\n    - /prefix\\n    - /prefix/a'")),
               ('nested-path', 'arrays',
                ('ok', 'str',
                 "'Left and right Group objects are not equal\\n  Differing tree structure:\\n    Missing left:\\n    - /\\n    Missing right:\\n    - "
                 "/prefix\\n    - /prefix/a'")),
               ('nested-path', 'arrays-b',
                ('ok', 'str',
                 "'Left and right Group objects are not equal\\n  Differing tree structure:\\n    Missing left:\\n    - /\\n    Missing right:\\n    - "
                 "/prefix\\n    - /prefix/a'")),
               ('nested-path', 'sub',
                ('ok', 'str',
                 "'Left and right Group objects are not equal\\n  Differing tree structure:\\n    Missing left:\\n    - /\\n    - /a\\n    Missing "
                 "right:\\n    - /prefix\\n    - /prefix/a'")),
               ('nested-path', 'sub-b',
                ('ok', 'str',
                 "'Left and right Group objects are not equal\\n  Differing tree structure:\\n    Missing left:\\n    - /\\n    - /a\\n    Missing "
                 "right:\\n    - /prefix\\n    - /prefix/a'")),
               ('nested-path', 'nested-path', ('ok', 'str', "'Left and right Group objects are not equal\\n'")),
               ('decouple-order', 'two', 'two-b',
                ('ok', 'str',
                 "'Left and right Group objects are not equal\\n  Differing tree structure:\\n    Missing left:\\n    - /a/b/e\\n    - /f\\n    Missing "
                 'right:\\n    - /a/b/c\\n    - /d\\n  Differing groups:\\n    Group /a:\\n      Variables:\\n        Differing variables:\\n           L v  '
                 "(x)    int8  5\\n           R v  (x)    int8  6'"),
                [('Group', '/', ['a', 'd']), ('Group', '/a', ['b', 'v']), ('Group', '/a/b', ['c']), ('Group', '/a/b/c', []), ('Group', '/d', []),
                 ('Group', '/', ['a', 'f']), ('Group', '/a', ['b', 'v']), ('Group', '/a/b', ['e']), ('Group', '/a/b/e', []), ('Group', '/f', []),
                 ('Group', '/', []), ('Group', '/', []), ('Group', '/a', ['v']), ('Group', '/a', ['v']), ('Group', '/a/b', []), ('Group', '/a/b', []),
                 ('Group', '/a/b/c', []), ('Group', '/d', []), ('Group', '/a/b/e', []), ('Group', '/f', [])]),
               ('decouple-order', 'mixed', 'mixed-b',
                ('ok', 'str',
                 "'Left and right Group objects are not equal\\n  Differing tree structure:\\n    Missing left:\\n    - /h/k\\n  Differing groups:\\n    Group "
                 "/g:\\n      Variables:\\n        Differing variables:\\n           L v  (x)    int8  2\\n           R v  (x)    float32  2.5'"),
                [('Group', '/', ['g', 'h', 'v']), ('Group', '/g', ['v']), ('Group', '/h', ['g']), ('Group', '/h/g', []), ('Group', '/', ['g', 'h', 'v']),
                 ('Group', '/h', ['g', 'k']), ('Group', '/h/g', []), ('Group', '/h/k', []), ('Group', '/g', ['v']), ('Group', '/', ['v']),
                 ('Group', '/', ['v']), ('Group', '/g', ['v']), ('Group', '/g', ['v']), ('Group', '/h', []), ('Group', '/h', []), ('Group', '/h/g', []),
                 ('Group', '/h/g', []), ('Group', '/h/k', [])]),
               ('decouple-order', 'one-ab', 'one-ba', ('ok', 'str', "'Left and right Group objects are not equal\\n'"),
                [('Group', '/', ['a', 'b']), ('Group', '/a', []), ('Group', '/b', []), ('Group', '/', ['a', 'b']), ('Group', '/b', []), ('Group', '/a', []),
                 ('Group', '/', []), ('Group', '/', []), ('Group', '/a', []), ('Group', '/a', []), ('Group', '/b', []), ('Group', '/b', [])]),
               ('decouple-order', 'empty', 'two-c',
                ('ok', 'str',
                 "'Left and right Group objects are not equal\\n  Differing tree structure:\\n    Missing left:\\n    - /a\\n    - /a/b\\n    - /a/b/c\\n    - "
                 "/d\\n  Differing groups:\\n    Group /:\\n      Attributes:\\n        Missing left:\\n         - top'"),
                [('Group', '/', []), ('Group', '/', ['a', 'd']), ('Group', '/a', ['b', 'v']), ('Group', '/a/b', ['c']), ('Group', '/a/b/c', []),
                 ('Group', '/d', ['x']), ('Group', '/', []), ('Group', '/', []), ('Group', '/a', ['v']), ('Group', '/a/b', []), ('Group', '/a/b/c', []),
                 ('Group', '/d', ['x'])]),
               ('decouple-fails', 1, ('raise', 'RuntimeError', 'decouple failed for /', 'NoneType'), ['/']),
               ('decouple-fails', 3, ('raise', 'RuntimeError', 'decouple failed for /a/b', 'NoneType'), ['/', '/a', '/a/b']),
               ('decouple-fails', 6, ('raise', 'RuntimeError', 'decouple failed for /', 'NoneType'), ['/', '/a', '/a/b', '/a/b/c', '/d', '/']),
               ('decouple-fails', 9, ('raise', 'RuntimeError', 'decouple failed for /a/b/e', 'NoneType'),
                ['/', '/a', '/a/b', '/a/b/c', '/d', '/', '/a', '/a/b', '/a/b/e']),
               ('decouple-fails', 12, ('raise', 'RuntimeError', 'decouple failed for /', 'NoneType'),
                ['/', '/a', '/a/b', '/a/b/c', '/d', '/', '/a', '/a/b', '/a/b/e', '/f', '/', '/']),
               ('diff_group-calls',
                ('ok', 'str',
                 "'Left and right Group objects are not equal\\n  Differing groups:\\n    Group /:\\n      Attributes:\\n        Missing right:\\n         - "
                 'top\\n    Group /a/b:\\n      Attributes:\\n        Missing right:\\n         - m\\n    Group /a/b/c:\\n      Attributes:\\n        Missing '
                 "right:\\n         - n\\n    Group /d:\\n      Variables:\\n        Missing right:\\n         - x'"),
                [('/', '/'), ('/a/b', '/a/b'), ('/a/b/c', '/a/b/c'), ('/d', '/d')]),
               ('non-group', 'None', 'None', ('raise', 'AttributeError', "'NoneType' object has no attribute 'subtree'", 'NoneType')),
               ('non-group', "Group(path='/', url=None, data={}, attrs={})", 'None',
                ('raise', 'AttributeError', "'NoneType' object has no attribute 'subtree'", 'NoneType')),
               ('non-group', 'None', "Group(path='/', url=None, data={}, attrs={})",
                ('raise', 'AttributeError', "'NoneType' object has no attribute 'subtree'", 'NoneType')),
               ('non-group', "Variable(dims=['x'], data=array([1], dtype=int8), attrs={})", "Variable(dims=['x'], data=array([1], dtype=int8), attrs={})",
                ('raise', 'AttributeError', "'Variable' object has no attribute 'subtree'", 'NoneType')),
               ('non-group', '{}', '{}', ('raise', 'AttributeError', "'dict' object has no attribute 'subtree'", 'NoneType')),
               ('non-group', '1', '2', ('raise', 'AttributeError', "'int' object has no attribute 'subtree'", 'NoneType')),
               ('non-group', "Group(path='/', url=None, data={}, attrs={})", "Variable(dims=['x'], data=array([1], dtype=int8), attrs={})",
                ('raise', 'AttributeError', "'Variable' object has no attribute 'subtree'", 'NoneType')),
               ('non-group', "Array(url='file', shape=(4, 3), dtype='int16', records_per_chunk=2)",
                "Array(url='file', shape=(4, 3), dtype='int16', records_per_chunk=2)",
                ('raise', 'AttributeError', "'Array' object has no attribute 'subtree'", 'NoneType'))],
 'module': [('textwrap', True), ('zip_longest', True), ('np', True), ('merge_with', True), ('valfilter', True), ('valmap', True), ('curry', True),
            ('pipe', True), ('cons', True), ('groupby', True), ('Array', True), ('valsplit', True), ('zip_default', True), ('Group', True), ('Variable', True),
            ('newline', True), ('dict_overlap', True), ('format_item', True), ('format_array', True), ('format_variable', True), ('format_inline', True),
            ('diff_mapping_missing', True), ('diff_mapping_not_equal', True), ('diff_mapping', True), ('diff_scalar', True), ('compare_data', True),
            ('diff_array', True), ('diff_data', True), ('format_sizes', True), ('diff_variable', True), ('diff_group', True), ('diff_tree', True),
            ('assert_identical', True), ('dict_overlap', '(a, b)'), ('diff_tree', '(a, b)'), ('assert_identical', '(a, b)')]}
# ------------------------------------------------------------------------

_cache = {}


def observe_all_cached():
    if not _cache:
        _cache.update(observe_all())
    return _cache


def _check(section):
    observed = observe_all_cached()[section]
    expected = EXPECTED[section]
    assert len(observed) == len(expected)
    for actual, wanted in zip(observed, expected):
        assert actual == wanted, f"\n{pprint.pformat(actual)}\n!=\n{pprint.pformat(wanted)}"
    return len(observed)


def test_dict_overlap():
    _check("dict_overlap")


def test_diff_tree():
    _check("diff_tree")


def test_assert_identical():
    _check("assert_identical")


def test_module():
    _check("module")


if __name__ == "__main__":
    if "--record" in sys.argv:
        print("EXPECTED = " + pprint.pformat(observe_all(), width=160, compact=True))
        sys.exit(0)
    total = sum(_check(section) for section in EXPECTED)
    print(f"OK ({total} observations)")
