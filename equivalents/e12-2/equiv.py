"""Equivalence check for refactoring 2 (``ceos_alos2.sar_image.io.read_metadata``).

Usage::

    PYTHONPATH=<worktree> python _eq/2/equiv.py            # check against the recorded outcomes
    PYTHONPATH=<worktree> python _eq/2/equiv.py --record   # print the outcomes (run on clean HEAD)

It is also collectable by pytest (``test_equivalence``).

The outcomes in ``EXPECTED`` were recorded from the unchanged code (HEAD). Every outcome consists
of the (type-preserving) result or exception chain *and* the ordered log of all requests made on
the file object, plus - where the collaborators are wrapped - the order in which
``read_file_descriptor`` / ``parse_chunk`` / ``adjust_offsets`` were called.
"""

import hashlib
import io as stdio
import struct
import sys

import fsspec
from construct import Int8ub, Seek, Struct, Tell, this

from ceos_alos2.sar_image import io


# --------------------------------------------------------------------------- helpers
def canon(obj):
    """type-preserving canonical representation"""
    tname = type(obj).__name__
    if isinstance(obj, dict):
        return (tname, [(k, canon(v)) for k, v in obj.items() if k != "_io"])
    if isinstance(obj, (list, tuple)):
        return (tname, [canon(v) for v in obj])
    return (tname, repr(obj))


def exc_chain(e):
    parts = []
    while e is not None:
        parts.append((type(e).__module__, type(e).__qualname__, str(e)))
        e = e.__cause__ or e.__context__
    return parts


def digest(obj):
    text = repr(obj)
    if len(text) <= 400:
        return text
    return "sha256:" + hashlib.sha256(text.encode()).hexdigest() + f":{len(text)}"


class RecordingFile:
    """file proxy logging every request (and the position / amount of data returned)"""

    def __init__(self, raw, log):
        self.__dict__["_raw"] = raw
        self.__dict__["_log"] = log

    def read(self, *args, **kwargs):
        try:
            position = self._raw.tell()
        except Exception:  # noqa: BLE001
            position = None
        self._log.append(("read", args, tuple(kwargs.items()), position))
        data = self._raw.read(*args, **kwargs)
        self._log.append(("read->", len(data)))
        return data

    def __getattr__(self, name):
        self._log.append(("getattr", name))
        return getattr(self._raw, name)

    def __setattr__(self, name, value):
        self._log.append(("setattr", name))
        setattr(self._raw, name, value)

    def __iter__(self):
        self._log.append(("iter",))
        return iter(self._raw)


FIELDS = {
    "number_of_sar_data_records": (180, 6),
    "sar_data_record_length": (186, 6),
    "number_of_lines_per_dataset": (236, 8),
    "number_of_data_groups_per_line": (248, 8),
    "interleaving_id": (268, 4),
    "sar_data_format_type_code": (428, 4),
    "maximum_data_range_of_pixel": (440, 8),
}


def descriptor(**values):
    raw = bytearray(struct.pack(">IBBBBI", 1, 50, 192, 18, 18, 720) + b" " * 708)
    for name, value in values.items():
        offset, width = FIELDS[name]
        raw[offset : offset + width] = str(value).rjust(width).encode("ascii")[:width]
    assert len(raw) == 720
    return bytes(raw)


def record(seq, rtype, length, line, declared_length=None):
    declared = length if declared_length is None else declared_length
    hdr = struct.pack(">IBBBBI", seq, 50, rtype, 18, 20, declared)
    body = struct.pack(">IIIIII", line, 1, 0, 4, 0, 1) + struct.pack(">III", 2020, 32, 1000 * line)
    raw = hdr + body
    if length <= len(raw):
        return raw[:length]
    return raw + bytes(length - len(raw) - 4) + struct.pack(">I", line)


def image(rtype, n, length, *, declared=None, record_length=None, types=None, **header):
    """file descriptor + n records; ``declared`` / ``record_length`` override the header fields

    (``""`` results in a blank field)
    """
    values = {
        "number_of_sar_data_records": n if declared is None else declared,
        "sar_data_record_length": length if record_length is None else record_length,
        "number_of_lines_per_dataset": n,
        "number_of_data_groups_per_line": 2,
        "sar_data_format_type_code": "C*8",
    }
    values.update(header)
    values = {k: v for k, v in values.items() if v is not None}
    types = types or [rtype] * n
    body = b"".join(record(i + 1, types[i], length, i + 1) for i in range(n))
    return descriptor(**values) + body


_default = object()


def run(content, rpc=_default, opener=None):
    log = []
    raw = stdio.BytesIO(content) if opener is None else opener(content)
    f = RecordingFile(raw, log)
    try:
        if rpc is _default:
            result = io.read_metadata(f)
        else:
            result = io.read_metadata(f, rpc)
    except BaseException as e:  # noqa: B902
        outcome = ("raise", exc_chain(e))
    else:
        outcome = ("ok", canon(result))
    finally:
        try:
            position = raw.tell()
        except Exception:  # noqa: BLE001
            position = None
    return digest(outcome), digest(log), position


def open_memory(content):
    fs = fsspec.filesystem("memory")
    fs.pipe_file("/eq2/image", content)
    return fs.open("/eq2/image", mode="rb")


class NoTell:
    """minimal reader: only ``read``"""

    def __init__(self, content):
        self._f = stdio.BytesIO(content)

    def read(self, n=-1):
        return self._f.read(n)


class Wrapped:
    """wrap module-level collaborators of read_metadata to log the order of the calls"""

    names = ("read_file_descriptor", "parse_chunk", "adjust_offsets")

    def __init__(self, log, **replacements):
        self.log = log
        self.replacements = replacements
        self.saved = {}

    def _wrap(self, name, func):
        def wrapper(*args, **kwargs):
            described = tuple(
                (type(a).__name__, len(a)) if isinstance(a, (bytes, list)) else type(a).__name__
                if not isinstance(a, (int, float, str, type(None)))
                else a
                for a in args
            )
            self.log.append((name, described, tuple(kwargs.items())))
            result = func(*args, **kwargs)
            self.log.append((name + "->", type(result).__name__))
            return result

        return wrapper

    def __enter__(self):
        for name in self.names:
            self.saved[name] = getattr(io, name)
            func = self.replacements.get(name, self.saved[name])
            setattr(io, name, self._wrap(name, func))
        return self

    def __exit__(self, *exc):
        for name, func in self.saved.items():
            setattr(io, name, func)


def run_wrapped(content, rpc, **replacements):
    log = []
    raw = stdio.BytesIO(content)
    f = RecordingFile(raw, log)
    with Wrapped(log, **replacements):
        try:
            result = io.read_metadata(f, records_per_chunk=rpc)
        except BaseException as e:  # noqa: B902
            outcome = ("raise", exc_chain(e))
        else:
            outcome = ("ok", canon(result))
    return digest(outcome), digest(log), raw.tell()


# --------------------------------------------------------------------------- cases
def cases():
    out = {}

    def add(name, value):
        assert name not in out, name
        out[name] = value

    # regular files: both record types, several record counts / chunk sizes
    for rtype, header in ((10, 544), (11, 192)):
        length = header + 16
        for n in (0, 1, 2, 3, 5, 7):
            content = image(rtype, n, length)
            for rpc in (1, 2, 3, 4, 6, 7, 8, 1024):
                add(f"regular-{rtype}-n{n}-rpc{rpc}", run(content, rpc))
            add(f"regular-{rtype}-n{n}-default", run(content))
        add(f"regular-{rtype}-bare-header-length", run(image(rtype, 4, header), 3))
        add(f"regular-{rtype}-trailing-bytes", run(image(rtype, 4, length) + bytes(1000), 3))

    content = image(11, 5, 208)
    # the same via other kinds of file objects
    add("memoryfs-rpc2", run(content, 2, opener=open_memory))
    add("memoryfs-default", run(content, opener=open_memory))
    add("notell-rpc2", run(content, 2, opener=NoTell))
    add("bufferedreader-rpc3", run(content, 3, opener=lambda c: stdio.BufferedReader(stdio.BytesIO(c))))

    # header disagrees with the file
    add("declared-more-rpc2", run(image(11, 5, 208, declared=8), 2))
    add("declared-more-rpc3", run(image(11, 5, 208, declared=6), 3))
    add("declared-more-rpc1024", run(image(11, 5, 208, declared=8), 1024))
    add("declared-more-aligned", run(image(11, 4, 208, declared=8), 2))
    add("declared-fewer-rpc2", run(image(11, 5, 208, declared=3), 2))
    add("declared-zero", run(image(11, 5, 208, declared=0), 2))
    add("declared-blank", run(image(11, 5, 208, declared=""), 2))
    add("declared-blank-rpc1", run(image(11, 5, 208, declared=""), 1))
    add("declared-negative", run(image(11, 5, 208, declared=-3), 2))
    add("record-length-blank", run(image(11, 5, 208, record_length=""), 2))
    add("record-length-zero", run(image(11, 5, 208, record_length=0), 2))
    add("record-length-larger", run(image(11, 5, 208, record_length=260), 2))
    add("record-length-smaller", run(image(11, 5, 208, record_length=104), 2))
    add("record-length-half-rpc1", run(image(11, 6, 208, record_length=416, declared=3), 1))
    add("not-a-number", run(image(11, 2, 208, declared="abc"), 2))
    add("both-blank", run(image(11, 2, 208, declared="", record_length=""), 2))

    # truncated files
    add("truncated-empty", run(b"", 2))
    add("truncated-header", run(content[:700], 2))
    add("truncated-header-only", run(content[:720], 2))
    add("truncated-first-record", run(content[:800], 2))
    add("truncated-second-chunk", run(content[: 720 + 3 * 208 - 1], 2))
    add("truncated-third-chunk", run(content[: 720 + 4 * 208], 2))
    add("truncated-last-byte", run(content[:-1], 1024))

    # record type problems: error only once the chunk is reached
    add("unknown-type-first", run(image(11, 5, 208, types=[12, 11, 11, 11, 11]), 2))
    add("unknown-type-third-chunk", run(image(11, 5, 208, types=[11, 11, 11, 11, 99]), 2))
    add("unknown-type-inside-chunk", run(image(11, 5, 208, types=[11, 99, 11, 11, 11]), 2))
    add("mixed-types-per-chunk", run(image(11, 4, 600, types=[11, 11, 10, 10]), 2))
    add("mixed-types-rpc1", run(image(11, 4, 600, types=[11, 10, 11, 10]), 1))

    # unusual chunk sizes
    for label, rpc in (
        ("none", None),
        ("zero", 0),
        ("minus-one", -1),
        ("minus-two", -2),
        ("true", True),
        ("false", False),
        ("float-2", 2.0),
        ("float-1.5", 1.5),
        ("float-5", 5.0),
        ("float-inf", float("inf")),
        ("float-nan", float("nan")),
        ("str", "2"),
        ("auto", "auto"),
        ("huge", 10**30),
        ("list", [2]),
    ):
        add(f"rpc-{label}", run(content, rpc))
        add(f"rpc-{label}-norecords", run(image(11, 0, 208), rpc))
        add(f"rpc-{label}-blank", run(image(11, 3, 208, declared=""), rpc))

    # order of the calls on the collaborators (lazy chunk-by-chunk processing)
    for rpc in (1, 2, 3, 5, 1024):
        add(f"order-rpc{rpc}", run_wrapped(content, rpc))
    add("order-unknown-type", run_wrapped(image(11, 5, 208, types=[11, 11, 11, 11, 99]), 2))
    add("order-truncated", run_wrapped(content[: 720 + 3 * 208 - 1], 2))
    add("order-rpc-none", run_wrapped(content, None))

    # replaced collaborators, as the test-suite does
    dummy_content = (
        b"\x03\x0E"
        + b"\x00\x00\x00\x01\x00\x0B\x00\x00\x00\x00\x00\x11\x03\x00\x00\x00\x00"
        + b"\x00\x00\x00\x02\x00\x0B\x00\x00\x00\x00\x00\x11\x04\x00\x00\x00\x00"
        + b"\x00\x00\x00\x03\x00\x0B\x00\x00\x00\x00\x00\x11\x05\x00\x00\x00\x00"
    )
    dummy_record_types = {
        11: Struct(
            "preamble" / io.record_preamble,
            "record_start" / Tell,
            "a" / Int8ub,
            "data" / Struct("start" / Tell, "stop" / Seek(this.start + 4)),
        ),
    }

    def dummy_descriptor(header):
        def read_file_descriptor(f):
            f.read(2)

            return header

        return read_file_descriptor

    saved = io.record_types
    io.record_types = dummy_record_types
    try:
        full = {"number_of_sar_data_records": 3, "sar_data_record_length": 17}
        for rpc in (1, 2, 3, 4):
            add(
                f"dummy-rpc{rpc}",
                run_wrapped(dummy_content, rpc, read_file_descriptor=dummy_descriptor(full)),
            )
        for label, header in (
            ("no-count", {"sar_data_record_length": 17}),
            ("no-length", {"number_of_sar_data_records": 3}),
            ("empty", {}),
            ("extra", {**full, "extra": (1, 2), "nested": {"a": [1, 2]}, "_io": None}),
            ("none-count", {**full, "number_of_sar_data_records": None}),
            ("none-length", {**full, "sar_data_record_length": None}),
            ("str-length", {**full, "sar_data_record_length": "17"}),
            ("float-count", {**full, "number_of_sar_data_records": 3.0}),
            ("float-length", {**full, "sar_data_record_length": 17.0}),
        ):
            add(
                f"dummy-header-{label}",
                run_wrapped(dummy_content, 2, read_file_descriptor=dummy_descriptor(header)),
            )

        # adjust_offsets returning other iterables / parse_chunk returning tuples
        add(
            "dummy-adjust-generator",
            run_wrapped(
                dummy_content,
                2,
                read_file_descriptor=dummy_descriptor(full),
                adjust_offsets=lambda records, offset: (
                    io._adjust_offset(r, offset) for r in records
                ),
            ),
        )
        add(
            "dummy-adjust-empty",
            run_wrapped(
                dummy_content,
                2,
                read_file_descriptor=dummy_descriptor(full),
                adjust_offsets=lambda records, offset: [],
            ),
        )
    finally:
        io.record_types = saved

    # results are plain python containers
    header, metadata = io.read_metadata(stdio.BytesIO(content), 2)
    add(
        "result-types",
        digest(
            (
                type(header).__name__,
                type(metadata).__name__,
                sorted({type(m).__name__ for m in metadata}),
                [m["record_start"] for m in metadata],
                [(m["data"]["start"], m["data"]["stop"]) for m in metadata],
                header["number_of_sar_data_records"],
                header["sar_data_record_length"],
            )
        ),
    )
    # default of the keyword
    import inspect

    add("signature", str(inspect.signature(io.read_metadata)))

    return out


EXPECTED = {
 'regular-10-n0-rpc1': ('sha256:5b85be410ba275ff9f388de40797ac697c7e7fa5946b668b2fae477cfa5d869b:3521',
                        "[('read', (720,), (), 0), ('read->', 720)]",
                        720),
 'regular-10-n0-rpc2': ('sha256:5b85be410ba275ff9f388de40797ac697c7e7fa5946b668b2fae477cfa5d869b:3521',
                        "[('read', (720,), (), 0), ('read->', 720)]",
                        720),
 'regular-10-n0-rpc3': ('sha256:5b85be410ba275ff9f388de40797ac697c7e7fa5946b668b2fae477cfa5d869b:3521',
                        "[('read', (720,), (), 0), ('read->', 720)]",
                        720),
 'regular-10-n0-rpc4': ('sha256:5b85be410ba275ff9f388de40797ac697c7e7fa5946b668b2fae477cfa5d869b:3521',
                        "[('read', (720,), (), 0), ('read->', 720)]",
                        720),
 'regular-10-n0-rpc6': ('sha256:5b85be410ba275ff9f388de40797ac697c7e7fa5946b668b2fae477cfa5d869b:3521',
                        "[('read', (720,), (), 0), ('read->', 720)]",
                        720),
 'regular-10-n0-rpc7': ('sha256:5b85be410ba275ff9f388de40797ac697c7e7fa5946b668b2fae477cfa5d869b:3521',
                        "[('read', (720,), (), 0), ('read->', 720)]",
                        720),
 'regular-10-n0-rpc8': ('sha256:5b85be410ba275ff9f388de40797ac697c7e7fa5946b668b2fae477cfa5d869b:3521',
                        "[('read', (720,), (), 0), ('read->', 720)]",
                        720),
 'regular-10-n0-rpc1024': ('sha256:5b85be410ba275ff9f388de40797ac697c7e7fa5946b668b2fae477cfa5d869b:3521',
                           "[('read', (720,), (), 0), ('read->', 720)]",
                           720),
 'regular-10-n0-default': ('sha256:5b85be410ba275ff9f388de40797ac697c7e7fa5946b668b2fae477cfa5d869b:3521',
                           "[('read', (720,), (), 0), ('read->', 720)]",
                           720),
 'regular-10-n1-rpc1': ('sha256:e5f4e05f97c544a5ab776b465d55b91bb0ff8e3523146c24ae61b8a4ac70d160:8248',
                        "[('read', (720,), (), 0), ('read->', 720), ('read', (560,), (), 720), "
                        "('read->', 560)]",
                        1280),
 'regular-10-n1-rpc2': ('sha256:e5f4e05f97c544a5ab776b465d55b91bb0ff8e3523146c24ae61b8a4ac70d160:8248',
                        "[('read', (720,), (), 0), ('read->', 720), ('read', (560,), (), 720), "
                        "('read->', 560)]",
                        1280),
 'regular-10-n1-rpc3': ('sha256:e5f4e05f97c544a5ab776b465d55b91bb0ff8e3523146c24ae61b8a4ac70d160:8248',
                        "[('read', (720,), (), 0), ('read->', 720), ('read', (560,), (), 720), "
                        "('read->', 560)]",
                        1280),
 'regular-10-n1-rpc4': ('sha256:e5f4e05f97c544a5ab776b465d55b91bb0ff8e3523146c24ae61b8a4ac70d160:8248',
                        "[('read', (720,), (), 0), ('read->', 720), ('read', (560,), (), 720), "
                        "('read->', 560)]",
                        1280),
 'regular-10-n1-rpc6': ('sha256:e5f4e05f97c544a5ab776b465d55b91bb0ff8e3523146c24ae61b8a4ac70d160:8248',
                        "[('read', (720,), (), 0), ('read->', 720), ('read', (560,), (), 720), "
                        "('read->', 560)]",
                        1280),
 'regular-10-n1-rpc7': ('sha256:e5f4e05f97c544a5ab776b465d55b91bb0ff8e3523146c24ae61b8a4ac70d160:8248',
                        "[('read', (720,), (), 0), ('read->', 720), ('read', (560,), (), 720), "
                        "('read->', 560)]",
                        1280),
 'regular-10-n1-rpc8': ('sha256:e5f4e05f97c544a5ab776b465d55b91bb0ff8e3523146c24ae61b8a4ac70d160:8248',
                        "[('read', (720,), (), 0), ('read->', 720), ('read', (560,), (), 720), "
                        "('read->', 560)]",
                        1280),
 'regular-10-n1-rpc1024': ('sha256:e5f4e05f97c544a5ab776b465d55b91bb0ff8e3523146c24ae61b8a4ac70d160:8248',
                           "[('read', (720,), (), 0), ('read->', 720), ('read', (560,), (), "
                           "720), ('read->', 560)]",
                           1280),
 'regular-10-n1-default': ('sha256:e5f4e05f97c544a5ab776b465d55b91bb0ff8e3523146c24ae61b8a4ac70d160:8248',
                           "[('read', (720,), (), 0), ('read->', 720), ('read', (560,), (), "
                           "720), ('read->', 560)]",
                           1280),
 'regular-10-n2-rpc1': ('sha256:128bf843a0883ff219d2978350ca1f9a80b2bd943c0ef21490b2231be9d894ce:12978',
                        "[('read', (720,), (), 0), ('read->', 720), ('read', (560,), (), 720), "
                        "('read->', 560), ('read', (560,), (), 1280), ('read->', 560)]",
                        1840),
 'regular-10-n2-rpc2': ('sha256:128bf843a0883ff219d2978350ca1f9a80b2bd943c0ef21490b2231be9d894ce:12978',
                        "[('read', (720,), (), 0), ('read->', 720), ('read', (1120,), (), 720), "
                        "('read->', 1120)]",
                        1840),
 'regular-10-n2-rpc3': ('sha256:128bf843a0883ff219d2978350ca1f9a80b2bd943c0ef21490b2231be9d894ce:12978',
                        "[('read', (720,), (), 0), ('read->', 720), ('read', (1120,), (), 720), "
                        "('read->', 1120)]",
                        1840),
 'regular-10-n2-rpc4': ('sha256:128bf843a0883ff219d2978350ca1f9a80b2bd943c0ef21490b2231be9d894ce:12978',
                        "[('read', (720,), (), 0), ('read->', 720), ('read', (1120,), (), 720), "
                        "('read->', 1120)]",
                        1840),
 'regular-10-n2-rpc6': ('sha256:128bf843a0883ff219d2978350ca1f9a80b2bd943c0ef21490b2231be9d894ce:12978',
                        "[('read', (720,), (), 0), ('read->', 720), ('read', (1120,), (), 720), "
                        "('read->', 1120)]",
                        1840),
 'regular-10-n2-rpc7': ('sha256:128bf843a0883ff219d2978350ca1f9a80b2bd943c0ef21490b2231be9d894ce:12978',
                        "[('read', (720,), (), 0), ('read->', 720), ('read', (1120,), (), 720), "
                        "('read->', 1120)]",
                        1840),
 'regular-10-n2-rpc8': ('sha256:128bf843a0883ff219d2978350ca1f9a80b2bd943c0ef21490b2231be9d894ce:12978',
                        "[('read', (720,), (), 0), ('read->', 720), ('read', (1120,), (), 720), "
                        "('read->', 1120)]",
                        1840),
 'regular-10-n2-rpc1024': ('sha256:128bf843a0883ff219d2978350ca1f9a80b2bd943c0ef21490b2231be9d894ce:12978',
                           "[('read', (720,), (), 0), ('read->', 720), ('read', (1120,), (), "
                           "720), ('read->', 1120)]",
                           1840),
 'regular-10-n2-default': ('sha256:128bf843a0883ff219d2978350ca1f9a80b2bd943c0ef21490b2231be9d894ce:12978',
                           "[('read', (720,), (), 0), ('read->', 720), ('read', (1120,), (), "
                           "720), ('read->', 1120)]",
                           1840),
 'regular-10-n3-rpc1': ('sha256:f1cdf8ed3e0488247bd998ec7a334470d7e6187fcd1f6c7ffa50d049b203483e:17708',
                        "[('read', (720,), (), 0), ('read->', 720), ('read', (560,), (), 720), "
                        "('read->', 560), ('read', (560,), (), 1280), ('read->', 560), ('read', "
                        "(560,), (), 1840), ('read->', 560)]",
                        2400),
 'regular-10-n3-rpc2': ('sha256:f1cdf8ed3e0488247bd998ec7a334470d7e6187fcd1f6c7ffa50d049b203483e:17708',
                        "[('read', (720,), (), 0), ('read->', 720), ('read', (1120,), (), 720), "
                        "('read->', 1120), ('read', (560,), (), 1840), ('read->', 560)]",
                        2400),
 'regular-10-n3-rpc3': ('sha256:f1cdf8ed3e0488247bd998ec7a334470d7e6187fcd1f6c7ffa50d049b203483e:17708',
                        "[('read', (720,), (), 0), ('read->', 720), ('read', (1680,), (), 720), "
                        "('read->', 1680)]",
                        2400),
 'regular-10-n3-rpc4': ('sha256:f1cdf8ed3e0488247bd998ec7a334470d7e6187fcd1f6c7ffa50d049b203483e:17708',
                        "[('read', (720,), (), 0), ('read->', 720), ('read', (1680,), (), 720), "
                        "('read->', 1680)]",
                        2400),
 'regular-10-n3-rpc6': ('sha256:f1cdf8ed3e0488247bd998ec7a334470d7e6187fcd1f6c7ffa50d049b203483e:17708',
                        "[('read', (720,), (), 0), ('read->', 720), ('read', (1680,), (), 720), "
                        "('read->', 1680)]",
                        2400),
 'regular-10-n3-rpc7': ('sha256:f1cdf8ed3e0488247bd998ec7a334470d7e6187fcd1f6c7ffa50d049b203483e:17708',
                        "[('read', (720,), (), 0), ('read->', 720), ('read', (1680,), (), 720), "
                        "('read->', 1680)]",
                        2400),
 'regular-10-n3-rpc8': ('sha256:f1cdf8ed3e0488247bd998ec7a334470d7e6187fcd1f6c7ffa50d049b203483e:17708',
                        "[('read', (720,), (), 0), ('read->', 720), ('read', (1680,), (), 720), "
                        "('read->', 1680)]",
                        2400),
 'regular-10-n3-rpc1024': ('sha256:f1cdf8ed3e0488247bd998ec7a334470d7e6187fcd1f6c7ffa50d049b203483e:17708',
                           "[('read', (720,), (), 0), ('read->', 720), ('read', (1680,), (), "
                           "720), ('read->', 1680)]",
                           2400),
 'regular-10-n3-default': ('sha256:f1cdf8ed3e0488247bd998ec7a334470d7e6187fcd1f6c7ffa50d049b203483e:17708',
                           "[('read', (720,), (), 0), ('read->', 720), ('read', (1680,), (), "
                           "720), ('read->', 1680)]",
                           2400),
 'regular-10-n5-rpc1': ('sha256:6397c452c9803d2156bd8688bb9fe73418f0d5ef998b9dd463a63e0b3d3c62c3:27168',
                        "[('read', (720,), (), 0), ('read->', 720), ('read', (560,), (), 720), "
                        "('read->', 560), ('read', (560,), (), 1280), ('read->', 560), ('read', "
                        "(560,), (), 1840), ('read->', 560), ('read', (560,), (), 2400), "
                        "('read->', 560), ('read', (560,), (), 2960), ('read->', 560)]",
                        3520),
 'regular-10-n5-rpc2': ('sha256:6397c452c9803d2156bd8688bb9fe73418f0d5ef998b9dd463a63e0b3d3c62c3:27168',
                        "[('read', (720,), (), 0), ('read->', 720), ('read', (1120,), (), 720), "
                        "('read->', 1120), ('read', (1120,), (), 1840), ('read->', 1120), "
                        "('read', (560,), (), 2960), ('read->', 560)]",
                        3520),
 'regular-10-n5-rpc3': ('sha256:6397c452c9803d2156bd8688bb9fe73418f0d5ef998b9dd463a63e0b3d3c62c3:27168',
                        "[('read', (720,), (), 0), ('read->', 720), ('read', (1680,), (), 720), "
                        "('read->', 1680), ('read', (1120,), (), 2400), ('read->', 1120)]",
                        3520),
 'regular-10-n5-rpc4': ('sha256:6397c452c9803d2156bd8688bb9fe73418f0d5ef998b9dd463a63e0b3d3c62c3:27168',
                        "[('read', (720,), (), 0), ('read->', 720), ('read', (2240,), (), 720), "
                        "('read->', 2240), ('read', (560,), (), 2960), ('read->', 560)]",
                        3520),
 'regular-10-n5-rpc6': ('sha256:6397c452c9803d2156bd8688bb9fe73418f0d5ef998b9dd463a63e0b3d3c62c3:27168',
                        "[('read', (720,), (), 0), ('read->', 720), ('read', (2800,), (), 720), "
                        "('read->', 2800)]",
                        3520),
 'regular-10-n5-rpc7': ('sha256:6397c452c9803d2156bd8688bb9fe73418f0d5ef998b9dd463a63e0b3d3c62c3:27168',
                        "[('read', (720,), (), 0), ('read->', 720), ('read', (2800,), (), 720), "
                        "('read->', 2800)]",
                        3520),
 'regular-10-n5-rpc8': ('sha256:6397c452c9803d2156bd8688bb9fe73418f0d5ef998b9dd463a63e0b3d3c62c3:27168',
                        "[('read', (720,), (), 0), ('read->', 720), ('read', (2800,), (), 720), "
                        "('read->', 2800)]",
                        3520),
 'regular-10-n5-rpc1024': ('sha256:6397c452c9803d2156bd8688bb9fe73418f0d5ef998b9dd463a63e0b3d3c62c3:27168',
                           "[('read', (720,), (), 0), ('read->', 720), ('read', (2800,), (), "
                           "720), ('read->', 2800)]",
                           3520),
 'regular-10-n5-default': ('sha256:6397c452c9803d2156bd8688bb9fe73418f0d5ef998b9dd463a63e0b3d3c62c3:27168',
                           "[('read', (720,), (), 0), ('read->', 720), ('read', (2800,), (), "
                           "720), ('read->', 2800)]",
                           3520),
 'regular-10-n7-rpc1': ('sha256:550fa49733b4b5f8f6c788c02e030c5ef0560390e6d96a5c6678004417cff221:36628',
                        "[('read', (720,), (), 0), ('read->', 720), ('read', (560,), (), 720), "
                        "('read->', 560), ('read', (560,), (), 1280), ('read->', 560), ('read', "
                        "(560,), (), 1840), ('read->', 560), ('read', (560,), (), 2400), "
                        "('read->', 560), ('read', (560,), (), 2960), ('read->', 560), ('read', "
                        "(560,), (), 3520), ('read->', 560), ('read', (560,), (), 4080), "
                        "('read->', 560)]",
                        4640),
 'regular-10-n7-rpc2': ('sha256:550fa49733b4b5f8f6c788c02e030c5ef0560390e6d96a5c6678004417cff221:36628',
                        "[('read', (720,), (), 0), ('read->', 720), ('read', (1120,), (), 720), "
                        "('read->', 1120), ('read', (1120,), (), 1840), ('read->', 1120), "
                        "('read', (1120,), (), 2960), ('read->', 1120), ('read', (560,), (), "
                        "4080), ('read->', 560)]",
                        4640),
 'regular-10-n7-rpc3': ('sha256:550fa49733b4b5f8f6c788c02e030c5ef0560390e6d96a5c6678004417cff221:36628',
                        "[('read', (720,), (), 0), ('read->', 720), ('read', (1680,), (), 720), "
                        "('read->', 1680), ('read', (1680,), (), 2400), ('read->', 1680), "
                        "('read', (560,), (), 4080), ('read->', 560)]",
                        4640),
 'regular-10-n7-rpc4': ('sha256:550fa49733b4b5f8f6c788c02e030c5ef0560390e6d96a5c6678004417cff221:36628',
                        "[('read', (720,), (), 0), ('read->', 720), ('read', (2240,), (), 720), "
                        "('read->', 2240), ('read', (1680,), (), 2960), ('read->', 1680)]",
                        4640),
 'regular-10-n7-rpc6': ('sha256:550fa49733b4b5f8f6c788c02e030c5ef0560390e6d96a5c6678004417cff221:36628',
                        "[('read', (720,), (), 0), ('read->', 720), ('read', (3360,), (), 720), "
                        "('read->', 3360), ('read', (560,), (), 4080), ('read->', 560)]",
                        4640),
 'regular-10-n7-rpc7': ('sha256:550fa49733b4b5f8f6c788c02e030c5ef0560390e6d96a5c6678004417cff221:36628',
                        "[('read', (720,), (), 0), ('read->', 720), ('read', (3920,), (), 720), "
                        "('read->', 3920)]",
                        4640),
 'regular-10-n7-rpc8': ('sha256:550fa49733b4b5f8f6c788c02e030c5ef0560390e6d96a5c6678004417cff221:36628',
                        "[('read', (720,), (), 0), ('read->', 720), ('read', (3920,), (), 720), "
                        "('read->', 3920)]",
                        4640),
 'regular-10-n7-rpc1024': ('sha256:550fa49733b4b5f8f6c788c02e030c5ef0560390e6d96a5c6678004417cff221:36628',
                           "[('read', (720,), (), 0), ('read->', 720), ('read', (3920,), (), "
                           "720), ('read->', 3920)]",
                           4640),
 'regular-10-n7-default': ('sha256:550fa49733b4b5f8f6c788c02e030c5ef0560390e6d96a5c6678004417cff221:36628',
                           "[('read', (720,), (), 0), ('read->', 720), ('read', (3920,), (), "
                           "720), ('read->', 3920)]",
                           4640),
 'regular-10-bare-header-length': ('sha256:cac09e11ee23d3ae1b48ca6da4565e64a424ec9a45b7262965137c2598872e5b:22454',
                                   "[('read', (720,), (), 0), ('read->', 720), ('read', (1632,), "
                                   "(), 720), ('read->', 1632), ('read', (544,), (), 2352), "
                                   "('read->', 544)]",
                                   2896),
 'regular-10-trailing-bytes': ('sha256:4b41a7e8ece928eae9b9f9a4949323e4ca255c0bd89568af0892c6c25beb956e:22438',
                               "[('read', (720,), (), 0), ('read->', 720), ('read', (1680,), (), "
                               "720), ('read->', 1680), ('read', (560,), (), 2400), ('read->', "
                               '560)]',
                               2960),
 'regular-11-n0-rpc1': ('sha256:dff4660f315029bf9ec9fb266233515cecdef7a5d334f9ce6105a5ff98295d3e:3521',
                        "[('read', (720,), (), 0), ('read->', 720)]",
                        720),
 'regular-11-n0-rpc2': ('sha256:dff4660f315029bf9ec9fb266233515cecdef7a5d334f9ce6105a5ff98295d3e:3521',
                        "[('read', (720,), (), 0), ('read->', 720)]",
                        720),
 'regular-11-n0-rpc3': ('sha256:dff4660f315029bf9ec9fb266233515cecdef7a5d334f9ce6105a5ff98295d3e:3521',
                        "[('read', (720,), (), 0), ('read->', 720)]",
                        720),
 'regular-11-n0-rpc4': ('sha256:dff4660f315029bf9ec9fb266233515cecdef7a5d334f9ce6105a5ff98295d3e:3521',
                        "[('read', (720,), (), 0), ('read->', 720)]",
                        720),
 'regular-11-n0-rpc6': ('sha256:dff4660f315029bf9ec9fb266233515cecdef7a5d334f9ce6105a5ff98295d3e:3521',
                        "[('read', (720,), (), 0), ('read->', 720)]",
                        720),
 'regular-11-n0-rpc7': ('sha256:dff4660f315029bf9ec9fb266233515cecdef7a5d334f9ce6105a5ff98295d3e:3521',
                        "[('read', (720,), (), 0), ('read->', 720)]",
                        720),
 'regular-11-n0-rpc8': ('sha256:dff4660f315029bf9ec9fb266233515cecdef7a5d334f9ce6105a5ff98295d3e:3521',
                        "[('read', (720,), (), 0), ('read->', 720)]",
                        720),
 'regular-11-n0-rpc1024': ('sha256:dff4660f315029bf9ec9fb266233515cecdef7a5d334f9ce6105a5ff98295d3e:3521',
                           "[('read', (720,), (), 0), ('read->', 720)]",
                           720),
 'regular-11-n0-default': ('sha256:dff4660f315029bf9ec9fb266233515cecdef7a5d334f9ce6105a5ff98295d3e:3521',
                           "[('read', (720,), (), 0), ('read->', 720)]",
                           720),
 'regular-11-n1-rpc1': ('sha256:ec86af2de38b81cfb1b3427a525113ef33211622eb95f398df2ef1844f36ed9b:7007',
                        "[('read', (720,), (), 0), ('read->', 720), ('read', (208,), (), 720), "
                        "('read->', 208)]",
                        928),
 'regular-11-n1-rpc2': ('sha256:ec86af2de38b81cfb1b3427a525113ef33211622eb95f398df2ef1844f36ed9b:7007',
                        "[('read', (720,), (), 0), ('read->', 720), ('read', (208,), (), 720), "
                        "('read->', 208)]",
                        928),
 'regular-11-n1-rpc3': ('sha256:ec86af2de38b81cfb1b3427a525113ef33211622eb95f398df2ef1844f36ed9b:7007',
                        "[('read', (720,), (), 0), ('read->', 720), ('read', (208,), (), 720), "
                        "('read->', 208)]",
                        928),
 'regular-11-n1-rpc4': ('sha256:ec86af2de38b81cfb1b3427a525113ef33211622eb95f398df2ef1844f36ed9b:7007',
                        "[('read', (720,), (), 0), ('read->', 720), ('read', (208,), (), 720), "
                        "('read->', 208)]",
                        928),
 'regular-11-n1-rpc6': ('sha256:ec86af2de38b81cfb1b3427a525113ef33211622eb95f398df2ef1844f36ed9b:7007',
                        "[('read', (720,), (), 0), ('read->', 720), ('read', (208,), (), 720), "
                        "('read->', 208)]",
                        928),
 'regular-11-n1-rpc7': ('sha256:ec86af2de38b81cfb1b3427a525113ef33211622eb95f398df2ef1844f36ed9b:7007',
                        "[('read', (720,), (), 0), ('read->', 720), ('read', (208,), (), 720), "
                        "('read->', 208)]",
                        928),
 'regular-11-n1-rpc8': ('sha256:ec86af2de38b81cfb1b3427a525113ef33211622eb95f398df2ef1844f36ed9b:7007',
                        "[('read', (720,), (), 0), ('read->', 720), ('read', (208,), (), 720), "
                        "('read->', 208)]",
                        928),
 'regular-11-n1-rpc1024': ('sha256:ec86af2de38b81cfb1b3427a525113ef33211622eb95f398df2ef1844f36ed9b:7007',
                           "[('read', (720,), (), 0), ('read->', 720), ('read', (208,), (), "
                           "720), ('read->', 208)]",
                           928),
 'regular-11-n1-default': ('sha256:ec86af2de38b81cfb1b3427a525113ef33211622eb95f398df2ef1844f36ed9b:7007',
                           "[('read', (720,), (), 0), ('read->', 720), ('read', (208,), (), "
                           "720), ('read->', 208)]",
                           928),
 'regular-11-n2-rpc1': ('sha256:a94919a4f437e2d749086ecdafa13d600d98728b32a66a3c54b96e7b81e26f2b:10497',
                        "[('read', (720,), (), 0), ('read->', 720), ('read', (208,), (), 720), "
                        "('read->', 208), ('read', (208,), (), 928), ('read->', 208)]",
                        1136),
 'regular-11-n2-rpc2': ('sha256:a94919a4f437e2d749086ecdafa13d600d98728b32a66a3c54b96e7b81e26f2b:10497',
                        "[('read', (720,), (), 0), ('read->', 720), ('read', (416,), (), 720), "
                        "('read->', 416)]",
                        1136),
 'regular-11-n2-rpc3': ('sha256:a94919a4f437e2d749086ecdafa13d600d98728b32a66a3c54b96e7b81e26f2b:10497',
                        "[('read', (720,), (), 0), ('read->', 720), ('read', (416,), (), 720), "
                        "('read->', 416)]",
                        1136),
 'regular-11-n2-rpc4': ('sha256:a94919a4f437e2d749086ecdafa13d600d98728b32a66a3c54b96e7b81e26f2b:10497',
                        "[('read', (720,), (), 0), ('read->', 720), ('read', (416,), (), 720), "
                        "('read->', 416)]",
                        1136),
 'regular-11-n2-rpc6': ('sha256:a94919a4f437e2d749086ecdafa13d600d98728b32a66a3c54b96e7b81e26f2b:10497',
                        "[('read', (720,), (), 0), ('read->', 720), ('read', (416,), (), 720), "
                        "('read->', 416)]",
                        1136),
 'regular-11-n2-rpc7': ('sha256:a94919a4f437e2d749086ecdafa13d600d98728b32a66a3c54b96e7b81e26f2b:10497',
                        "[('read', (720,), (), 0), ('read->', 720), ('read', (416,), (), 720), "
                        "('read->', 416)]",
                        1136),
 'regular-11-n2-rpc8': ('sha256:a94919a4f437e2d749086ecdafa13d600d98728b32a66a3c54b96e7b81e26f2b:10497',
                        "[('read', (720,), (), 0), ('read->', 720), ('read', (416,), (), 720), "
                        "('read->', 416)]",
                        1136),
 'regular-11-n2-rpc1024': ('sha256:a94919a4f437e2d749086ecdafa13d600d98728b32a66a3c54b96e7b81e26f2b:10497',
                           "[('read', (720,), (), 0), ('read->', 720), ('read', (416,), (), "
                           "720), ('read->', 416)]",
                           1136),
 'regular-11-n2-default': ('sha256:a94919a4f437e2d749086ecdafa13d600d98728b32a66a3c54b96e7b81e26f2b:10497',
                           "[('read', (720,), (), 0), ('read->', 720), ('read', (416,), (), "
                           "720), ('read->', 416)]",
                           1136),
 'regular-11-n3-rpc1': ('sha256:10cf841a8664876da46f33e666f02bf83489a8c621f274616ca1eee63b51bbe8:13988',
                        "[('read', (720,), (), 0), ('read->', 720), ('read', (208,), (), 720), "
                        "('read->', 208), ('read', (208,), (), 928), ('read->', 208), ('read', "
                        "(208,), (), 1136), ('read->', 208)]",
                        1344),
 'regular-11-n3-rpc2': ('sha256:10cf841a8664876da46f33e666f02bf83489a8c621f274616ca1eee63b51bbe8:13988',
                        "[('read', (720,), (), 0), ('read->', 720), ('read', (416,), (), 720), "
                        "('read->', 416), ('read', (208,), (), 1136), ('read->', 208)]",
                        1344),
 'regular-11-n3-rpc3': ('sha256:10cf841a8664876da46f33e666f02bf83489a8c621f274616ca1eee63b51bbe8:13988',
                        "[('read', (720,), (), 0), ('read->', 720), ('read', (624,), (), 720), "
                        "('read->', 624)]",
                        1344),
 'regular-11-n3-rpc4': ('sha256:10cf841a8664876da46f33e666f02bf83489a8c621f274616ca1eee63b51bbe8:13988',
                        "[('read', (720,), (), 0), ('read->', 720), ('read', (624,), (), 720), "
                        "('read->', 624)]",
                        1344),
 'regular-11-n3-rpc6': ('sha256:10cf841a8664876da46f33e666f02bf83489a8c621f274616ca1eee63b51bbe8:13988',
                        "[('read', (720,), (), 0), ('read->', 720), ('read', (624,), (), 720), "
                        "('read->', 624)]",
                        1344),
 'regular-11-n3-rpc7': ('sha256:10cf841a8664876da46f33e666f02bf83489a8c621f274616ca1eee63b51bbe8:13988',
                        "[('read', (720,), (), 0), ('read->', 720), ('read', (624,), (), 720), "
                        "('read->', 624)]",
                        1344),
 'regular-11-n3-rpc8': ('sha256:10cf841a8664876da46f33e666f02bf83489a8c621f274616ca1eee63b51bbe8:13988',
                        "[('read', (720,), (), 0), ('read->', 720), ('read', (624,), (), 720), "
                        "('read->', 624)]",
                        1344),
 'regular-11-n3-rpc1024': ('sha256:10cf841a8664876da46f33e666f02bf83489a8c621f274616ca1eee63b51bbe8:13988',
                           "[('read', (720,), (), 0), ('read->', 720), ('read', (624,), (), "
                           "720), ('read->', 624)]",
                           1344),
 'regular-11-n3-default': ('sha256:10cf841a8664876da46f33e666f02bf83489a8c621f274616ca1eee63b51bbe8:13988',
                           "[('read', (720,), (), 0), ('read->', 720), ('read', (624,), (), "
                           "720), ('read->', 624)]",
                           1344),
 'regular-11-n5-rpc1': ('sha256:17d099c6b6e2f90d2200ca11768a19ab7ee2c9bf92672fdf0f1c4f483362ec7e:20970',
                        "[('read', (720,), (), 0), ('read->', 720), ('read', (208,), (), 720), "
                        "('read->', 208), ('read', (208,), (), 928), ('read->', 208), ('read', "
                        "(208,), (), 1136), ('read->', 208), ('read', (208,), (), 1344), "
                        "('read->', 208), ('read', (208,), (), 1552), ('read->', 208)]",
                        1760),
 'regular-11-n5-rpc2': ('sha256:17d099c6b6e2f90d2200ca11768a19ab7ee2c9bf92672fdf0f1c4f483362ec7e:20970',
                        "[('read', (720,), (), 0), ('read->', 720), ('read', (416,), (), 720), "
                        "('read->', 416), ('read', (416,), (), 1136), ('read->', 416), ('read', "
                        "(208,), (), 1552), ('read->', 208)]",
                        1760),
 'regular-11-n5-rpc3': ('sha256:17d099c6b6e2f90d2200ca11768a19ab7ee2c9bf92672fdf0f1c4f483362ec7e:20970',
                        "[('read', (720,), (), 0), ('read->', 720), ('read', (624,), (), 720), "
                        "('read->', 624), ('read', (416,), (), 1344), ('read->', 416)]",
                        1760),
 'regular-11-n5-rpc4': ('sha256:17d099c6b6e2f90d2200ca11768a19ab7ee2c9bf92672fdf0f1c4f483362ec7e:20970',
                        "[('read', (720,), (), 0), ('read->', 720), ('read', (832,), (), 720), "
                        "('read->', 832), ('read', (208,), (), 1552), ('read->', 208)]",
                        1760),
 'regular-11-n5-rpc6': ('sha256:17d099c6b6e2f90d2200ca11768a19ab7ee2c9bf92672fdf0f1c4f483362ec7e:20970',
                        "[('read', (720,), (), 0), ('read->', 720), ('read', (1040,), (), 720), "
                        "('read->', 1040)]",
                        1760),
 'regular-11-n5-rpc7': ('sha256:17d099c6b6e2f90d2200ca11768a19ab7ee2c9bf92672fdf0f1c4f483362ec7e:20970',
                        "[('read', (720,), (), 0), ('read->', 720), ('read', (1040,), (), 720), "
                        "('read->', 1040)]",
                        1760),
 'regular-11-n5-rpc8': ('sha256:17d099c6b6e2f90d2200ca11768a19ab7ee2c9bf92672fdf0f1c4f483362ec7e:20970',
                        "[('read', (720,), (), 0), ('read->', 720), ('read', (1040,), (), 720), "
                        "('read->', 1040)]",
                        1760),
 'regular-11-n5-rpc1024': ('sha256:17d099c6b6e2f90d2200ca11768a19ab7ee2c9bf92672fdf0f1c4f483362ec7e:20970',
                           "[('read', (720,), (), 0), ('read->', 720), ('read', (1040,), (), "
                           "720), ('read->', 1040)]",
                           1760),
 'regular-11-n5-default': ('sha256:17d099c6b6e2f90d2200ca11768a19ab7ee2c9bf92672fdf0f1c4f483362ec7e:20970',
                           "[('read', (720,), (), 0), ('read->', 720), ('read', (1040,), (), "
                           "720), ('read->', 1040)]",
                           1760),
 'regular-11-n7-rpc1': ('sha256:20eee1ca61d4194658ed201c200db158d5d30c08014bb26cb0c9cb72c3b325e8:27952',
                        "[('read', (720,), (), 0), ('read->', 720), ('read', (208,), (), 720), "
                        "('read->', 208), ('read', (208,), (), 928), ('read->', 208), ('read', "
                        "(208,), (), 1136), ('read->', 208), ('read', (208,), (), 1344), "
                        "('read->', 208), ('read', (208,), (), 1552), ('read->', 208), ('read', "
                        "(208,), (), 1760), ('read->', 208), ('read', (208,), (), 1968), "
                        "('read->', 208)]",
                        2176),
 'regular-11-n7-rpc2': ('sha256:20eee1ca61d4194658ed201c200db158d5d30c08014bb26cb0c9cb72c3b325e8:27952',
                        "[('read', (720,), (), 0), ('read->', 720), ('read', (416,), (), 720), "
                        "('read->', 416), ('read', (416,), (), 1136), ('read->', 416), ('read', "
                        "(416,), (), 1552), ('read->', 416), ('read', (208,), (), 1968), "
                        "('read->', 208)]",
                        2176),
 'regular-11-n7-rpc3': ('sha256:20eee1ca61d4194658ed201c200db158d5d30c08014bb26cb0c9cb72c3b325e8:27952',
                        "[('read', (720,), (), 0), ('read->', 720), ('read', (624,), (), 720), "
                        "('read->', 624), ('read', (624,), (), 1344), ('read->', 624), ('read', "
                        "(208,), (), 1968), ('read->', 208)]",
                        2176),
 'regular-11-n7-rpc4': ('sha256:20eee1ca61d4194658ed201c200db158d5d30c08014bb26cb0c9cb72c3b325e8:27952',
                        "[('read', (720,), (), 0), ('read->', 720), ('read', (832,), (), 720), "
                        "('read->', 832), ('read', (624,), (), 1552), ('read->', 624)]",
                        2176),
 'regular-11-n7-rpc6': ('sha256:20eee1ca61d4194658ed201c200db158d5d30c08014bb26cb0c9cb72c3b325e8:27952',
                        "[('read', (720,), (), 0), ('read->', 720), ('read', (1248,), (), 720), "
                        "('read->', 1248), ('read', (208,), (), 1968), ('read->', 208)]",
                        2176),
 'regular-11-n7-rpc7': ('sha256:20eee1ca61d4194658ed201c200db158d5d30c08014bb26cb0c9cb72c3b325e8:27952',
                        "[('read', (720,), (), 0), ('read->', 720), ('read', (1456,), (), 720), "
                        "('read->', 1456)]",
                        2176),
 'regular-11-n7-rpc8': ('sha256:20eee1ca61d4194658ed201c200db158d5d30c08014bb26cb0c9cb72c3b325e8:27952',
                        "[('read', (720,), (), 0), ('read->', 720), ('read', (1456,), (), 720), "
                        "('read->', 1456)]",
                        2176),
 'regular-11-n7-rpc1024': ('sha256:20eee1ca61d4194658ed201c200db158d5d30c08014bb26cb0c9cb72c3b325e8:27952',
                           "[('read', (720,), (), 0), ('read->', 720), ('read', (1456,), (), "
                           "720), ('read->', 1456)]",
                           2176),
 'regular-11-n7-default': ('sha256:20eee1ca61d4194658ed201c200db158d5d30c08014bb26cb0c9cb72c3b325e8:27952',
                           "[('read', (720,), (), 0), ('read->', 720), ('read', (1456,), (), "
                           "720), ('read->', 1456)]",
                           2176),
 'regular-11-bare-header-length': ('sha256:356e3f44c0e3e9094a19e002186195f1c70c301d098a3006a6c450a7e577d67f:17495',
                                   "[('read', (720,), (), 0), ('read->', 720), ('read', (576,), "
                                   "(), 720), ('read->', 576), ('read', (192,), (), 1296), "
                                   "('read->', 192)]",
                                   1488),
 'regular-11-trailing-bytes': ('sha256:56ed0b001f584a8815b1f3cbf932af3b89aa47dd32a8d03b5fdc8b3e08ade041:17479',
                               "[('read', (720,), (), 0), ('read->', 720), ('read', (624,), (), "
                               "720), ('read->', 624), ('read', (208,), (), 1344), ('read->', "
                               '208)]',
                               1552),
 'memoryfs-rpc2': ('sha256:17d099c6b6e2f90d2200ca11768a19ab7ee2c9bf92672fdf0f1c4f483362ec7e:20970',
                   "[('read', (720,), (), 0), ('read->', 720), ('read', (416,), (), 720), "
                   "('read->', 416), ('read', (416,), (), 1136), ('read->', 416), ('read', "
                   "(208,), (), 1552), ('read->', 208)]",
                   1760),
 'memoryfs-default': ('sha256:17d099c6b6e2f90d2200ca11768a19ab7ee2c9bf92672fdf0f1c4f483362ec7e:20970',
                      "[('read', (720,), (), 0), ('read->', 720), ('read', (1040,), (), 720), "
                      "('read->', 1040)]",
                      1760),
 'notell-rpc2': ('sha256:17d099c6b6e2f90d2200ca11768a19ab7ee2c9bf92672fdf0f1c4f483362ec7e:20970',
                 "[('read', (720,), (), None), ('read->', 720), ('read', (416,), (), None), "
                 "('read->', 416), ('read', (416,), (), None), ('read->', 416), ('read', (208,), "
                 "(), None), ('read->', 208)]",
                 None),
 'bufferedreader-rpc3': ('sha256:17d099c6b6e2f90d2200ca11768a19ab7ee2c9bf92672fdf0f1c4f483362ec7e:20970',
                         "[('read', (720,), (), 0), ('read->', 720), ('read', (624,), (), 720), "
                         "('read->', 624), ('read', (416,), (), 1344), ('read->', 416)]",
                         1760),
 'declared-more-rpc2': ("('raise', [('construct.core', 'StreamError', 'Error in path (parsing) "
                        '-> record_sequence_number\\nstream read less than specified amount, '
                        "expected 4, found 0')])",
                        "[('read', (720,), (), 0), ('read->', 720), ('read', (416,), (), 720), "
                        "('read->', 416), ('read', (416,), (), 1136), ('read->', 416), ('read', "
                        "(416,), (), 1552), ('read->', 208), ('read', (416,), (), 1760), "
                        "('read->', 0)]",
                        1760),
 'declared-more-rpc3': ('sha256:ed96bd95dc4ca9b142256042db33d8a3226b5b4f2cf7dc5447f10489fbcd5b35:20970',
                        "[('read', (720,), (), 0), ('read->', 720), ('read', (624,), (), 720), "
                        "('read->', 624), ('read', (624,), (), 1344), ('read->', 416)]",
                        1760),
 'declared-more-rpc1024': ('sha256:9a19337f1a8e1693d91c836b4983a07341d82c8b90c2b516b18689b7de081737:20970',
                           "[('read', (720,), (), 0), ('read->', 720), ('read', (1664,), (), "
                           "720), ('read->', 1040)]",
                           1760),
 'declared-more-aligned': ("('raise', [('construct.core', 'StreamError', 'Error in path "
                           '(parsing) -> record_sequence_number\\nstream read less than '
                           "specified amount, expected 4, found 0')])",
                           "[('read', (720,), (), 0), ('read->', 720), ('read', (416,), (), "
                           "720), ('read->', 416), ('read', (416,), (), 1136), ('read->', 416), "
                           "('read', (416,), (), 1552), ('read->', 0)]",
                           1552),
 'declared-fewer-rpc2': ('sha256:121f3fee89a8b2ea6513f31f7181db7a8b68eecf58d80914f10c894dfd8f1eed:13988',
                         "[('read', (720,), (), 0), ('read->', 720), ('read', (416,), (), 720), "
                         "('read->', 416), ('read', (208,), (), 1136), ('read->', 208)]",
                         1344),
 'declared-zero': ('sha256:4efdab9ac3aa765740db4a96207fa509ecb69708898b2317ba25382ca65781f6:3521',
                   "[('read', (720,), (), 0), ('read->', 720)]",
                   720),
 'declared-blank': ('sha256:17da6ba72274c981e4450b440cff46582e99da723b9cacb877a443d27e615d2c:3522',
                    "[('read', (720,), (), 0), ('read->', 720)]",
                    720),
 'declared-blank-rpc1': ('sha256:17da6ba72274c981e4450b440cff46582e99da723b9cacb877a443d27e615d2c:3522',
                         "[('read', (720,), (), 0), ('read->', 720)]",
                         720),
 'declared-negative': ('sha256:a8dbf1ad7f2f147ef9b2674b2a02654b966d3a0d20a8aa8483e312e7752dcc66:3522',
                       "[('read', (720,), (), 0), ('read->', 720)]",
                       720),
 'record-length-blank': ("('raise', [('construct.core', 'RangeError', 'Error in path "
                         "(parsing)\\ninvalid count -1040')])",
                         "[('read', (720,), (), 0), ('read->', 720), ('read', (-2,), (), 720), "
                         "('read->', 1040)]",
                         1760),
 'record-length-zero': ("('raise', [('builtins', 'ZeroDivisionError', 'integer division or "
                        "modulo by zero')])",
                        "[('read', (720,), (), 0), ('read->', 720), ('read', (0,), (), 720), "
                        "('read->', 0)]",
                        720),
 'record-length-larger': ("('raise', [('builtins', 'ValueError', 'unknown record type code: "
                          "0')])",
                          "[('read', (720,), (), 0), ('read->', 720), ('read', (520,), (), 720), "
                          "('read->', 520), ('read', (520,), (), 1240), ('read->', 520)]",
                          1760),
 'record-length-smaller': ("('raise', [('construct.core', 'StreamError', 'Error in path "
                           '(parsing) -> preamble -> record_sequence_number\\nstream read less '
                           "than specified amount, expected 4, found 0')])",
                           "[('read', (720,), (), 0), ('read->', 720), ('read', (208,), (), "
                           "720), ('read->', 208)]",
                           928),
 'record-length-half-rpc1': ('sha256:4e89e92621d9929f71b8d6dbb28dc787c650d1f364c1cc0673add4169b3208c1:13989',
                             "[('read', (720,), (), 0), ('read->', 720), ('read', (416,), (), "
                             "720), ('read->', 416), ('read', (416,), (), 1136), ('read->', "
                             "416), ('read', (416,), (), 1552), ('read->', 416)]",
                             1968),
 'not-a-number': ('(\'raise\', [(\'builtins\', \'ValueError\', "invalid literal for int() with '
                  'base 10: \'abc\'")])',
                  "[('read', (720,), (), 0), ('read->', 720)]",
                  720),
 'both-blank': ('sha256:cb530991d541f2dd7c75a8bc1052f0563c143716cff8da7ff6859d061f64e713:3521',
                "[('read', (720,), (), 0), ('read->', 720)]",
                720),
 'truncated-empty': ("('raise', [('construct.core', 'StreamError', 'Error in path (parsing) -> "
                     'preamble -> record_sequence_number\\nstream read less than specified '
                     "amount, expected 4, found 0')])",
                     "[('read', (720,), (), 0), ('read->', 0)]",
                     0),
 'truncated-header': ("('raise', [('construct.core', 'StreamError', 'Error in path (parsing) -> "
                      'scansar_burst_data_information -> blanks\\nstream read less than '
                      "specified amount, expected 260, found 240')])",
                      "[('read', (720,), (), 0), ('read->', 700)]",
                      700),
 'truncated-header-only': ("('raise', [('construct.core', 'StreamError', 'Error in path "
                           '(parsing) -> record_sequence_number\\nstream read less than '
                           "specified amount, expected 4, found 0')])",
                           "[('read', (720,), (), 0), ('read->', 720), ('read', (416,), (), "
                           "720), ('read->', 0)]",
                           720),
 'truncated-first-record': ("('raise', [('builtins', 'ValueError', 'sizes mismatch: chunksize is "
                            "0 but got 80 bytes')])",
                            "[('read', (720,), (), 0), ('read->', 720), ('read', (416,), (), "
                            "720), ('read->', 80)]",
                            800),
 'truncated-second-chunk': ("('raise', [('builtins', 'ValueError', 'sizes mismatch: chunksize is "
                            "0 but got 207 bytes')])",
                            "[('read', (720,), (), 0), ('read->', 720), ('read', (416,), (), "
                            "720), ('read->', 416), ('read', (416,), (), 1136), ('read->', 207)]",
                            1343),
 'truncated-third-chunk': ("('raise', [('construct.core', 'StreamError', 'Error in path "
                           '(parsing) -> record_sequence_number\\nstream read less than '
                           "specified amount, expected 4, found 0')])",
                           "[('read', (720,), (), 0), ('read->', 720), ('read', (416,), (), "
                           "720), ('read->', 416), ('read', (416,), (), 1136), ('read->', 416), "
                           "('read', (208,), (), 1552), ('read->', 0)]",
                           1552),
 'truncated-last-byte': ("('raise', [('builtins', 'ValueError', 'sizes mismatch: chunksize is "
                         "832 but got 1039 bytes')])",
                         "[('read', (720,), (), 0), ('read->', 720), ('read', (1040,), (), 720), "
                         "('read->', 1039)]",
                         1759),
 'unknown-type-first': ("('raise', [('builtins', 'ValueError', 'unknown record type code: 12')])",
                        "[('read', (720,), (), 0), ('read->', 720), ('read', (416,), (), 720), "
                        "('read->', 416)]",
                        1136),
 'unknown-type-third-chunk': ("('raise', [('builtins', 'ValueError', 'unknown record type code: "
                              "99')])",
                              "[('read', (720,), (), 0), ('read->', 720), ('read', (416,), (), "
                              "720), ('read->', 416), ('read', (416,), (), 1136), ('read->', "
                              "416), ('read', (208,), (), 1552), ('read->', 208)]",
                              1760),
 'unknown-type-inside-chunk': ('sha256:979d818ceff70de1325ac20f4b5f32e5061f233b268fd339f7df60e1500ff106:20970',
                               "[('read', (720,), (), 0), ('read->', 720), ('read', (416,), (), "
                               "720), ('read->', 416), ('read', (416,), (), 1136), ('read->', "
                               "416), ('read', (208,), (), 1552), ('read->', 208)]",
                               1760),
 'mixed-types-per-chunk': ('sha256:7941b0e60fade2456bca21b0e262ef5ada69efc86ac16175e463b756966b2b03:19961',
                           "[('read', (720,), (), 0), ('read->', 720), ('read', (1200,), (), "
                           "720), ('read->', 1200), ('read', (1200,), (), 1920), ('read->', "
                           '1200)]',
                           3120),
 'mixed-types-rpc1': ('sha256:662a19acd05fe640f58b3b87239502d0d11b56b556d167c2712c29db4232dfc5:19961',
                      "[('read', (720,), (), 0), ('read->', 720), ('read', (600,), (), 720), "
                      "('read->', 600), ('read', (600,), (), 1320), ('read->', 600), ('read', "
                      "(600,), (), 1920), ('read->', 600), ('read', (600,), (), 2520), "
                      "('read->', 600)]",
                      3120),
 'rpc-none': ('(\'raise\', [(\'builtins\', \'TypeError\', "unsupported operand type(s) for /: '
              '\'int\' and \'NoneType\'")])',
              "[('read', (720,), (), 0), ('read->', 720)]",
              720),
 'rpc-none-norecords': ('(\'raise\', [(\'builtins\', \'TypeError\', "unsupported operand type(s) '
                        'for /: \'int\' and \'NoneType\'")])',
                        "[('read', (720,), (), 0), ('read->', 720)]",
                        720),
 'rpc-none-blank': ('(\'raise\', [(\'builtins\', \'TypeError\', "unsupported operand type(s) for '
                    '/: \'int\' and \'NoneType\'")])',
                    "[('read', (720,), (), 0), ('read->', 720)]",
                    720),
 'rpc-zero': ("('raise', [('builtins', 'ZeroDivisionError', 'division by zero')])",
              "[('read', (720,), (), 0), ('read->', 720)]",
              720),
 'rpc-zero-norecords': ("('raise', [('builtins', 'ZeroDivisionError', 'division by zero')])",
                        "[('read', (720,), (), 0), ('read->', 720)]",
                        720),
 'rpc-zero-blank': ("('raise', [('builtins', 'ZeroDivisionError', 'division by zero')])",
                    "[('read', (720,), (), 0), ('read->', 720)]",
                    720),
 'rpc-minus-one': ('sha256:de3e62e3f03d371a4270d0bd07825889695ba14f875f765edeeac277f0aa6817:3521',
                   "[('read', (720,), (), 0), ('read->', 720)]",
                   720),
 'rpc-minus-one-norecords': ('sha256:dff4660f315029bf9ec9fb266233515cecdef7a5d334f9ce6105a5ff98295d3e:3521',
                             "[('read', (720,), (), 0), ('read->', 720)]",
                             720),
 'rpc-minus-one-blank': ('sha256:6fca2ccd4c2b97347abc2d96d00ef79b1f328d84e459555ad44baab85ba90a84:13989',
                         "[('read', (720,), (), 0), ('read->', 720), ('read', (-208,), (), 720), "
                         "('read->', 624)]",
                         1344),
 'rpc-minus-two': ('sha256:de3e62e3f03d371a4270d0bd07825889695ba14f875f765edeeac277f0aa6817:3521',
                   "[('read', (720,), (), 0), ('read->', 720)]",
                   720),
 'rpc-minus-two-norecords': ('sha256:dff4660f315029bf9ec9fb266233515cecdef7a5d334f9ce6105a5ff98295d3e:3521',
                             "[('read', (720,), (), 0), ('read->', 720)]",
                             720),
 'rpc-minus-two-blank': ('sha256:6fca2ccd4c2b97347abc2d96d00ef79b1f328d84e459555ad44baab85ba90a84:13989',
                         "[('read', (720,), (), 0), ('read->', 720), ('read', (-416,), (), 720), "
                         "('read->', 624)]",
                         1344),
 'rpc-true': ('sha256:17d099c6b6e2f90d2200ca11768a19ab7ee2c9bf92672fdf0f1c4f483362ec7e:20970',
              "[('read', (720,), (), 0), ('read->', 720), ('read', (208,), (), 720), ('read->', "
              "208), ('read', (208,), (), 928), ('read->', 208), ('read', (208,), (), 1136), "
              "('read->', 208), ('read', (208,), (), 1344), ('read->', 208), ('read', (208,), "
              "(), 1552), ('read->', 208)]",
              1760),
 'rpc-true-norecords': ('sha256:dff4660f315029bf9ec9fb266233515cecdef7a5d334f9ce6105a5ff98295d3e:3521',
                        "[('read', (720,), (), 0), ('read->', 720)]",
                        720),
 'rpc-true-blank': ('sha256:09dc79a84fd80159ab53d53a5008b519a4db574f1ed3159680fb9447d1bf85fa:3522',
                    "[('read', (720,), (), 0), ('read->', 720)]",
                    720),
 'rpc-false': ("('raise', [('builtins', 'ZeroDivisionError', 'division by zero')])",
               "[('read', (720,), (), 0), ('read->', 720)]",
               720),
 'rpc-false-norecords': ("('raise', [('builtins', 'ZeroDivisionError', 'division by zero')])",
                         "[('read', (720,), (), 0), ('read->', 720)]",
                         720),
 'rpc-false-blank': ("('raise', [('builtins', 'ZeroDivisionError', 'division by zero')])",
                     "[('read', (720,), (), 0), ('read->', 720)]",
                     720),
 'rpc-float-2': ('(\'raise\', [(\'builtins\', \'TypeError\', "argument should be integer or '
                 'None, not \'float\'")])',
                 "[('read', (720,), (), 0), ('read->', 720), ('read', (416.0,), (), 720)]",
                 720),
 'rpc-float-2-norecords': ('sha256:dff4660f315029bf9ec9fb266233515cecdef7a5d334f9ce6105a5ff98295d3e:3521',
                           "[('read', (720,), (), 0), ('read->', 720)]",
                           720),
 'rpc-float-2-blank': ('sha256:09dc79a84fd80159ab53d53a5008b519a4db574f1ed3159680fb9447d1bf85fa:3522',
                       "[('read', (720,), (), 0), ('read->', 720)]",
                       720),
 'rpc-float-1.5': ('(\'raise\', [(\'builtins\', \'TypeError\', "argument should be integer or '
                   'None, not \'float\'")])',
                   "[('read', (720,), (), 0), ('read->', 720), ('read', (312.0,), (), 720)]",
                   720),
 'rpc-float-1.5-norecords': ('sha256:dff4660f315029bf9ec9fb266233515cecdef7a5d334f9ce6105a5ff98295d3e:3521',
                             "[('read', (720,), (), 0), ('read->', 720)]",
                             720),
 'rpc-float-1.5-blank': ('sha256:09dc79a84fd80159ab53d53a5008b519a4db574f1ed3159680fb9447d1bf85fa:3522',
                         "[('read', (720,), (), 0), ('read->', 720)]",
                         720),
 'rpc-float-5': ('(\'raise\', [(\'builtins\', \'TypeError\', "argument should be integer or '
                 'None, not \'float\'")])',
                 "[('read', (720,), (), 0), ('read->', 720), ('read', (1040.0,), (), 720)]",
                 720),
 'rpc-float-5-norecords': ('sha256:dff4660f315029bf9ec9fb266233515cecdef7a5d334f9ce6105a5ff98295d3e:3521',
                           "[('read', (720,), (), 0), ('read->', 720)]",
                           720),
 'rpc-float-5-blank': ('sha256:09dc79a84fd80159ab53d53a5008b519a4db574f1ed3159680fb9447d1bf85fa:3522',
                       "[('read', (720,), (), 0), ('read->', 720)]",
                       720),
 'rpc-float-inf': ('sha256:de3e62e3f03d371a4270d0bd07825889695ba14f875f765edeeac277f0aa6817:3521',
                   "[('read', (720,), (), 0), ('read->', 720)]",
                   720),
 'rpc-float-inf-norecords': ('sha256:dff4660f315029bf9ec9fb266233515cecdef7a5d334f9ce6105a5ff98295d3e:3521',
                             "[('read', (720,), (), 0), ('read->', 720)]",
                             720),
 'rpc-float-inf-blank': ('sha256:09dc79a84fd80159ab53d53a5008b519a4db574f1ed3159680fb9447d1bf85fa:3522',
                         "[('read', (720,), (), 0), ('read->', 720)]",
                         720),
 'rpc-float-nan': ("('raise', [('builtins', 'ValueError', 'cannot convert float NaN to "
                   "integer')])",
                   "[('read', (720,), (), 0), ('read->', 720)]",
                   720),
 'rpc-float-nan-norecords': ("('raise', [('builtins', 'ValueError', 'cannot convert float NaN to "
                             "integer')])",
                             "[('read', (720,), (), 0), ('read->', 720)]",
                             720),
 'rpc-float-nan-blank': ("('raise', [('builtins', 'ValueError', 'cannot convert float NaN to "
                         "integer')])",
                         "[('read', (720,), (), 0), ('read->', 720)]",
                         720),
 'rpc-str': ('(\'raise\', [(\'builtins\', \'TypeError\', "unsupported operand type(s) for /: '
             '\'int\' and \'str\'")])',
             "[('read', (720,), (), 0), ('read->', 720)]",
             720),
 'rpc-str-norecords': ('(\'raise\', [(\'builtins\', \'TypeError\', "unsupported operand type(s) '
                       'for /: \'int\' and \'str\'")])',
                       "[('read', (720,), (), 0), ('read->', 720)]",
                       720),
 'rpc-str-blank': ('(\'raise\', [(\'builtins\', \'TypeError\', "unsupported operand type(s) for '
                   '/: \'int\' and \'str\'")])',
                   "[('read', (720,), (), 0), ('read->', 720)]",
                   720),
 'rpc-auto': ('(\'raise\', [(\'builtins\', \'TypeError\', "unsupported operand type(s) for /: '
              '\'int\' and \'str\'")])',
              "[('read', (720,), (), 0), ('read->', 720)]",
              720),
 'rpc-auto-norecords': ('(\'raise\', [(\'builtins\', \'TypeError\', "unsupported operand type(s) '
                        'for /: \'int\' and \'str\'")])',
                        "[('read', (720,), (), 0), ('read->', 720)]",
                        720),
 'rpc-auto-blank': ('(\'raise\', [(\'builtins\', \'TypeError\', "unsupported operand type(s) for '
                    '/: \'int\' and \'str\'")])',
                    "[('read', (720,), (), 0), ('read->', 720)]",
                    720),
 'rpc-huge': ('sha256:17d099c6b6e2f90d2200ca11768a19ab7ee2c9bf92672fdf0f1c4f483362ec7e:20970',
              "[('read', (720,), (), 0), ('read->', 720), ('read', (1040,), (), 720), ('read->', "
              '1040)]',
              1760),
 'rpc-huge-norecords': ('sha256:dff4660f315029bf9ec9fb266233515cecdef7a5d334f9ce6105a5ff98295d3e:3521',
                        "[('read', (720,), (), 0), ('read->', 720)]",
                        720),
 'rpc-huge-blank': ('sha256:09dc79a84fd80159ab53d53a5008b519a4db574f1ed3159680fb9447d1bf85fa:3522',
                    "[('read', (720,), (), 0), ('read->', 720)]",
                    720),
 'rpc-list': ('(\'raise\', [(\'builtins\', \'TypeError\', "unsupported operand type(s) for /: '
              '\'int\' and \'list\'")])',
              "[('read', (720,), (), 0), ('read->', 720)]",
              720),
 'rpc-list-norecords': ('(\'raise\', [(\'builtins\', \'TypeError\', "unsupported operand type(s) '
                        'for /: \'int\' and \'list\'")])',
                        "[('read', (720,), (), 0), ('read->', 720)]",
                        720),
 'rpc-list-blank': ('(\'raise\', [(\'builtins\', \'TypeError\', "unsupported operand type(s) for '
                    '/: \'int\' and \'list\'")])',
                    "[('read', (720,), (), 0), ('read->', 720)]",
                    720),
 'order-rpc1': ('sha256:17d099c6b6e2f90d2200ca11768a19ab7ee2c9bf92672fdf0f1c4f483362ec7e:20970',
                'sha256:c792ab3d4ec09f13e82041d9d009db8275ae74d5de307001021ccb4e83c3177a:1144',
                1760),
 'order-rpc2': ('sha256:17d099c6b6e2f90d2200ca11768a19ab7ee2c9bf92672fdf0f1c4f483362ec7e:20970',
                'sha256:f774ec86c43df565e85c55a85412f12a3f2c9fce6bc58d95b1eb58be4ed03674:740',
                1760),
 'order-rpc3': ('sha256:17d099c6b6e2f90d2200ca11768a19ab7ee2c9bf92672fdf0f1c4f483362ec7e:20970',
                'sha256:4c53befa0629d1a943ad21dc497ee9dd30bd7c97990a0750ed0fa3d26c80b1d3:537',
                1760),
 'order-rpc5': ('sha256:17d099c6b6e2f90d2200ca11768a19ab7ee2c9bf92672fdf0f1c4f483362ec7e:20970',
                "[('read_file_descriptor', ('RecordingFile',), ()), ('read', (720,), (), 0), "
                "('read->', 720), ('read_file_descriptor->', 'Container'), ('read', (1040,), (), "
                "720), ('read->', 1040), ('parse_chunk', (('bytes', 1040), 208), ()), "
                "('parse_chunk->', 'list'), ('adjust_offsets', (('list', 5),), (('offset', "
                "720),)), ('adjust_offsets->', 'list')]",
                1760),
 'order-rpc1024': ('sha256:17d099c6b6e2f90d2200ca11768a19ab7ee2c9bf92672fdf0f1c4f483362ec7e:20970',
                   "[('read_file_descriptor', ('RecordingFile',), ()), ('read', (720,), (), 0), "
                   "('read->', 720), ('read_file_descriptor->', 'Container'), ('read', (1040,), "
                   "(), 720), ('read->', 1040), ('parse_chunk', (('bytes', 1040), 208), ()), "
                   "('parse_chunk->', 'list'), ('adjust_offsets', (('list', 5),), (('offset', "
                   "720),)), ('adjust_offsets->', 'list')]",
                   1760),
 'order-unknown-type': ("('raise', [('builtins', 'ValueError', 'unknown record type code: 99')])",
                        'sha256:dfda4715a72484b64997004f03470f2e3e363798775ed24d6459957a72f816d4:626',
                        1760),
 'order-truncated': ("('raise', [('builtins', 'ValueError', 'sizes mismatch: chunksize is 0 but "
                     "got 207 bytes')])",
                     'sha256:412a5b0e7ea726e15d4dcc7734a8967b793780051f5bd79a289a5eab3045a869:423',
                     1343),
 'order-rpc-none': ('(\'raise\', [(\'builtins\', \'TypeError\', "unsupported operand type(s) for '
                    '/: \'int\' and \'NoneType\'")])',
                    "[('read_file_descriptor', ('RecordingFile',), ()), ('read', (720,), (), 0), "
                    "('read->', 720), ('read_file_descriptor->', 'Container')]",
                    720),
 'dummy-rpc1': ('sha256:0b912d9e1f60522926573e06c2845d232c085237d7723c30c5041ce05fe5f438:1323',
                'sha256:10511cb7ec21504eafc1fa9933d64d28db5faad3b999291b0969da63468ca802:711',
                53),
 'dummy-rpc2': ('sha256:0b912d9e1f60522926573e06c2845d232c085237d7723c30c5041ce05fe5f438:1323',
                'sha256:01077658c090b257d91cc3b406e6fe6f50e784122edc9068becf7273c9d54976:515',
                53),
 'dummy-rpc3': ('sha256:0b912d9e1f60522926573e06c2845d232c085237d7723c30c5041ce05fe5f438:1323',
                "[('read_file_descriptor', ('RecordingFile',), ()), ('read', (2,), (), 0), "
                "('read->', 2), ('read_file_descriptor->', 'dict'), ('read', (51,), (), 2), "
                "('read->', 51), ('parse_chunk', (('bytes', 51), 17), ()), ('parse_chunk->', "
                "'list'), ('adjust_offsets', (('list', 3),), (('offset', 720),)), "
                "('adjust_offsets->', 'list')]",
                53),
 'dummy-rpc4': ('sha256:0b912d9e1f60522926573e06c2845d232c085237d7723c30c5041ce05fe5f438:1323',
                "[('read_file_descriptor', ('RecordingFile',), ()), ('read', (2,), (), 0), "
                "('read->', 2), ('read_file_descriptor->', 'dict'), ('read', (51,), (), 2), "
                "('read->', 51), ('parse_chunk', (('bytes', 51), 17), ()), ('parse_chunk->', "
                "'list'), ('adjust_offsets', (('list', 3),), (('offset', 720),)), "
                "('adjust_offsets->', 'list')]",
                53),
 'dummy-header-no-count': ("('raise', [('builtins', 'KeyError', "
                           '"\'number_of_sar_data_records\'")])',
                           "[('read_file_descriptor', ('RecordingFile',), ()), ('read', (2,), "
                           "(), 0), ('read->', 2), ('read_file_descriptor->', 'dict')]",
                           2),
 'dummy-header-no-length': ("('raise', [('builtins', 'KeyError', "
                            '"\'sar_data_record_length\'")])',
                            "[('read_file_descriptor', ('RecordingFile',), ()), ('read', (2,), "
                            "(), 0), ('read->', 2), ('read_file_descriptor->', 'dict')]",
                            2),
 'dummy-header-empty': ("('raise', [('builtins', 'KeyError', "
                        '"\'number_of_sar_data_records\'")])',
                        "[('read_file_descriptor', ('RecordingFile',), ()), ('read', (2,), (), "
                        "0), ('read->', 2), ('read_file_descriptor->', 'dict')]",
                        2),
 'dummy-header-extra': ('sha256:268983ba06073ac4d1e15e7e6d5df2d26a9a3575e94c3486b606361d92fee8bc:1446',
                        'sha256:01077658c090b257d91cc3b406e6fe6f50e784122edc9068becf7273c9d54976:515',
                        53),
 'dummy-header-none-count': ('(\'raise\', [(\'builtins\', \'TypeError\', "unsupported operand '
                             'type(s) for /: \'NoneType\' and \'int\'")])',
                             "[('read_file_descriptor', ('RecordingFile',), ()), ('read', (2,), "
                             "(), 0), ('read->', 2), ('read_file_descriptor->', 'dict')]",
                             2),
 'dummy-header-none-length': ('(\'raise\', [(\'builtins\', \'TypeError\', "unsupported operand '
                              'type(s) for *: \'int\' and \'NoneType\'")])',
                              "[('read_file_descriptor', ('RecordingFile',), ()), ('read', (2,), "
                              "(), 0), ('read->', 2), ('read_file_descriptor->', 'dict')]",
                              2),
 'dummy-header-str-length': ("('raise', [('builtins', 'TypeError', 'can only concatenate str "
                             '(not "int") to str\')])',
                             "[('read_file_descriptor', ('RecordingFile',), ()), ('read', (2,), "
                             "(), 0), ('read->', 2), ('read_file_descriptor->', 'dict')]",
                             2),
 'dummy-header-float-count': ('(\'raise\', [(\'builtins\', \'TypeError\', "argument should be '
                              'integer or None, not \'float\'")])',
                              "[('read_file_descriptor', ('RecordingFile',), ()), ('read', (2,), "
                              "(), 0), ('read->', 2), ('read_file_descriptor->', 'dict'), "
                              "('read', (34,), (), 2), ('read->', 34), ('parse_chunk', "
                              "(('bytes', 34), 17), ()), ('parse_chunk->', 'list'), "
                              "('adjust_offsets', (('list', 2),), (('offset', 720),)), "
                              "('adjust_offsets->', 'list'), ('read', (17.0,), (), 36)]",
                              36),
 'dummy-header-float-length': ('(\'raise\', [(\'builtins\', \'TypeError\', "argument should be '
                               'integer or None, not \'float\'")])',
                               "[('read_file_descriptor', ('RecordingFile',), ()), ('read', "
                               "(2,), (), 0), ('read->', 2), ('read_file_descriptor->', 'dict'), "
                               "('read', (34.0,), (), 2)]",
                               2),
 'dummy-adjust-generator': ('sha256:0b912d9e1f60522926573e06c2845d232c085237d7723c30c5041ce05fe5f438:1323',
                            'sha256:ff80fd1ef8848ce281ce472f5d80ce6c3479407a10dc797a91f1cd4da83b2c96:525',
                            53),
 'dummy-adjust-empty': ("('ok', ('tuple', [('dict', [('number_of_sar_data_records', ('int', "
                        "'3')), ('sar_data_record_length', ('int', '17'))]), ('list', [])]))",
                        'sha256:01077658c090b257d91cc3b406e6fe6f50e784122edc9068becf7273c9d54976:515',
                        53),
 'result-types': "('dict', 'list', ['dict'], [720, 928, 1136, 1344, 1552], [(912, 928), (1120, "
                 '1136), (1328, 1344), (1536, 1552), (1744, 1760)], 5, 208)',
 'signature': '(f, records_per_chunk=1024)',
}


def test_equivalence():
    actual = cases()
    assert set(actual) == set(EXPECTED)
    different = {k: (actual[k], EXPECTED[k]) for k in actual if actual[k] != EXPECTED[k]}
    assert not different, different


if __name__ == "__main__":
    if "--record" in sys.argv:
        import pprint

        pprint.pprint(cases(), width=100, sort_dicts=False)
    else:
        test_equivalence()
        print(f"OK: {len(EXPECTED)} outcomes identical ({io.__file__})")
